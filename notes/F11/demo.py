"""FactoryFunctorPool.__exit__ blocks forever when workers retired at the very end of the last call (their replacement request
reached the replace queue after the stop token, so nobody replaced them) and the work queue is smaller than the number of stop
orders: the stop orders are put with a blocking put and no live worker consumes them."""
import multiprocessing, os, sys, threading, time
from windpyutils.parallel.own_proc_pools import FactoryFunctorPool, FunctorWorker, FunctorWorkerFactory


class SlowAnnounce:
    """a queue whose put() is late: the retiring worker's request arrives after the consumer has left the imap call"""
    def __init__(self, q, delay):
        self.q, self.delay = q, delay

    def put(self, x, *a, **k):
        time.sleep(self.delay)
        self.q.put(x, *a, **k)

    def __getattr__(self, n):
        return getattr(self.q, n)


class W(FunctorWorker):
    def __call__(self, x):
        return x * 2


class F(FunctorWorkerFactory):
    def create(self):
        return W(max_chunks_per_worker=1)


class Pool(FactoryFunctorPool):
    def _init_process(self, p):
        super()._init_process(p)
        p.replace_queue = SlowAnnounce(self._replace_queue, 1.0)      # schedule only: same queue, later arrival


def scenario(out):
    with Pool(2, F(), context=multiprocessing.get_context("fork"), work_queue_maxsize=1) as pool:
        out.append(list(pool.imap([1, 2], 1)))
    out.append("left")


if __name__ == "__main__":
    out = []
    t = threading.Thread(target=scenario, args=(out,), daemon=True)
    t.start()
    t.join(20)
    if t.is_alive() or out[-1:] != ["left"]:
        print("FAIL: results", out, "- the pool context was not left within 20 s")
        os._exit(1)
    print("OK", out)
    os._exit(0)
