#!/venv/bin/python
"""Regenerates the seeded-changes table of DESIGN.md (between the SEEDED-TABLE markers) from seeded/*/meta.json."""
import json, pathlib, re
p = pathlib.Path('/verif/DESIGN.md')
s = p.read_text()
rows = []
first_own = first_err = first_other = first_miss = now_own = 0
dirs = [d for d in sorted(pathlib.Path('/verif/seeded').iterdir()) if (d / 'meta.json').exists()]
for d in dirs:
    m = json.loads((d / 'meta.json').read_text())
    first = m.get('static_checks_first', m['static_checks'])
    now = m['static_checks']
    own = m['breaks_property']

    def kind(sc):
        f = sc.get('fired', {})
        if own in f and f[own].get('exit') == 1:
            return 'own', 'own: ' + ', '.join(f[own].get('rules', []))
        others = [k for k, v in f.items() if v.get('exit') == 1]
        if others:
            return 'other', 'only by ' + ', '.join(others)
        if own in f and f[own].get('exit') == 2:
            return 'err', 'ANALYSIS-ERROR only'
        return 'miss', 'missed'
    kf, tf = kind(first)
    kn, tn = kind(now)
    first_own += kf == 'own'; first_err += kf == 'err'; first_other += kf == 'other'; first_miss += kf == 'miss'
    now_own += kn == 'own'
    what = m.get('what', '').replace('|', '/').replace('\n', ' ')
    what = (what[:150] + '…') if len(what) > 150 else what
    rnd = m.get('round', 1)
    rows.append(f"| {d.name} | {rnd} | {what} | {tf} | {tn} |")
table = ("<!-- SEEDED-TABLE-BEGIN -->\n| change | round | what was changed | first | now |\n|---|---|---|---|---|\n" + "\n".join(rows) +
         f"\n\nTotals over {len(dirs)} recorded changes — first contact: {first_own} VIOLATION by the check of the broken property, "
         f"{first_other} only by another property's check, {first_err} ANALYSIS-ERROR only, {first_miss} missed; now: {now_own} "
         f"VIOLATION by the check of the broken property.\n<!-- SEEDED-TABLE-END -->")
if "<!-- SEEDED-TABLE-BEGIN -->" in s:
    s = re.sub(r"<!-- SEEDED-TABLE-BEGIN -->.*?<!-- SEEDED-TABLE-END -->", lambda _: table, s, flags=re.S)
else:
    s = re.sub(r"\| change \| what was changed \| first \| now \|\n\|---\|---\|---\|---\|\n(?:\|.*\n)+", lambda _: table + "\n", s)
s = re.sub(r"\* \d+ independently seeded breaking changes", f"* {len(dirs)} independently seeded breaking changes", s)
p.write_text(s)
print(len(dirs), first_own, first_other, first_err, first_miss, now_own)
