#!/venv/bin/python
"""Development helper: print the path summaries (sa/paths.py) of a method.   tools/paths_dump.py windpyutils.files TmpPool flush [patch.diff]"""
import sys, pathlib
sys.path.insert(0, "/verif")
from sa.model import Program, repo_root
from sa.paths import summaries, show
from sa.thorough import apply_unified

mod, cls, meth = sys.argv[1:4]
ov = None
if len(sys.argv) > 4:
    root = repo_root()
    ov = apply_unified(pathlib.Path(sys.argv[4]).read_text(), lambda rel: (root / rel).read_text())
P = Program(overlay=ov)
c = P.cls(cls, mod) if cls != "-" else None
f = P.resolve(c, meth) if c is not None else P.func(meth, mod)
paths, un = summaries(P, f, c)
print("unrecognised:", un)
for p in paths:
    print("PATH exit=%s value=%s" % (p.exit, show(p.value)))
    for d, o in p.decisions:
        print("    if", show(d), "->", o)
    for e in p.events:
        print("   ", e[0], " ".join(show(x) if isinstance(x, tuple) else str(x) for x in e[1:]))
    print("    heap:", {k: show(v) for k, v in p.heap.items()})
