#!/venv/bin/python
"""Development helper (not a registered check): run checks against a variant of /repo in a temp directory.

  tools/variant.py --rev bbdab21 C11 C18        # the pinned tree before the fix: commits
  tools/variant.py --patch seeded/x/patch.diff C06
The variant lives in a mkdtemp directory that is removed afterwards; no evidence is written.
"""
import argparse, os, shutil, subprocess, sys, tempfile

ap = argparse.ArgumentParser()
ap.add_argument("--rev", default="HEAD")
ap.add_argument("--patch", action="append", default=[])
ap.add_argument("--tier", default="quick")
ap.add_argument("--sub", action="append", default=[], help="relpath:::old:::new textual substitution (must match once)")
ap.add_argument("props", nargs="*")
a = ap.parse_args()
d = tempfile.mkdtemp(prefix="verif_variant_")
try:
    tar = subprocess.Popen(["git", "-C", "/repo", "archive", a.rev, "windpyutils"], stdout=subprocess.PIPE)
    subprocess.check_call(["tar", "x", "-C", d], stdin=tar.stdout)
    tar.wait()
    for p in a.patch:
        subprocess.check_call(["patch", "-s", "-p1", "-d", d, "-i", os.path.abspath(p)])
    for sub in a.sub:
        rel, old, new = sub.split(":::")
        old = old.encode().decode("unicode_escape"); new = new.encode().decode("unicode_escape")
        fp = os.path.join(d, rel)
        txt = open(fp).read()
        if txt.count(old) != 1:
            print(f"--sub: pattern occurs {txt.count(old)} times in {rel}", file=sys.stderr); sys.exit(3)
        open(fp, "w").write(txt.replace(old, new))
        import py_compile
        py_compile.compile(fp, doraise=True, cfile=os.path.join(d, "_c.pyc"))
    env = dict(os.environ, VERIF_REPO=d, VERIF_NO_WRITE="1")
    props = a.props or ["--all"]
    rc = 0
    for p in props:
        r = subprocess.call(["/verif/check", p, "--tier", a.tier] if p != "--all" else ["/verif/check", "--all"], env=env)
        rc = max(rc, r)
    sys.exit(rc)
finally:
    shutil.rmtree(d, ignore_errors=True)
