#!/venv/bin/python
"""Development helper (not a registered check): confirm a seeded change and record it under /verif/seeded/.

  tools/seed_confirm.py C06 1 --tests tests/test_caches.py tests/test_lists.py [--src /tmp/wt]

Steps (all in a scratch worktree that is removed afterwards):
  1. patch applies to /repo HEAD and the package still compiles
  2. the demonstration FAILS with the patch
  3. the given existing test modules PASS with the patch
  4. the demonstration PASSES without the patch
  5. every static check is run on the patched tree; which ones report a VIOLATION is recorded
The result goes to /verif/seeded/<ID>-<k>/{patch.diff, demo.py, meta.json}.
"""
import argparse, json, os, shutil, subprocess, sys, tempfile, time

ap = argparse.ArgumentParser()
ap.add_argument("prop")
ap.add_argument("k")
ap.add_argument("--tests", nargs="*", default=[])
ap.add_argument("--src", default="/tmp/wt")
ap.add_argument("--demo-timeout", type=int, default=300)
ap.add_argument("--no-record", action="store_true")
ap.add_argument("--prefix", default="")
ap.add_argument("--round", type=int, default=1)
a = ap.parse_args()

diff = f"{a.src}/{a.prefix}{a.prop}_mut{a.k}.diff"
demo = f"{a.src}/{a.prefix}{a.prop}_mut{a.k}_demo.py"
summ = f"{a.src}/{a.prefix}{a.prop}_summary.json"
wt = tempfile.mkdtemp(prefix="seedconf_")
os.rmdir(wt)
res = {"property": a.prop, "k": int(a.k)}


def run(cmd, cwd=None, timeout=3000, env=None):
    out = tempfile.NamedTemporaryFile("w+", delete=False, suffix=".log")
    try:
        p = subprocess.run(cmd, cwd=cwd, stdout=out, stderr=subprocess.STDOUT, stdin=subprocess.DEVNULL, timeout=timeout, env=env)
        rc = p.returncode
    except subprocess.TimeoutExpired:
        rc = 124
    out.flush(); out.seek(0)
    txt = out.read()
    out.close(); os.unlink(out.name)
    return rc, txt


try:
    subprocess.check_call(["git", "-C", "/repo", "worktree", "add", "--detach", "-q", wt, "HEAD"])
    env = dict(os.environ, PYTHONPATH=wt)
    rc, txt = run(["git", "apply", diff], cwd=wt)
    res["applies"] = rc == 0
    if rc != 0:
        res["apply_output"] = txt[-500:]
        raise SystemExit
    rc, txt = run(["/venv/bin/python", "-m", "compileall", "-q", "windpyutils"], cwd=wt)
    res["compiles"] = rc == 0
    rc, txt = run(["/venv/bin/python", demo], cwd=wt, timeout=a.demo_timeout, env=env)
    res["demo_with_change_rc"] = rc
    res["demo_with_change_tail"] = txt[-400:]
    if a.tests:
        t0 = time.time()
        rc, txt = run(["/venv/bin/python", "-m", "pytest", "-q", "-p", "no:cacheprovider", "--timeout=900"] + a.tests, cwd=wt, env=env)
        res["tests"] = a.tests
        res["tests_rc"] = rc
        res["tests_tail"] = txt.strip().splitlines()[-1][-200:] if txt.strip() else ""
        res["tests_s"] = round(time.time() - t0)
    # static checks on the patched tree
    fired = {}
    cenv = dict(os.environ, VERIF_REPO=wt, VERIF_NO_WRITE="1")
    for n in range(1, 21):
        pid = f"C{n:02d}"
        if not os.path.exists(f"/verif/sa/rules/{pid.lower()}.py"):
            continue
        rc, txt = run(["/verif/check", pid], env=cenv, timeout=200)
        if rc != 0:
            rules = sorted({l.split("rule ")[1].split(" ")[0] for l in txt.splitlines() if ": rule " in l})
            fired[pid] = {"exit": rc, "rules": rules,
                          "first": next((l.strip()[:300] for l in txt.splitlines() if ": rule " in l or "ANALYSIS-ERROR" in l), "")}
    res["checks_fired"] = fired
    res["caught_by_own_property"] = a.prop in fired and fired[a.prop]["exit"] == 1
    run(["git", "checkout", "--", "."], cwd=wt)
    rc, txt = run(["/venv/bin/python", demo], cwd=wt, timeout=a.demo_timeout, env=env)
    res["demo_without_change_rc"] = rc
    res["confirmed"] = bool(res.get("compiles") and res["demo_with_change_rc"] != 0 and res["demo_without_change_rc"] == 0
                            and (not a.tests or res.get("tests_rc") == 0))
except SystemExit:
    res["confirmed"] = False
finally:
    subprocess.call(["git", "-C", "/repo", "worktree", "remove", "--force", wt])
    shutil.rmtree(wt, ignore_errors=True)

agent_meta = {}
if os.path.exists(summ):
    try:
        for e in json.load(open(summ)):
            if str(e.get("k")) == str(a.k):
                agent_meta = e
    except Exception:
        pass
res["agent_summary"] = agent_meta
print(json.dumps(res, indent=1))
if res.get("confirmed") and not a.no_record:
    d = f"/verif/seeded/{a.prop}-{a.k}" if a.round == 1 else f"/verif/seeded/{a.prop}-r{a.round}-{a.k}"
    os.makedirs(d, exist_ok=True)
    shutil.copy(diff, f"{d}/patch.diff")
    shutil.copy(demo, f"{d}/demo.py")
    meta = {"breaks_property": a.prop, "round": a.round, "what": agent_meta.get("what", ""), "needs_to_manifest": agent_meta.get("needs", ""),
            "origin": "independent sub-agent given only the property text and a scratch worktree",
            "confirmed_by": {"demo_with_change_rc": res["demo_with_change_rc"], "demo_without_change_rc": res["demo_without_change_rc"],
                             "tests_run": res.get("tests", []), "tests_rc": res.get("tests_rc"), "tests_tail": res.get("tests_tail")},
            "static_checks": {"fired": fired, "caught_by_own_property": res["caught_by_own_property"]}}
    json.dump(meta, open(f"{d}/meta.json", "w"), indent=1)
