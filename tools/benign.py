#!/venv/bin/python
"""Development helper: run every check on behaviour-preserving variants of /repo (sa.selfcheck transformations).

  tools/benign.py [transform ...] [--props C01 C02 ...]
Prints one line per (transform, property) that is not PASS.
"""
import argparse, os, sys, time, importlib, io, contextlib
sys.path.insert(0, "/verif")
from concurrent.futures import ProcessPoolExecutor
from sa.model import Program, repo_root
from sa.selfcheck import TRANSFORMS, variant_overlay
from sa.report import Report, finish, OK, VIOLATION, UNRECOGNISED


def one(args):
    name, prop = args
    import signal
    signal.alarm(120)
    try:
        ov = variant_overlay(repo_root(), name)
        prog = Program(overlay=ov)
        rep = Report(prop)
        mod = importlib.import_module(f"sa.rules.{prop.lower()}")
        try:
            mod.run(prog, rep)
        except Exception as e:
            import traceback
            return name, prop, "ERROR", [f"{type(e).__name__}: {e} @ {traceback.format_exc().strip().splitlines()[-3].strip()}"]
        buf = io.StringIO()
        with contextlib.redirect_stdout(buf):
            code = finish(rep, prog, time.time(), write=False, quiet=True)
        msgs = [f"{i.verdict} {i.rule} {i.construct} [{i.role}] {i.detail[:160]}" for i in rep.instances if i.verdict != OK]
        msgs += [f"ERR {e[:200]}" for e in rep.errors]
        return name, prop, {0: "PASS", 1: "VIOLATION", 2: "ANALYSIS-ERROR"}[code], msgs
    except BaseException as e:
        return name, prop, "ERROR", [f"{type(e).__name__}: {e}"]


if __name__ == "__main__":
    ap = argparse.ArgumentParser()
    ap.add_argument("transforms", nargs="*")
    ap.add_argument("--props", nargs="*")
    a = ap.parse_args()
    names = a.transforms or list(TRANSFORMS)
    props = a.props or [f"C{n:02d}" for n in range(1, 21) if os.path.exists(f"/verif/sa/rules/c{n:02d}.py")]
    jobs = [(n, p) for n in names for p in props]
    bad = 0
    with ProcessPoolExecutor(max_workers=12) as ex:
        for name, prop, verdict, msgs in ex.map(one, jobs):
            if verdict != "PASS":
                bad += 1
                print(f"{name:20s} {prop} {verdict}")
                for m in msgs[:6]:
                    print("      ", m)
    print(f"{len(jobs)} runs, {bad} not PASS")
