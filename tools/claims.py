"""Per-property claim texts for MANIFEST.json (kept next to the generator so they are edited in one place)."""

STATIC_BASE = ("Trusted base: CPython's ast parser; the closed-world assumption of DESIGN.md appendix A; the leaf "
               "classification table of external APIs (appendix B); standard-library semantics. ")

CLAIMS = {
    "C01": dict(
        design_ref="DESIGN.md §6 C01",
        text="Necessary-condition lints plus exact sub-clauses of the imap bookkeeping protocol, decided on all paths and "
             "for all schedules: completion flag raised before the feeder thread starts, publication order of flag and "
             "counter on writer and reader side, one counter write per work put, chunk tag passed through the worker "
             "unmodified with an order-preserving unfiltered map, consumer accounting, result conservation in "
             "_get_results, reorder-buffer emit/advance typestate, accumulate-and-yield chunking idiom, call-local state, "
             "input consumed once by iteration. Decides the structural clauses, not the behaviour: a green run does not "
             "prove that imap returns map(f, data).",
        level_note=STATIC_BASE + "multiprocessing queue/thread semantics (Thread.start() is the only happens-before "
                   "edge from consumer to feeder) are trusted; the functor's values are not examined.",
        technique="static analysis: happens-before/must-precede rules, value-flow and typestate over the ast"),
    "C02": dict(
        design_ref="DESIGN.md §6 C02",
        text="Necessary-condition lints excluding five deadlock shapes on all paths: unowed blocking wait on the results "
             "queue, feeder flag not cleared on every exit, pause without resume, blocking operation under the results "
             "lock, consumer loop that does not re-test after every batch; the resume of a paused feeder is evaluated in the "
             "drained state (empty reorder buffer, event clear, finite bounds); the sent counter is reset per call and only "
             "the stop event ends the feeding. Each shape is a deadlock for some schedule; "
             "absence of the shapes is not a termination proof (no ranking function).",
        level_note=STATIC_BASE + "queue call classification (blocking / non-blocking / bounded) is the table of appendix B.",
        technique="static analysis: blocking-wait ownership, lock regions, post-dominance over the ast"),
    "C03": dict(
        design_ref="DESIGN.md §6 C03",
        text="Necessary-condition lints for cross-call state: stop-token conservation of the replace thread (every loop "
             "exit consumes the token stop() posts), per-call re-initialisation of the polled fields and call-local "
             "buffer, retire-announces/sentinel-silent in the worker, replace protocol order (join, create, init, store "
             "at the retired index, start), both factory consumers wrapped identically.",
        level_note=STATIC_BASE + "does not decide that the OS starts the replacement or fairness of multiprocessing.Queue.",
        technique="static analysis: sentinel typestate, must-precede ordering, sibling agreement"),
    "C04": dict(
        design_ref="DESIGN.md §6 C04",
        text="Exact for the ordering clauses (single end() call site in the finally of the try containing begin() and "
             "every work get; single begin() outside loops dominating every get; ready event set only after begin, never "
             "cleared afterwards; until_all_ready reaches the wait loop over every element of self.procs on every path), "
             "ordering abstraction of the quota guard (quota > 0 over all orderings), one decrement "
             "per processed chunk, one sentinel per worker + join of every worker before manager shutdown.",
        level_note=STATIC_BASE + "behaviour with join_timeout is excluded by the property; delivery of one sentinel per "
                   "worker by multiprocessing is trusted.",
        technique="static analysis: dominators/try-finally structure, typestate, ordering abstraction of guards"),
    "C05": dict(
        design_ref="DESIGN.md §6 C05",
        text="Sibling instantiation of the C01 templates on FunctorMap and mul_p_map: tag pass-through in both workers, "
             "put/counter accounting, every blocking get owed (finished < sent) and every non-blocking get under a "
             "queue.Empty handler, mul_p_map returns the values sorted by their index component, one sentinel per worker "
             "after the last work put and every worker joined, buffer and counters local to the call, chunking idiom, "
             "input consumed once by iteration.",
        level_note=STATIC_BASE + "reorder correctness inside Buffer is C01.R7/C15; OS queue semantics trusted.",
        technique="static analysis: value-flow, owed-wait and accounting rules over the ast"),
    "C06": dict(
        design_ref="DESIGN.md §6 C06",
        text="Exact for coherence/guard clauses, lint for recency: no iterator invalidation (lazy __iter__ over a list "
             "that __getitem__ relinks while inherited views iterate-and-look-up, read off the parsed _collections_abc "
             "source), dict/list coherence on every path of the mutators, capacity guard by ordering abstraction, victim "
             "end opposite the use end, value stored on every path. Also: look-ups take the node from the dict on every path; derived state (any field besides dict/list that is written outside the constructor and read) is refreshed on every mutating path of every public operation.",
        level_note=STATIC_BASE + "recency order over whole histories follows only together with the list's own "
                   "correctness (C08); not re-proved here.",
        technique="static analysis: effect summaries over the call graph, path effect counting, ordering abstraction"),
    "C07": dict(
        design_ref="DESIGN.md §6 C07",
        text="Value stored on every path of __setitem__ (sibling cross-check against LRUCache), no iterator invalidation, "
             "dict/list coherence and capacity guard, count discipline (every use path increments exactly once, insertion "
             "sets count 1 at the victim end), shape of the increment helper (strict < scan, identity test). Also: look-ups take the node from the dict on every path; derived state is refreshed on every mutating path of every public operation.",
        level_note=STATIC_BASE + "global count-sortedness over arbitrary histories is value-level induction and not decided.",
        technique="static analysis: value-flow on all paths, effect summaries, path effect counting"),
    "C08": dict(
        design_ref="DESIGN.md §6 C08",
        text="Size follows links (node lifecycle typestate: attach/detach effects balance the size counter on every path "
             "of every mutator), identity-not-equality on nodes while the node class has a generated value __eq__, "
             "empty-list guards of pop_back/pop_front, and a shape analysis of the pointer surgery of the mutators over a "
             "finite abstract list domain. Also: one-shot inputs traversed once; node provenance (no node reached from another parameter is linked in).",
        level_note=STATIC_BASE + "see DESIGN.md for which link-consistency clauses the shape domain decides.",
        technique="static analysis: typestate/effect counting, type-based comparison lint, shape abstraction"),
    "C09": dict(
        design_ref="DESIGN.md §6 C09",
        text="Constructors accept empty input (may-be-empty flow with dominating emptiness tests), initial keys are "
             "de-duplicated (taint flow to the key storage, truth table of the adjacent-inequality guard, last-wins for the map), "
             "fixed-position accesses of the storage in every method are guarded (KeyError, not IndexError, on empty), "
             "unorderable probe reports absent "
             "(TypeError at the bisect site cannot escape the probing entry points), parallel arrays keys/values mutated "
             "together at the same index, index provenance from insertions_index of the same key, key validation. Also: one-shot inputs traversed once, derived state refreshed on every mutating path, the arrays are owned (never another object's field or a parameter), and arg_sort compares the keys themselves.",
        level_note=STATIC_BASE + "bisect_left on a sorted list is trusted (delegation), so sortedness itself is a "
                   "delegation argument.",
        technique="static analysis: may-be-empty and taint value-flow, exception-escape analysis, parallel-array coherence"),
    "C10": dict(
        design_ref="DESIGN.md §6 C10",
        text="Exact for the formulas: the four relation bodies are evaluated on all 75 weak orderings of their four "
             "operands and compared with their definitions; operator filters are compared by truth table over the "
             "membership atoms; comparison operators are expanded through resolved operator calls to formulas over "
             "A⊆B, B⊆A; argument roles at the three eq_relation call sites; existential-scan shape of __contains__ and "
             "keep-iff-no-match shape of the constructor; parallel arrays starts/ends. Also: one-shot inputs traversed once, derived state refreshed, and the constructor's scan sees the caller's order (no set()/sorted() on the way).",
        level_note=STATIC_BASE + "Python's all()/any()/chain() are trusted.",
        technique="static analysis: ordering abstraction and propositional abstraction of formulas extracted from the ast"),
    "C11": dict(
        design_ref="DESIGN.md §6 C11",
        text="One definition of 'line' (binary index vs text-mode reads: newline='\\n'), cursor typestate on all paths of "
             "every public entry point of the eight line-file classes (every read positioned by a seek since entry or the "
             "last yield), terminator removal strips exactly '\\n', selector dispatch by delegation to range/list "
             "semantics with unmodified indices, index construction shape. Also: derived state (remembered positions, cached lines) is refreshed on every path that installs or moves the handle.",
        level_note=STATIC_BASE + "byte-exact UTF-8 decoding and I/O buffering are stdlib behaviour and not decided.",
        technique="static analysis: typestate abstract interpretation with inlining along the MRO, value-flow"),
    "C12": dict(
        design_ref="DESIGN.md §6 C12",
        text="List semantics by delegation (mutators apply the corresponding list operation to _lines with the unmodified "
             "index), tagged-union discipline (stores into _lines dominated by isinstance(str) tests), dirty flag written "
             "by every mutator and initialised False/True as stated, save writes each line of the current view once with "
             "the chosen ending, source read-only (who-may-write), and the offset/content table the classes build themselves is a "
             "list (it must accept str entries and insertion). Also: derived state refreshed on every path that edits the table; the table is owned by the object (not a memoised helper's result).",
        level_note=STATIC_BASE + "equality with a list model over edit histories follows from delegation + list semantics "
                   "and is not re-proved.",
        technique="static analysis: delegation/value-flow rules, dominators, who-may-write query"),
    "C13": dict(
        design_ref="DESIGN.md §6 C13",
        text="Writer/reader agreement rules with the stdlib as trusted base: identical csv dialect keywords on both sides "
             "from the same class attribute, field tables derived from one filter, shared-buffer typestate "
             "(writerow, getvalue, truncate(0)+seek(0) before return), json.dumps without indent, record layer applies "
             "record_class.load to the raw line of the next class in the MRO. Also: the parsed row comes from csv.reader on every path; per-class caches are keyed by cls and no class method stores into an attribute of cls.",
        level_note=STATIC_BASE + "load(save(r)) == r for every string is csv/json correctness under equal dialects; trusted.",
        technique="static analysis: sibling agreement of call arguments, typestate on the shared buffer"),
    "C14": dict(
        design_ref="DESIGN.md §6 C14",
        text="Shared-state writes under the lock, write-flush-then-publish order in __setitem__ with the offset taken "
             "before the write, duplicate check dominating every effect, iteration over the identifier space rather than "
             "the count, reset agreement of flush(), counter discipline, reader guards and seek-before-read, append mode when a "
             "registered writer re-opens its file, and no closed handle left in a cache field on any path of close(). Also: derived state (process-local copies of index entries) refreshed on every mutating path; no per-instance state on the class.",
        level_note=STATIC_BASE + "cross-process visibility of Manager proxies/Value and file-system append atomicity trusted.",
        technique="static analysis: lock regions, must-precede ordering, value-flow, reset agreement"),
    "C15": dict(
        design_ref="DESIGN.md §6 C15",
        text="Partial: emit/advance typestate of Buffer.__iter__, PrintBuffer.print/flush (each emission followed by "
             "deletion of the emitted key and a cursor write before the next emission or exit), observers return the "
             "cursor/len, reset agreement of flush/clear on all paths, ring bounds guard by ordering abstraction, saturation "
             "guard of put, and writer/reader agreement of the ring slots (put advances the write offset by one modulo the "
             "capacity; item i is read from slot write-offset - size + i, compared as linear normal forms). A guarded "
             "alternative slot expression and the '+1' of the reorder cursor beyond 'advanced once per emission' are not decided.",
        level_note=STATIC_BASE,
        technique="static analysis: typestate abstract interpretation, ordering abstraction of guards, reset agreement"),
    "C16": dict(
        design_ref="DESIGN.md §6 C16",
        text="Partial: Overlaps relation exact for closed intervals (ordering abstraction), construction validity tests "
             "(start > end raises KeyError; span set built with the Overlaps relation and duplicate check on; length "
             "comparison raises KeyError), accepted closed-interval lookup idiom with both miss tests raising KeyError "
             "and index-aligned arrays, __contains__ defined by lookup. Correctness of the bisect algorithm for all "
             "interval sets is not decided. Also: the SpanSet constructor clause the disjointness test relies on (keep a span iff no kept span matches; argument roles).",
        level_note=STATIC_BASE + "bisect semantics trusted.",
        technique="static analysis: ordering abstraction, idiom and parallel-array rules"),
    "C17": dict(
        design_ref="DESIGN.md §6 C17",
        text="Partial (structural clauses only): sorted_combinations seeds one (key, singleton, index) heap entry per element; a "
             "popped combination with last index k is extended exactly by the elements at k+1..n-1 (slice start and child "
             "index compared as linear normal forms), the child is parent+(e,) pushed with key(child), so every combination "
             "has exactly one parent; every popped combination is yielded once; the queue is touched only through heapq and "
             "seed/push/pop agree on the entry layout; the stop and accept tests of min_combinations_in_interval_iter_sorted "
             "equal 'i_end <= score or (found and best < score)' and 'i_start <= score < i_end' on every weak ordering of "
             "(score, i_start, i_end, best), and the scan is fed by sorted_combinations(range(len(elements)), sum of scores, "
             "yield_key=True) and is the only producer of the returned list. That the yielded keys are non-decreasing (needs the caller's key to be monotone under extension "
             "and heapq to be correct) and the values themselves are not decided.",
        level_note=STATIC_BASE + "heapq semantics and monotonicity of the caller's key trusted.",
        technique="static analysis: linear normal forms over reaching definitions, layout agreement, ordering abstraction of guards"),
    "C18": dict(
        design_ref="DESIGN.md §6 C18",
        text="Exact for the clause: ownership typestate on all paths of every public entry point of the eight line-file "
             "classes and MapAccessFile (every seek/read of the shared handle preceded since entry or the last yield by "
             "the re-open helper), and the helper really re-opens (pid compared with os.getpid(), close+open, every open "
             "records the pid on the same path, every close clears it). Also: handles are opened from the constructor's path (never a duplicated descriptor) and the recorded owner identity is os.getpid().",
        level_note=STATIC_BASE + "descriptor inheritance by spawn/forkserver is outside the property's fork scope.",
        technique="static analysis: typestate abstract interpretation with inlining along the MRO"),
    "C19": dict(
        design_ref="DESIGN.md §6 C19",
        text="Six clauses: the BatcherIter accumulate-and-yield idiom (every element appended once, full batch yielded then "
             "replaced by a fresh container created by this call, non-empty remainder yielded, lock-step zip); agreement of the numeral tables of "
             "int_2_roman/roman_2_int (each numeral evaluates to its value under the reader's table; standard descending "
             "13-entry table); arg_sort by delegation to sorted(range(n), key=..., reverse=reverse); the window scans of "
             "sub_seq/search_sub_seq examine every offset; compare_pos_in_iterables uses a recognised multiset idiom (remove-loop "
             "over a list copy / Counter) and traverses each Iterable argument at most once on every path; Batcher.__len__ is a "
             "ceiling division of the current length of the data, __getitem__ raises IndexError exactly for item >= len and "
             "slices [item*bs : item*bs + bs] (linear normal forms). Inverse-ness on 1..3999 as such is value-level and not decided.",
        level_note=STATIC_BASE,
        technique="static analysis: idiom typestate, literal-table agreement, delegation and scan-shape rules"),
    "C20": dict(
        design_ref="DESIGN.md §6 C20",
        text="Exact decomposition of 'however the context is left': cleanup in __exit__ is unconditional and precedes "
             "anything that can fail, every acquisition is registered (created name appended and returned, handle closed; "
             "one handle per given path), cleanup covers the registry (each path removed tolerating FileNotFoundError, "
             "registry replaced by the right kind; __enter__ may replace the registry only by a manager list seeded with the "
             "registered paths and only for a multi_proc pool; remove deletes before it unregisters; FilePool.close closes "
             "every handle). Also: close() reaches the closing loop on every path; no per-instance state on the class.",
        level_note=STATIC_BASE + "os.remove/close raising midway and distinctness of tempfile names not decided.",
        technique="static analysis: all-paths typestate on __exit__, value-flow of acquisitions, registry coverage"),
}


# Clauses added by the shared analyses of the later seeding rounds (sa/rules/oneshot.py, memo.py, ownership.py) and by the
# false-alarm campaign; appended to the claim text of the properties whose rule sets contain them.
_DERIVED = (" Also decided on all paths of every public operation: derived state (any field other than the primary state that is "
            "written outside the constructor or built from primary state, and read) is re-assigned or cleared on every path that "
            "mutates the primary state.")
_NOCLASS = " State lives on the instance: no mutable class-level attribute is mutated through self or the class."
_ONESHOT = " One-shot inputs (parameters annotated Iterable/Iterator/Generator) are traversed at most once on every path."
EXTRA = {
    "C01": _NOCLASS + " The feeder leaves its send loop only under the stop event.",
    "C02": " The helper threads' context covers the whole iteration of both factory consumers; the bound the constructor stores is "
           "the one the guards compare with.",
    "C05": _NOCLASS + " The consumer loops have no exit other than the completion test.",
    "C06": _NOCLASS + " Look-ups consult the dictionary on every path.",
    "C07": _NOCLASS + " Look-ups consult the dictionary on every path.",
    "C08": _DERIVED + _NOCLASS + " A value stored into an end field or a link is a node (constructed, parameter, or read from a link).",
    "C09": _NOCLASS + " The structures own the arrays they mutate (constructor arguments are copied or documented as adopted); "
           "operations on an empty structure raise KeyError/IndexError rather than returning.",
    "C10": _NOCLASS + " The constructor offers every span to its de-duplicating scan in input order.",
    "C11": "",
    "C12": " The pending-changes table is a list owned by the object.",
    "C13": " What the record classes cache about a class is keyed by that class.",
    "C14": _NOCLASS + " No closed handle stays cached; a writer that re-opens its file appends.",
    "C15": _DERIVED + _NOCLASS,
    "C16": _DERIVED + _NOCLASS + " Membership and construction use the same relation.",
    "C18": " A local alias of the handle taken before the re-open check and used after it is reported.",
    "C19": " compare_pos_in_iterables compares multisets on a private copy; window scans examine every offset; "
           "Batcher.__len__ is the ceiling of n / batch_size.",
    "C20": _NOCLASS,
}
# clauses added after seeding round 5 (DESIGN.md section 11, round 5)
_MIXIN = (" Derived operations are inherited from collections.abc unless the override is in the confirmed table (a new override that "
          "walks its iterable argument twice is a violation, any other is reported as not analysed); __iter__ hands out a fresh iterator.")
_DEFAULTS = " No parameter with a mutable / stateful default object is stored into a field; class-level containers are assigned by the constructor on every path."
EXTRA5 = {
    "C01": _DEFAULTS + " The feeder thread (whose constructor resets per-call state) is built inside the generator body.",
    "C02": " The feeder thread is built inside the generator body; the feeder's publication order and send accounting (C01.R2/R3) hold."
           " The pool's __exit__ never waits without bound for room in a bounded work queue for stop orders nobody is left to read.",
    "C03": " Only the replace thread's run() takes items from the replace queue; the feeder's publication order and send accounting hold.",
    "C04": " stop() waits for the replace thread without a timeout.",
    "C05": _DEFAULTS + " range(workers) sentinels are sent only when `workers` processes were started unconditionally."
           " The results queues are unbounded multiprocessing queues (a worker's put of a result never waits for the producer).",
    "C06": _MIXIN + _DEFAULTS + " No stored value is used as a truth value; every capacity >= 1 is accepted; a failed delete / look-up changes nothing.",
    "C07": _MIXIN + _DEFAULTS + " No stored value is used as a truth value; every capacity >= 1 is accepted; a failed delete / look-up changes "
           "nothing; a membership test on the cache itself counts as the look-up it is.",
    "C08": " __iter__ hands out a fresh iterator.",
    "C09": _MIXIN + _DEFAULTS,
    "C10": _DEFAULTS + " No operator hands an operand out as its result.",
    "C11": _MIXIN + " Every call of the index builder is guarded by `is None` of the offsets; the index builder reads a binary handle and the "
           "index-file reader yields ints.",
    "C12": _MIXIN + " The offset index holds byte positions of a binary handle.",
    "C13": _MIXIN + " Record parsing is not memoised on a mutable result; the offset index holds byte positions of a binary handle.",
    "C15": _MIXIN + _DEFAULTS,
    "C16": " No exit of the constructor by-passes the validity / disjointness tests for a non-empty map; the map keeps no reference to the "
           "caller's dict; __iter__ hands out a fresh iterator.",
    "C17": " The element sequence is not re-ordered before the indices are drawn; a local holding None-or-score is not read as a truth "
           "value; results do not come from run-time module state keyed without all arguments or shared as one mutable object.",
    "C18": " Bound methods of the handle kept in locals count as accesses of the handle.",
    "C19": " Results of the helpers do not come from run-time module state written by another function; Batcher.__iter__ (if any) hands "
           "out a fresh iterator; BatcherIter does not traverse a one-shot input in its constructor.",
    "C20": _MIXIN + _DEFAULTS + " FilePool's constructor does not traverse the iterable of paths it keeps for open().",
}
for _pid, _extra in EXTRA5.items():
    EXTRA[_pid] = EXTRA.get(_pid, "") + _extra
# clauses added after seeding round 6 (DESIGN.md section 11, round 6)
_RAW = (" An entry that is still an offset is read through the raw line reader: exactly one trailing '\\n' removed, no slice of the mapping "
        "bounded by an unchecked find().")
EXTRA6 = {
    "C12": _RAW + " Every call of the writer from a function with a line_ending parameter passes that parameter on.",
    "C13": _RAW + " JsonRecord.load does not keep or drop a field by looking at its value.",
    "C14": " Every path through close() drops the cached read handles.",
    "C16": " The outcome of a look-up does not depend on a test of the stored value.",
    "C18": " The re-open test compares the recorded owner with os.getpid() (also when the owner is read into a local first).",
    "C19": " No guard clause in front of a window scan returns for lengths that have a window.",
}
for _pid, _extra in EXTRA6.items():
    EXTRA[_pid] = EXTRA.get(_pid, "") + _extra
for _pid, _extra in EXTRA.items():
    if _extra and _extra.strip() not in CLAIMS[_pid]["text"]:
        CLAIMS[_pid]["text"] = CLAIMS[_pid]["text"].rstrip() + _extra
