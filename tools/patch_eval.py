#!/venv/bin/python
"""Development helper: run every static check (in memory) on the tree with each given patch applied and print the verdicts
that are not PASS.   tools/patch_eval.py /tmp/wt/B1_C06_ref*.diff"""
import os, sys, pathlib
sys.path.insert(0, "/verif")
from concurrent.futures import ProcessPoolExecutor
from sa.thorough import apply_unified, _run_rules, StalePatch
from sa.model import repo_root

PROPS = [f"C{n:02d}" for n in range(1, 21) if os.path.exists(f"/verif/sa/rules/c{n:02d}.py")]


def one(args):
    path, prop = args
    root = repo_root()
    try:
        ov = apply_unified(pathlib.Path(path).read_text(), lambda rel: (root / rel).read_text())
        for rel, src in ov.items():
            compile(src, rel, "exec")
        v, msgs = _run_rules(prop, ov)
        return path, prop, v, msgs
    except StalePatch as e:
        return path, prop, "STALE", [str(e)]
    except BaseException as e:
        return path, prop, "ERROR", [f"{type(e).__name__}: {e}"]


if __name__ == "__main__":
    paths = sys.argv[1:]
    jobs = [(p, q) for p in paths for q in PROPS]
    bad = 0
    with ProcessPoolExecutor(max_workers=14) as ex:
        res = list(ex.map(one, jobs))
    by = {}
    for path, prop, v, msgs in res:
        by.setdefault(path, []).append((prop, v, msgs))
    for path in paths:
        non = [(p, v, m) for p, v, m in by[path] if v != "PASS"]
        print(f"{os.path.basename(path)}: " + ("all PASS" if not non else ""))
        for p, v, m in non:
            bad += 1
            print(f"    {p} {v}: {(m[0] if m else '')[:260]}")
    print(f"{len(paths)} patches, {bad} (patch, property) pairs not PASS")
