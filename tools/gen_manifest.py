#!/venv/bin/python
"""Regenerates /verif/MANIFEST.json from the table below (only properties whose rule module exists are claimed)."""
import json
import pathlib

VERIF = pathlib.Path(__file__).resolve().parent.parent

CLAIMS = {
    # id: (design_ref, text, level_note, technique)
}

NOT_APPLICABLE = {
}


def load_claims():
    import importlib.util
    spec = importlib.util.spec_from_file_location("claims", VERIF / "tools" / "claims.py")
    m = importlib.util.module_from_spec(spec)
    spec.loader.exec_module(m)
    return m.CLAIMS


def main():
    claims = load_claims()
    checks = []
    na = []
    for n in range(1, 21):
        pid = f"C{n:02d}"
        has_rules = (VERIF / "sa" / "rules" / f"{pid.lower()}.py").exists()
        if pid in claims and has_rules:
            c = claims[pid]
            checks.append({
                "property_id": pid,
                "quick_cmd": f"./check {pid} --tier quick",
                "thorough_cmd": f"./check {pid} --tier thorough",
                "evidence_file": f"/verif/evidence/{pid}.json",
                "replay_cmd_template": "./check --replay {path}",
                "engine": "sa",
                "level_claimed": {"category": "other", "text": c["text"], "design_ref": c["design_ref"]},
                "level_note": c["level_note"],
                "technique": c["technique"],
            })
        elif pid in NOT_APPLICABLE:
            na.append({"property_id": pid, "reason": NOT_APPLICABLE[pid]})
        else:
            na.append({"property_id": pid, "reason": "static rules for this property are not built yet (see DESIGN.md §6 "
                                                     "for the planned rules); not claimed until the check exists"})
    manifest = {
        "version": 1,
        "setup_cmd": "/venv/bin/python -m compileall -q sa >/dev/null 2>&1; true",
        "hooks": {
            "guard": "WINDPYUTILS_VERIF",
            "enable": "none needed: the checks parse /repo's working tree and never run it; no instrumentation exists",
            "baseline_off_cmd": "cd /repo && /venv/bin/python -m pytest -ra -q -p no:cacheprovider --timeout=900 "
                                "--continue-on-collection-errors",
            "source_commits": [],
            "add_only": True,
        },
        "engines": [{
            "name": "sa",
            "path": "/verif/sa",
            "serves_properties": [c["property_id"] for c in checks],
            "kind_free_text": "repository-specific static analyser over the Python ast (stdlib only): program model with "
                              "static C3 MRO and call resolution, structured abstract interpreter for typestate/path rules, "
                              "reaching definitions, ordering and propositional abstraction of comparison formulas",
        }],
        "checks": checks,
        "not_applicable": na,
        "notes": "All checks are static: they parse /repo's current working tree (ast) on every run and never import or "
                 "execute repository code. Exit 0 = every rule instance holds; exit 1 + VIOLATION line = an unlisted rule "
                 "violation (replay file names the construct); exit 2 + ANALYSIS-ERROR = the analyser cannot vouch for "
                 "the tree (vanished anchor, unrecognised shape). Known findings: /verif/KNOWN_FINDINGS.txt.",
    }
    (VERIF / "MANIFEST.json").write_text(json.dumps(manifest, indent=1) + "\n")
    print(f"claimed {len(checks)}, not applicable {len(na)}")


if __name__ == "__main__":
    main()
