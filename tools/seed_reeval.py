#!/venv/bin/python
"""Development helper: re-run every static check on every recorded seeded change (in memory) and refresh the
`static_checks` section of seeded/*/meta.json (the first evaluation is kept as `static_checks_first`)."""
import json, os, sys, pathlib
sys.path.insert(0, "/verif")
from concurrent.futures import ProcessPoolExecutor
from sa.thorough import apply_unified, _run_rules, StalePatch
from sa.model import repo_root

PROPS = [f"C{n:02d}" for n in range(1, 21) if os.path.exists(f"/verif/sa/rules/c{n:02d}.py")]


def one(args):
    d, prop = args
    root = repo_root()
    try:
        ov = apply_unified((d / "patch.diff").read_text(), lambda rel: (root / rel).read_text())
        v, msgs = _run_rules(prop, ov)
        return str(d), prop, v, msgs
    except StalePatch as e:
        return str(d), prop, "STALE", [str(e)]
    except BaseException as e:
        return str(d), prop, "ERROR", [f"{type(e).__name__}: {e}"]


if __name__ == "__main__":
    dirs = [d for d in sorted(pathlib.Path("/verif/seeded").iterdir()) if (d / "patch.diff").exists()]
    if len(sys.argv) > 1:
        dirs = [d for d in dirs if d.name in sys.argv[1:]]
    jobs = [(d, p) for d in dirs for p in PROPS]
    res = {}
    with ProcessPoolExecutor(max_workers=14) as ex:
        for d, prop, v, msgs in ex.map(one, jobs):
            res.setdefault(d, {})[prop] = (v, msgs)
    caught = 0
    for d in dirs:
        meta = json.loads((d / "meta.json").read_text())
        fired = {}
        for prop, (v, msgs) in res[str(d)].items():
            if v != "PASS":
                fired[prop] = {"exit": 1 if v == "VIOLATION" else 2, "verdict": v,
                               "rules": sorted({m.split()[1] for m in msgs if m.startswith("VIOLATION")}),
                               "first": msgs[0][:300] if msgs else ""}
        own = meta["breaks_property"]
        if "static_checks_first" not in meta:
            meta["static_checks_first"] = meta.get("static_checks", {})
        meta["static_checks"] = {"fired": fired, "caught_by_own_property": own in fired and fired[own]["exit"] == 1,
                                 "caught_by_any": any(f["exit"] == 1 for f in fired.values())}
        (d / "meta.json").write_text(json.dumps(meta, indent=1))
        ok = meta["static_checks"]["caught_by_own_property"]
        caught += ok
        print(f"{d.name}: own={ok} any={meta['static_checks']['caught_by_any']} "
              f"{ {p: (f['verdict'], f['rules']) for p, f in fired.items()} }")
    print(f"{caught}/{len(dirs)} caught by the check of the property they break")
