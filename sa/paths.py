"""Path summaries: what a function *does* along each of its paths, in terms of symbolic values (sa/symenv.py).

A rule that asks "is the created name appended to the registry, the handle closed and the name returned?" should not care
whether the name has a local of its own, whether the append sits in a helper, or whether the method starts with a guard
clause.  ``summaries`` runs E1 with the value-numbering client and returns one ``Path`` per abstract path:

    events     ('call', name, receiver term | None, argument terms, line)        a call that was not inlined
               ('setfield', field, term)        self.<field> = ...
               ('setattr', base term, attr, term) / ('setitem', base, index, term) / ('delitem', base, index) / ('delfield', f)
               ('iter', loop id, term of the loop target's value)                  one round of a loop starts
               ('loop', loop id, term of the iterated expression)                  a loop is reached
               ('handler', exception type) / ('raise', type) / ('yield', term) / ('with', term)
    decisions  (term, outcome) for every test whose outcome the rule did not fix through ``assume``
    exit       'return' | 'raise:<Type>'
    value      the returned term
    heap       field -> term for the fields of the receiver stored on the path (last store wins)

Loops are unrolled once (a path goes round a loop at most one time): the summaries are for recognising what a round does, the
claim "for every element" comes from the terms (`('elem', X, L)` is the element of X this round is about).
Nothing is executed; the functions are only parsed.
"""
from __future__ import annotations

import ast
from typing import Callable, Dict, List, Optional, Tuple

from .absint import Ctx, Interp
from .symenv import READ_ONLY_METHODS, SymClient, _site
from .util import assigned_value, ext_name


BUDGET = 60000


class PathBudget(Exception):
    pass


class Path:
    __slots__ = ("events", "decisions", "exit", "value", "heap")

    def __init__(self, events, decisions, exit_, value, heap):
        self.events, self.decisions, self.exit, self.value, self.heap = events, decisions, exit_, value, heap

    def calls(self, name: Optional[str] = None):
        return [e for e in self.events if e[0] == "call" and (name is None or e[1] == name)]

    def __repr__(self):
        return f"Path(exit={self.exit}, events={len(self.events)}, decisions={self.decisions})"


class _PathClient(SymClient):
    def __init__(self, prog, assume: Optional[Callable] = None, inline: Optional[Callable] = None, frozen=()):
        super().__init__()
        self.P, self.assume, self.inline_pred = prog, assume, inline
        self.frozen = set(frozen)
        self.steps = 0

    def should_inline(self, func, call, ctx):
        if func.cls is not None and func.cls.is_external:
            return False
        if func.name == "__init__":
            return False
        if self.inline_pred is not None:
            return bool(self.inline_pred(func, call, ctx))
        if isinstance(call, ast.Call) and isinstance(call.func, ast.Attribute) and call.func.attr in READ_ONLY_METHODS:
            return False                             # a read-only accessor (field tables and the like): a leaf call
        return True

    @staticmethod
    def _user(user):
        return user if user is not None else ((), (), ())

    def decide(self, term, node, env, user, ctx):
        ev, dec, rounds = self._user(user)
        if self.assume is not None:
            r = self.assume(term)
            if r is not None:
                st_ = self.pack(env, self._ver, (ev, dec + ((term, bool(r)),), rounds))
                return ((st_,), ()) if r else ((), (st_,))
        # a loop condition of a loop that already went round once: leave
        par = getattr(node, "_parent", None)
        while isinstance(par, (ast.BoolOp, ast.UnaryOp)):
            par = getattr(par, "_parent", None)
        t_ = (ev, dec + ((term, True),), rounds)
        f_ = (ev, dec + ((term, False),), rounds)
        ver = 0
        return ((self.pack(env, self._ver, t_),), (self.pack(env, self._ver, f_),))

    def refine(self, test, state, ctx):
        self._ver = state[1]
        return super().refine(test, state, ctx)

    def handler_entry(self, handler, trace_states, ctx):
        # an exception comes out of one of the calls of the try body: the handler is entered with that call on record, not
        # from the state in front of the first one (when the body made a call at all)
        def n_events(s_):
            return len((s_[2] or ((), (), ()))[0])
        if not trace_states:
            return trace_states
        lo = min(n_events(s_) for s_ in trace_states)
        later = {s_ for s_ in trace_states if n_events(s_) > lo}
        return later or trace_states

    @staticmethod
    def resolve_ifexp(term, dec: dict):
        """conditional expressions whose test was decided on this path read as the chosen arm"""
        if not isinstance(term, tuple):
            return term
        if term and term[0] == "ifexp":
            c = term[1]
            neg = False
            while isinstance(c, tuple) and c and c[0] == "not":
                c, neg = c[1], not neg
            if c in dec:
                return _PathClient.resolve_ifexp(term[2] if dec[c] != neg else term[3], dec)
        return tuple(_PathClient.resolve_ifexp(x, dec) for x in term)

    def on(self, kind, node, env, ver, user, ctx):
        ev, dec, rounds = self._user(user)
        self.steps += 1
        if self.steps > BUDGET:
            raise PathBudget()
        add = None
        if kind in ("call", "construct", "proto_call") and isinstance(node, ast.Call):
            f = node.func
            nm = ext_name(self.P, ctx.func, node)
            recv = None
            if isinstance(f, ast.Attribute) and (nm is None or not nm.split(".")[0] in ctx.func.mod.imports):
                recv = self.sym(f.value, env, ver, ctx)
                nm = f.attr
            elif isinstance(f, ast.Name) and isinstance(env.get((self.depth(ctx), f.id)), tuple) \
                    and env[(self.depth(ctx), f.id)][0] == "attr":
                # a bound method held in a local / parameter (`add = self.append; add(x)`): the call of that method
                t_ = env[(self.depth(ctx), f.id)]
                nm, recv = t_[2], t_[1]
            elif nm is None:
                nm = ast.unparse(f) if isinstance(f, (ast.Name, ast.Attribute)) else "?"
            args = tuple(self.sym(a.value if isinstance(a, ast.Starred) else a, env, ver, ctx) for a in node.args) \
                + tuple((k.arg, self.sym(k.value, env, ver, ctx)) for k in node.keywords)
            add = ("call", nm, recv, args, getattr(node, "lineno", 0))
        elif kind == "store" and isinstance(node, ast.Attribute):
            v = assigned_value(node)
            base = self.sym(node.value, env, ver, ctx)
            # the strong update was made by the base class already; the value term is what it recorded
            if base == ("self",):
                t = self.resolve_ifexp(env.get(("h", node.attr)), dict(dec))
                env[("h", node.attr)] = t
                add = ("setfield", node.attr, t)
            else:
                add = ("setattr", base, node.attr, self.sym(v, env, ver, ctx) if v is not None else None)
        elif kind == "store" and isinstance(node, ast.Subscript):
            v = assigned_value(node)
            add = ("setitem", self.sym(node.value, env, ver, ctx), self.sym(node.slice, env, ver, ctx),
                   self.sym(v, env, ver, ctx) if v is not None else None)
        elif kind == "store" and isinstance(node, (ast.Name, ast.Tuple, ast.List)):
            p = getattr(node, "_parent", None)
            first_name = node
            if isinstance(node, (ast.Tuple, ast.List)):
                names_ = [n for n in ast.walk(node) if isinstance(n, ast.Name)]
                first_name = names_[0] if names_ else None
            else:
                # the names of a tuple target arrive one by one (for loops): the round is counted at the first of them
                top = node
                while isinstance(p, (ast.Tuple, ast.List)):
                    top, p = p, getattr(p, "_parent", None)
                firsts = [n for n in ast.walk(top) if isinstance(n, ast.Name)]
                if firsts and firsts[0] is not node:
                    p = None
            while isinstance(p, (ast.Tuple, ast.List)):
                p = getattr(p, "_parent", None)
            if isinstance(p, (ast.For, ast.comprehension)) and first_name is not None:
                node = first_name
                lid = p.lineno if isinstance(p, ast.For) else ("comp",) + _site(p.iter)
                n_round = dict(rounds).get(lid, 0)
                if n_round >= 1:
                    return []                        # second round of the same loop: not followed
                rounds = tuple(sorted({**dict(rounds), lid: n_round + 1}.items(), key=repr))
                add = ("iter", lid, env.get((self.depth(ctx), node.id)))
        elif kind == "aug" and isinstance(node.target, ast.Attribute):
            base = self.sym(node.target.value, env, ver, ctx)
            if base == ("self",):
                add = ("setfield", node.target.attr, env.get(("h", node.target.attr)))
        elif kind == "del":
            if isinstance(node, ast.Subscript):
                add = ("delitem", self.sym(node.value, env, ver, ctx), self.sym(node.slice, env, ver, ctx))
            elif isinstance(node, ast.Attribute) and self.sym(node.value, env, ver, ctx) == ("self",):
                add = ("delfield", node.attr)
        elif kind == "iter":
            add = ("loop", getattr(getattr(node, "_parent", None), "lineno", 0), self.sym(node, env, ver, ctx))
        elif kind == "loophead" and isinstance(node, ast.While):
            lid = node.lineno
            n_round = dict(rounds).get(lid, 0)
            if n_round >= 2:
                return []
            rounds = tuple(sorted({**dict(rounds), lid: n_round + 1}.items(), key=repr))
            add = ("while", lid)
        elif kind == "handler":
            add = ("handler", ast.unparse(node.type).split(".")[-1] if node.type is not None else "BaseException")
        elif kind == "raise":
            x = node.exc.func if isinstance(node.exc, ast.Call) else node.exc
            add = ("raise", ast.unparse(x).split(".")[-1] if x is not None else "re-raise")
        elif kind == "yield":
            if isinstance(node, ast.YieldFrom):
                # `yield from <iterable>`: the engine keeps yielding until nothing changes; one round says it all
                lid = ("yf",) + _site(node)
                n_round = dict(rounds).get(lid, 0)
                if n_round >= 1:
                    return []
                rounds = tuple(sorted({**dict(rounds), lid: n_round + 1}.items(), key=repr))
            add = ("yield", self.sym(getattr(node, "value", None), env, ver, ctx))
        elif kind == "with_enter":
            add = ("with", self.sym(node.context_expr, env, ver, ctx))
        if add is None and rounds == self._user(user)[2]:
            return None
        return [(env, ver, (ev + ((add,) if add is not None else ()), dec, rounds))]


def summaries(prog, func, cls, assume: Optional[Callable] = None, inline: Optional[Callable] = None, frozen=()) -> Tuple[List[Path], List[str]]:
    """(paths, unrecognised) of ``func`` run as a method of ``cls``; ``assume(term)`` may fix the outcome of a test"""
    cl = _PathClient(prog, assume, inline, frozen)
    it = Interp(prog, cl)
    try:
        ex = it.run(func, {cl.init(((), (), ()))}, cls)
    except PathBudget:
        return [], [f"{func.short}: more paths than the summary budget allows ({BUDGET} events)"]
    if len(ex.ret) + len(ex.normal) + len(ex.exc) > 3000:
        return [], [f"{func.short}: more than 3000 path ends"]
    out: List[Path] = []
    seen = set()

    def mk(state, exit_):
        env = dict(state[0])
        ev, dec, _ = state[2] if state[2] is not None else ((), (), ())
        heap = {k[1]: v for k, v in env.items() if k[0] == "h"}
        key = (ev, dec, exit_, env.get(("$ret", 1)), tuple(sorted(heap.items(), key=repr)))
        if key in seen:
            return
        seen.add(key)
        out.append(Path(ev, dec, exit_, env.get(("$ret", 1), ("c", None)), heap))
    for s in ex.ret | ex.normal:
        mk(s, "return")
    for s, nm in ex.exc:
        if nm is None:
            # an exception that travelled through a `with` / `finally`: its type is the one of the last raise on the path
            ev_ = (s[2] or ((), (), ()))[0]
            last = [e for e in ev_ if e[0] == "raise"]
            nm = last[-1][1] if last else None
        mk(s, f"raise:{nm}")
    return out, list(it.unrecognised)


def subterms(t):
    if isinstance(t, tuple) and t:
        yield t
        for x in t:
            if isinstance(x, tuple):
                yield from subterms(x)


def show(t, depth=0) -> str:
    """a term as (approximate) source text, for messages"""
    if not isinstance(t, tuple) or not t:
        return repr(t)
    k = t[0]
    if k == "c":
        return repr(t[1])
    if k == "self":
        return "self"
    if k == "p":
        return t[1]
    if k == "attr":
        return f"{show(t[1])}.{t[2]}"
    if k == "sub":
        return f"{show(t[1])}[{show(t[2])}]"
    if k in ("tuple", "list"):
        inner = ", ".join(show(x) for x in t[1:])
        return f"({inner})" if k == "tuple" else f"[{inner}]"
    if k == "elem":
        return f"<element of {show(t[1])}>"
    if k == "idx":
        return "<position>"
    if k == "call":
        return f"{t[1]}({', '.join(show(a) if not (isinstance(a, tuple) and len(a) == 2 and isinstance(a[0], str) and a[0] not in ('c', 'p')) else a[0] + '=' + show(a[1]) for a in t[2])})"
    if k == "mcall":
        return f"{show(t[2])}.{t[1]}({', '.join(show(a) for a in t[3])})"
    if k == "eff":
        recv = f"{show(t[2])}." if t[2] is not None else ""
        return f"{recv}{t[1]}(..)"
    if k == "cmp":
        return f"{show(t[2])} {t[1]} {show(t[3])}"
    if k == "not":
        return f"not {show(t[1])}"
    if k == "bin":
        return f"({show(t[2])} {t[1]} {show(t[3])})"
    if k == "comp" and len(t) >= 4 and isinstance(t[3], tuple):
        return f"<{t[1]} comprehension over {show(t[3])}>"
    if k == "lv":
        return t[1]
    if k == "free":
        return t[1]
    return f"<{k}>"


def elementwise(t):
    """the element at one (symbolic) position of a sequence term, with `('at', X)` for the element of a base sequence X:
    comprehensions, zip, enumerate, list/tuple copies and dict(zip(..)) are looked through, so that
        {k: f(v) for k, v in zip(K, V)}      dict(zip(K, [f(v) for v in V]))      dict(zip(K, map(f, V)))
    all read  (('at', K), ('apply', f, (('at', V),)))  -- a pair for mappings.  None when the term is not understood."""
    def subst(x, lid):
        if not isinstance(x, tuple) or not x:
            return x
        if x[0] == "elem" and len(x) == 3 and x[2] == lid:
            inner = at(x[1])
            return inner if inner is not None else ("at", x[1])
        if x[0] == "idx" and len(x) == 2 and x[1] == lid:
            return ("pos",)
        return tuple(subst(y, lid) for y in x)

    def at(x):
        if not isinstance(x, tuple) or not x:
            return None
        if x[0] == "comp" and len(x) == 6:
            kind, elts, it, conds, lid = x[1], x[2], x[3], x[4], x[5]
            if conds:
                return None
            vals = tuple(subst(e, lid) for e in elts)
            return ("tuple",) + vals if kind == "dict" else vals[0]
        if x[0] == "call" and x[1] in ("list", "tuple", "iter") and len(x[2]) == 1:
            return at(x[2][0]) or ("at", x[2][0])
        if x[0] == "call" and x[1] == "zip":
            return ("tuple",) + tuple(at(a) or ("at", a) for a in x[2])
        if x[0] == "call" and x[1] == "enumerate" and len(x[2]) == 1:
            return ("tuple", ("pos",), at(x[2][0]) or ("at", x[2][0]))
        if x[0] == "call" and x[1] == "map" and len(x[2]) >= 2:
            return ("apply", x[2][0], tuple(at(a) or ("at", a) for a in x[2][1:]))
        if x[0] == "call" and x[1] == "dict" and len(x[2]) == 1:
            return at(x[2][0])
        if x[0] in ("attr", "mcall", "eff", "p", "sub", "free", "lv"):
            return ("at", x)
        return None
    return at(t)


def strip_versions(t):
    """the term without heap-version stamps and call sites (for comparisons where no write can lie in between)"""
    if not isinstance(t, tuple) or not t:
        return t
    k = t[0]
    if k == "attr":
        return ("attr", strip_versions(t[1]), t[2])
    if k == "sub":
        return ("sub", strip_versions(t[1]), strip_versions(t[2]))
    if k == "call":
        return ("call", t[1], tuple(strip_versions(a) for a in t[2]))
    if k == "mcall":
        return ("mcall", t[1], strip_versions(t[2]), tuple(strip_versions(a) for a in t[3]))
    if k == "eff":
        return ("eff", t[1], strip_versions(t[2]), tuple(strip_versions(a) for a in t[3]))
    if k == "lv":
        return ("lv", t[1])
    return tuple(strip_versions(x) for x in t)
