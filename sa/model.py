"""Program model: loader, symbols, classes, static C3 linearisation, method resolution, field types.

The model is rebuilt from the working tree on every run (``Program(root)``).  ``overlay`` lets the
self-check build a variant of the program in memory (relpath -> source text) without touching disk.
"""
from __future__ import annotations

import ast
import hashlib
import os
import pathlib
from typing import Dict, List, Optional, Tuple, Union

PKG = "windpyutils"

# typing / collections.abc names -> class names inside the parsed _collections_abc module
ABC_ALIASES = {
    "MutableMapping": "MutableMapping", "Mapping": "Mapping", "MutableSet": "MutableSet",
    "MutableSequence": "MutableSequence", "Sequence": "Sequence", "Iterable": "Iterable",
    "Iterator": "Iterator", "Generator": "Generator", "Collection": "Collection", "Sized": "Sized",
    "Container": "Container", "Reversible": "Reversible", "Set": "Set", "AbstractSet": "Set",
    "KeysView": "KeysView", "ValuesView": "ValuesView", "ItemsView": "ItemsView", "MappingView": "MappingView",
}
# ``typing.Set`` is the builtin set, ``collections.abc.Set`` is the ABC.  span_set.py imports typing.Set.
TYPING_BUILTIN = {"Set": "set", "List": "list", "Dict": "dict", "Tuple": "tuple", "FrozenSet": "frozenset"}


class AnalysisError(Exception):
    """The analyser cannot vouch for the tree (parse failure, vanished anchor, unrecognised shape)."""


def repo_root() -> pathlib.Path:
    return pathlib.Path(os.environ.get("VERIF_REPO", "/repo"))


class Module:
    def __init__(self, name: str, relpath: str, source: str):
        self.name, self.relpath, self.source = name, relpath, source
        try:
            self.tree = ast.parse(source, filename=relpath)
        except SyntaxError as e:  # a unit that does not parse is never skipped silently
            raise AnalysisError(f"cannot parse {relpath}: {e}")
        from .normalise import normalise
        self.tree = normalise(self.tree)
        set_parents(self.tree)
        self.imports: Dict[str, Tuple[str, Optional[str]]] = {}
        for n in ast.walk(self.tree):
            if isinstance(n, ast.ImportFrom) and n.module:
                for a in n.names:
                    self.imports[a.asname or a.name] = (n.module, a.name)
            elif isinstance(n, ast.Import):
                for a in n.names:
                    self.imports[a.asname or a.name.split(".")[0]] = (a.name if a.asname else a.name.split(".")[0], None)


def set_parents(tree: ast.AST):
    for n in ast.walk(tree):
        for ch in ast.iter_child_nodes(n):
            ch._parent = n  # type: ignore[attr-defined]


def parent(n):
    return getattr(n, "_parent", None)


def enclosing(n, kinds):
    p = parent(n)
    while p is not None and not isinstance(p, kinds):
        p = parent(p)
    return p


def decorator_names(fn) -> List[str]:
    out = []
    for d in fn.decorator_list:
        if isinstance(d, ast.Call):
            d = d.func
        out.append(ast.unparse(d))
    return out


class Func:
    """A function or method of the analysed program."""

    def __init__(self, node, qual: str, mod: Module, cls: Optional["Cls"], outer: Optional["Func"] = None):
        self.node, self.qual, self.mod, self.cls, self.outer = node, qual, mod, cls, outer
        self.name = node.name
        self.relpath = mod.relpath
        decs = decorator_names(node)
        self.is_static = "staticmethod" in decs
        self.is_classmethod = "classmethod" in decs
        self.is_property = "property" in decs
        self.is_abstract = any(d.endswith("abstractmethod") for d in decs)
        self.decorators = decs
        self.nested: Dict[str, Func] = {}

    @property
    def params(self) -> List[str]:
        a = self.node.args
        return [x.arg for x in a.posonlyargs + a.args]

    @property
    def self_name(self) -> Optional[str]:
        if self.cls is None or self.is_static:
            return None
        p = self.params
        return p[0] if p else None

    @property
    def is_generator(self) -> bool:
        return any(isinstance(n, (ast.Yield, ast.YieldFrom)) for n in walk_own(self.node))

    @property
    def short(self) -> str:
        """construct name without the module prefix, e.g. ``FunctorPool.SendWorkThread.run``"""
        return self.qual[len(self.mod.name) + 1:]

    def __repr__(self):
        return f"<Func {self.qual}>"


def walk_own(fn_node):
    """walk the body of a function without descending into nested function/class definitions"""
    stack = list(fn_node.body) if hasattr(fn_node, "body") and isinstance(fn_node.body, list) else [fn_node.body]
    while stack:
        n = stack.pop()
        yield n
        for ch in ast.iter_child_nodes(n):
            if isinstance(ch, (ast.FunctionDef, ast.AsyncFunctionDef, ast.ClassDef, ast.Lambda)):
                continue
            stack.append(ch)


class Cls:
    def __init__(self, node: ast.ClassDef, qual: str, mod: Module, outer: Optional["Cls"]):
        self.node, self.qual, self.mod, self.outer = node, qual, mod, outer
        self.name = node.name
        self.relpath = mod.relpath
        self.methods: Dict[str, Func] = {}
        self.nested: Dict[str, Cls] = {}
        self.class_attrs: Dict[str, ast.expr] = {}
        self.bases: List[Union[Cls, str]] = []
        self.mro: Optional[List[Union[Cls, str]]] = None
        self.decorators = decorator_names(node)
        self.decorator_nodes = list(node.decorator_list)
        for st in node.body:
            if isinstance(st, ast.Assign):
                for t in st.targets:
                    if isinstance(t, ast.Name):
                        self.class_attrs[t.id] = st.value
            elif isinstance(st, ast.AnnAssign) and isinstance(st.target, ast.Name) and st.value is not None:
                self.class_attrs[st.target.id] = st.value

    @property
    def short(self) -> str:
        return self.qual[len(self.mod.name) + 1:]

    @property
    def is_external(self) -> bool:
        return self.mod.name == "_collections_abc"

    def repo_mro(self) -> List["Cls"]:
        return [k for k in (self.mro or []) if isinstance(k, Cls)]

    def is_subclass_of(self, other: "Cls") -> bool:
        return other in (self.mro or [])

    def __repr__(self):
        return f"<Cls {self.qual}>"


class Program:
    def __init__(self, root: Optional[Union[str, pathlib.Path]] = None, overlay: Optional[Dict[str, str]] = None):
        self.root = pathlib.Path(root) if root is not None else repo_root()
        self.modules: Dict[str, Module] = {}
        self.classes: Dict[str, Cls] = {}
        self.functions: Dict[str, Func] = {}
        self.units: List[str] = []
        overlay = overlay or {}
        pkg = self.root / PKG
        if not pkg.is_dir():
            raise AnalysisError(f"package directory {pkg} not found")
        h = hashlib.sha256()
        # package-wide fact needed by the normalisation (N20): which attribute names are ever re-bound outside a constructor
        from . import normalise as _norm
        raw = []
        for p in sorted(pkg.rglob("*.py")):
            rel = str(p.relative_to(self.root))
            src = overlay.get(rel)
            if src is None:
                src = p.read_text(encoding="utf-8")
            try:
                raw.append(ast.parse(src, filename=rel))
            except SyntaxError as e:
                raise AnalysisError(f"cannot parse {rel}: {e}")
        _norm.REBOUND_ATTRS = _norm.collect_rebound_attrs(raw)
        _norm.NEVER_PASSED = _norm.collect_never_passed(raw)
        _norm.CLASS_CONSTS = _norm.collect_class_consts(raw)
        _norm._REBOUND_KNOWN = True
        for p in sorted(pkg.rglob("*.py")):
            rel = str(p.relative_to(self.root))
            src = overlay.get(rel)
            if src is None:
                src = p.read_text(encoding="utf-8")
            parts = list(p.relative_to(self.root).with_suffix("").parts)
            if parts[-1] == "__init__":
                parts = parts[:-1]
            name = ".".join(parts)
            self.modules[name] = Module(name, rel, src)
            self.units.append(rel)
            h.update(rel.encode()); h.update(src.encode())
        import _collections_abc  # only to locate the *source file*; it is parsed, its objects are not used
        p = pathlib.Path(_collections_abc.__file__)
        self.modules["_collections_abc"] = Module("_collections_abc", "<stdlib>/_collections_abc.py",
                                                   p.read_text(encoding="utf-8"))
        self.units.append("<stdlib>/_collections_abc.py")
        self.digest = h.hexdigest()[:16]
        for m in self.modules.values():
            self._collect(m, m.tree.body, m.name, None, None)
        for c in self.classes.values():
            c.bases = [self._resolve_base(c, b) for b in c.node.bases]
        for c in self.classes.values():
            self._mro(c)
        self._field_cache: Dict[Tuple[str, str], object] = {}

    # ------------------------------------------------------------------ collection
    def _collect(self, mod: Module, body, prefix: str, outer_cls: Optional[Cls], outer_fn: Optional[Func]):
        for n in body:
            if isinstance(n, ast.ClassDef):
                c = Cls(n, f"{prefix}.{n.name}", mod, outer_cls)
                self.classes[c.qual] = c
                if outer_cls is not None:
                    outer_cls.nested[n.name] = c
                self._collect(mod, n.body, c.qual, c, None)
            elif isinstance(n, (ast.FunctionDef, ast.AsyncFunctionDef)):
                f = Func(n, f"{prefix}.{n.name}", mod, outer_cls if outer_fn is None else None, outer_fn)
                self.functions[f.qual] = f
                if outer_fn is not None:
                    outer_fn.nested[n.name] = f
                elif outer_cls is not None:
                    outer_cls.methods[n.name] = f
                # nested defs (e.g. ``chunking`` inside ``run``)
                self._collect_nested(mod, n, f)

    def _collect_nested(self, mod: Module, fn_node, owner: Func):
        stack = list(fn_node.body)
        while stack:
            n = stack.pop(0)
            if isinstance(n, (ast.FunctionDef, ast.AsyncFunctionDef)):
                f = Func(n, f"{owner.qual}.{n.name}", mod, None, owner)
                self.functions[f.qual] = f
                owner.nested[n.name] = f
                self._collect_nested(mod, n, f)
            elif isinstance(n, ast.ClassDef):
                continue
            else:
                for ch in ast.iter_child_nodes(n):
                    if isinstance(ch, ast.stmt):
                        stack.append(ch)
                    elif isinstance(ch, ast.ExceptHandler):
                        stack.extend(ch.body)

    # ------------------------------------------------------------------ name resolution
    def lookup_class(self, mod: Module, name: str, scope_qual: Optional[str] = None) -> Optional[Cls]:
        """class visible under ``name`` from module ``mod`` (optionally from inside class ``scope_qual``)"""
        if scope_qual:
            parts = scope_qual.split(".")
            for i in range(len(parts), 0, -1):
                q = ".".join(parts[:i]) + "." + name
                if q in self.classes:
                    return self.classes[q]
        q = f"{mod.name}.{name}"
        if q in self.classes:
            return self.classes[q]
        imp = mod.imports.get(name)
        if imp:
            m, n = imp
            if n is not None:
                if f"{m}.{n}" in self.classes:
                    return self.classes[f"{m}.{n}"]
                if m in ("collections.abc",) or (m == "typing" and n not in TYPING_BUILTIN):
                    tgt = ABC_ALIASES.get(n)
                    if tgt:
                        return self.classes.get(f"_collections_abc.{tgt}")
        return None

    def external_name(self, mod: Module, expr: ast.expr) -> Optional[str]:
        """dotted external name of ``expr`` after import resolution (``Manager`` -> ``multiprocessing.Manager``)"""
        parts = []
        e = expr
        while isinstance(e, ast.Attribute):
            parts.append(e.attr)
            e = e.value
        if not isinstance(e, ast.Name):
            return None
        imp = mod.imports.get(e.id)
        if imp is None:
            base = e.id
        else:
            base = imp[0] if imp[1] is None else f"{imp[0]}.{imp[1]}"
        return ".".join([base] + list(reversed(parts)))

    def _resolve_base(self, c: Cls, b: ast.expr) -> Union[Cls, str]:
        if isinstance(b, ast.Subscript):
            b = b.value
        if isinstance(b, ast.Attribute):
            dotted = ast.unparse(b)
            head, _, name = dotted.rpartition(".")
            imp = c.mod.imports.get(head.split(".")[0])
            full_head = head
            if imp and imp[1] is None:
                full_head = head
            if full_head in ("collections.abc", "typing"):
                if full_head == "typing" and name in TYPING_BUILTIN:
                    return TYPING_BUILTIN[name]
                tgt = ABC_ALIASES.get(name, name)
                return self.classes.get(f"_collections_abc.{tgt}", dotted)
            return dotted
        if not isinstance(b, ast.Name):
            return ast.unparse(b)
        k = self.lookup_class(c.mod, b.id, c.qual.rsplit(".", 1)[0])
        if k is not None and k is not c:
            return k
        imp = c.mod.imports.get(b.id)
        if imp:
            m, n = imp
            if m == "typing" and n in TYPING_BUILTIN:
                return TYPING_BUILTIN[n]
            return f"{m}.{n}" if n else m
        return b.id

    def _mro(self, c: Cls):
        if c.mro is not None:
            return c.mro
        seqs = []
        for b in c.bases:
            seqs.append(list(self._mro(b)) if isinstance(b, Cls) else [b])
        seqs.append(list(c.bases))
        res: List[Union[Cls, str]] = [c]
        seqs = [s for s in seqs if s]

        def same(a, b):
            return a is b or (isinstance(a, str) and isinstance(b, str) and a == b)

        while seqs:
            cand = None
            for s in seqs:
                h = s[0]
                if not any(any(same(h, x) for x in t[1:]) for t in seqs):
                    cand = h
                    break
            if cand is None:
                raise AnalysisError(f"inconsistent MRO for {c.qual}")
            res.append(cand)
            seqs = [[x for x in s[1:]] if same(s[0], cand) else s for s in seqs]
            seqs = [s for s in seqs if s]
        out = []
        for x in res:
            if not any(same(x, y) for y in out):
                out.append(x)
        c.mro = out
        return out

    # ------------------------------------------------------------------ queries
    def cls(self, short: str, module: Optional[str] = None) -> Cls:
        """class by short qualified name (``FunctorPool.SendWorkThread``), anchors vanish -> AnalysisError"""
        cands = [c for c in self.classes.values()
                 if c.short == short and not c.is_external and (module is None or c.mod.name == module)]
        if len(cands) != 1:
            raise AnalysisError(f"anchor class {short!r} {'not found' if not cands else 'ambiguous'}"
                                + (f" in {module}" if module else ""))
        return cands[0]

    def maybe_cls(self, short: str, module: Optional[str] = None) -> Optional[Cls]:
        try:
            return self.cls(short, module)
        except AnalysisError:
            return None

    def func(self, short: str, module: str) -> Func:
        q = f"{module}.{short}"
        if q not in self.functions:
            raise AnalysisError(f"anchor function {q!r} not found")
        return self.functions[q]

    def method(self, cls: Cls, name: str) -> Func:
        """own method of ``cls`` (anchor), read with the class's private helpers inlined (sa/inline.py): "extract method" is
        the commonest refactoring, and a rule that reads statements should see the statements wherever they were put.  The view
        is the method itself when there is nothing to inline.  ``method_raw`` gives the function as written."""
        if name not in cls.methods:
            raise AnalysisError(f"anchor method {cls.short}.{name} not found")
        from .inline import inline_view
        try:
            return inline_view(self, cls, cls.methods[name])
        except RecursionError:
            return cls.methods[name]

    def method_raw(self, cls: Cls, name: str) -> Func:
        if name not in cls.methods:
            raise AnalysisError(f"anchor method {cls.short}.{name} not found")
        return cls.methods[name]

    def method_view(self, cls: Cls, name: str) -> Func:
        """own method of ``cls`` with the class's private helpers inlined (see sa/inline.py): what the statement-level rules read"""
        from .inline import inline_view
        return inline_view(self, cls, self.method_raw(cls, name))

    def func_view(self, short: str, module: str) -> Func:
        """module-level function with the module's private helper functions inlined"""
        from .inline import inline_view
        return inline_view(self, None, self.func(short, module))

    def resolve_view(self, cls: Cls, name: str) -> Optional[Func]:
        from .inline import inline_view
        f = self.resolve(cls, name)
        return inline_view(self, cls, f) if f is not None else None

    def resolve(self, cls: Cls, name: str, after: Optional[Cls] = None) -> Optional[Func]:
        """method ``name`` as seen by an instance of concrete class ``cls`` (``after``: super() semantics)"""
        mro = cls.mro or [cls]
        start = 0
        if after is not None:
            for i, k in enumerate(mro):
                if k is after:
                    start = i + 1
                    break
        for k in mro[start:]:
            if isinstance(k, Cls) and name in k.methods:
                return k.methods[name]
        return None

    def class_attr(self, cls: Cls, name: str) -> Optional[ast.expr]:
        for k in cls.repo_mro():
            if name in k.class_attrs:
                return k.class_attrs[name]
        return None

    def subclasses(self, base: Cls, strict: bool = False) -> List[Cls]:
        return [c for c in self.classes.values() if base in (c.mro or []) and not (strict and c is base)]

    # ------------------------------------------------------------------ field types (flow-insensitive)
    def field_inits(self, cls: Cls, attr: str) -> List[Tuple[Func, ast.stmt, ast.expr]]:
        """all assignments ``self.<attr> = value`` in methods visible to ``cls`` (MRO order), with their function"""
        out = []
        for k in cls.repo_mro():
            for f in k.methods.values():
                sn = f.self_name
                if sn is None:
                    continue
                for n in walk_own(f.node):
                    tgts, val = [], None
                    if isinstance(n, ast.Assign):
                        tgts, val = n.targets, n.value
                    elif isinstance(n, ast.AnnAssign) and n.value is not None:
                        tgts, val = [n.target], n.value
                    for t in tgts:
                        if isinstance(t, ast.Attribute) and t.attr == attr and isinstance(t.value, ast.Name) \
                                and t.value.id == sn:
                            out.append((f, n, val))
        return out

    def field_type(self, cls: Cls, attr: str):
        """Cls, or a dotted external constructor name (e.g. ``multiprocessing.RLock``), or None"""
        key = (cls.qual, attr)
        if key in self._field_cache:
            return self._field_cache[key]
        res = None
        inits = [x for x in self.field_inits(cls, attr) if x[0].name in ("__init__", "__enter__", "open")]
        for f, st, val in inits:
            t = self.ctor_type(val, f)
            if t is not None:
                res = t
                break
        self._field_cache[key] = res
        return res

    def ctor_type(self, val: ast.expr, f: Func):
        """type produced by expression ``val`` inside function ``f`` when it is a constructor-like call"""
        if isinstance(val, ast.IfExp):
            return self.ctor_type(val.body, f) or self.ctor_type(val.orelse, f)
        if isinstance(val, ast.Dict) or isinstance(val, ast.DictComp):
            return "dict"
        if isinstance(val, (ast.List, ast.ListComp)):
            return "list"
        if isinstance(val, ast.Call):
            fn = val.func
            if isinstance(fn, ast.Name):
                scope = f.cls.qual if f.cls is not None else None
                k = self.lookup_class(f.mod, fn.id, scope)
                if k is not None:
                    return k
                return self.external_name(f.mod, fn)
            if isinstance(fn, ast.Attribute):
                # self.Nested(...) / module.Class(...) / obj.factory()
                if isinstance(fn.value, ast.Name) and f.self_name and fn.value.id == f.self_name and f.cls is not None:
                    for k in f.cls.repo_mro():
                        if fn.attr in k.nested:
                            return k.nested[fn.attr]
                ext = self.external_name(f.mod, fn)
                if ext is not None and isinstance(fn.value, ast.Name) and fn.value.id in f.mod.imports:
                    return ext
                return "?." + fn.attr
        return None
