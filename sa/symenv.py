"""Symbolic values of locals along the paths of the structured interpreter (E1): a value-numbering client base.

Statement matchers lose their anchor when a value is given a name, a run of statements moves into a helper, a condition is
split into guard clauses or a helper returns from several places.  Rules built on this base do not look at statements at all:
they run E1 over the entry point (helpers are inlined by the engine, with every return) and see *terms*:

    ('c', v)                      constant
    ('self',)                     the receiver of the entry point;  ('p', name)  another parameter of the entry point
    ('attr', base, name)          attribute read (stamped with the heap version when the attribute is ever re-bound)
    ('sub', base, index, ver)     subscript read
    ('call', fname, args, ver)    call of a function that only reads (len, bisect.*, isinstance, min, max, ...)
    ('tuple', t1, ..), ('bin', op, l, r), ('cmp', op, l, r), ('not', t), ('neg', t)
    ('lv', name, line)            a loop-carried local (havocked at the loop head), a loop target
    ('opq', line, col, ver)       anything else (one opaque value per site and heap version)

`env` maps (frame depth, local name) to a term; a helper's parameters are bound to the terms of its arguments, its return
value reaches the caller's expression through ('$ret', depth).  `ver` is a saturating counter of heap writes seen on the path
(stores through attributes / subscripts, calls that are neither inlined nor read-only): two reads of the same place on both
sides of a write are different terms.  The state handed to E1 is (frozenset(env items), ver, user) and hashable.

Subclasses implement
    decide(test_term, test_node, env, user, ctx)  -> True / False / None      (None: both branches are followed)
    on(kind, node, env, ver, user, ctx)           -> None (no change) | list of (env, ver, user) | RaiseExc
and read results off the exits: `returned(state)` is the term the entry point returned on that path.
"""
from __future__ import annotations

import ast
from typing import Dict, Iterable, List, Optional, Tuple

from . import normalise
from .absint import Client, Ctx, Interp, RaiseExc
from .util import assigned_value

VER_CAP = 6
READ_ONLY_FUNCS = {"len", "isinstance", "issubclass", "bool", "int", "float", "str", "type", "id", "min", "max", "abs", "tuple",
                   "range", "sorted", "list", "enumerate", "zip", "reversed", "sum", "all", "any", "iter", "callable", "hasattr",
                   "getattr", "repr", "frozenset", "set", "dict", "divmod", "round", "hash", "ord", "chr"}
READ_ONLY_MODFUNCS = {"bisect.bisect_left", "bisect.bisect_right", "bisect.bisect", "bisect_left", "bisect_right", "os.getpid",
                      "math.ceil", "math.floor", "math.isnan", "math.inf", "operator.itemgetter"}
READ_ONLY_METHODS = normalise.PURE_METHODS


def _site(n) -> Tuple[int, int]:
    return (getattr(n, "lineno", 0), getattr(n, "col_offset", 0))


class SymClient(Client):
    def __init__(self):
        self.root_params: List[str] = []
        self.loop_ranges: Dict = {}
        self.stored_fields: set = set()
        self.frozen: set = set()          # terms of containers that nothing mutates after construction: reads carry no version

    # ----------------------------------------------------------------- to override
    def decide(self, term, node, env: Dict, user, ctx: Ctx) -> Optional[bool]:
        return None

    def on(self, kind, node, env: Dict, ver: int, user, ctx: Ctx):
        return None

    def writes_heap(self, call: ast.Call, ctx: Ctx) -> bool:
        """a call that is not inlined: does it change the heap?  default: yes unless its name is in the read-only tables"""
        f = call.func
        if isinstance(f, ast.Name):
            import builtins
            b = getattr(builtins, f.id, None)
            if isinstance(b, type) and issubclass(b, BaseException):
                return False                               # constructing an exception object
            return f.id not in READ_ONLY_FUNCS and f.id not in READ_ONLY_MODFUNCS
        if isinstance(f, ast.Attribute):
            if ast.unparse(f) in READ_ONLY_MODFUNCS:
                return False
            if f.attr == "get":
                # dict.get(key[, default]) reads; Queue.get() / get(block, timeout) / get(timeout=..) takes an item out
                queue_like = not call.args or any(k.arg in ("block", "timeout") for k in call.keywords) or \
                    (isinstance(call.args[0], ast.Constant) and isinstance(call.args[0].value, bool))
                return queue_like
            return f.attr not in READ_ONLY_METHODS
        return True

    # ----------------------------------------------------------------- plumbing
    @staticmethod
    def init(user=None):
        return (frozenset(), 0, user)

    @staticmethod
    def pack(env: Dict, ver: int, user):
        return (frozenset(env.items()), ver, user)

    @staticmethod
    def returned(state):
        return dict(state[0]).get(("$ret", 1), ("c", None))

    def depth(self, ctx: Ctx) -> int:
        return len(ctx.interp.stack)

    def sym(self, e, env: Dict, ver: int, ctx: Ctx, depth: Optional[int] = None):
        d = self.depth(ctx) if depth is None else depth

        def lam(params, body):
            saved = {p_: env.get((d, p_)) for p_ in params}
            for k_, p_ in enumerate(params):
                env[(d, p_)] = ("arg", k_)
            try:
                return ("lambda", len(params), go(body))
            finally:
                for p_, v_ in saved.items():
                    if v_ is None:
                        env.pop((d, p_), None)
                    else:
                        env[(d, p_)] = v_

        def go(x):
            if x is None:
                return ("c", None)
            if isinstance(x, ast.Constant):
                try:
                    hash(x.value)
                    return ("c", x.value)
                except TypeError:
                    return ("opq",) + _site(x) + (ver,)
            if isinstance(x, ast.Name):
                t = env.get((d, x.id))
                if t is not None:
                    return t
                # a nested function that is one `return <expr>`: the same value as the lambda
                nf = getattr(ctx.func, "nested", {}).get(x.id) if ctx is not None else None
                if nf is not None:
                    body = [st for st in nf.node.body if not (isinstance(st, ast.Expr) and isinstance(st.value, ast.Constant))]
                    if len(body) == 1 and isinstance(body[0], ast.Return) and body[0].value is not None \
                            and not nf.node.args.vararg and not nf.node.args.kwarg:
                        return lam([a.arg for a in nf.node.args.posonlyargs + nf.node.args.args], body[0].value)
                return ("free", x.id)
            if isinstance(x, ast.Lambda) and not x.args.vararg and not x.args.kwarg:
                return lam([a.arg for a in x.args.posonlyargs + x.args.args], x.body)
            if isinstance(x, ast.Attribute):
                b = go(x.value)
                if b == ("self",) and ("h", x.attr) in env:
                    return env[("h", x.attr)]            # a field of the receiver stored earlier on this path
                if x.attr in normalise.REBOUND_ATTRS or "*" in normalise.REBOUND_ATTRS or not normalise._REBOUND_KNOWN:
                    # a field of the receiver changes by a store on this path (then it is in the heap map above) or inside a
                    # callee that was not followed; other objects' fields by any heap write
                    return ("attr", b, x.attr, env.get(("$havoc",), 0) if b == ("self",) else ver)
                return ("attr", b, x.attr)
            if isinstance(x, ast.Subscript):
                b, i = go(x.value), go(x.slice)
                if i[0] == "idx":
                    return ("elem", b, i[1])        # X[i] under `for i in range(len(X))` / enumerate: the element of this round
                return ("sub", b, i, 0 if b in self.frozen else ver)
            if isinstance(x, ast.Slice):
                return ("slice", go(x.lower), go(x.upper), go(x.step))
            if isinstance(x, (ast.Tuple, ast.List)) and not any(isinstance(el, ast.Starred) for el in x.elts):
                return ("tuple" if isinstance(x, ast.Tuple) else "list",) + tuple(go(el) for el in x.elts)
            if isinstance(x, ast.Dict) and all(k is not None for k in x.keys):
                return ("dict",) + tuple((go(k), go(v)) for k, v in zip(x.keys, x.values))
            if isinstance(x, (ast.ListComp, ast.SetComp, ast.GeneratorExp, ast.DictComp)) and len(x.generators) == 1 \
                    and not x.generators[0].is_async:
                g = x.generators[0]
                loop_id = ("comp",) + _site(x)
                saved = {}
                it_term = self.iteration_term(g.iter, loop_id, env, ver, ctx)
                names = []

                def bind(tgt, term):
                    if isinstance(tgt, ast.Name):
                        names.append(tgt.id)
                        saved.setdefault(tgt.id, env.get((d, tgt.id)))
                        env[(d, tgt.id)] = term
                    elif isinstance(tgt, (ast.Tuple, ast.List)):
                        for i, el in enumerate(tgt.elts):
                            bind(el, term[1 + i] if term[0] in ("tuple", "list") and len(term) - 1 == len(tgt.elts)
                                 else ("sub", term, ("c", i), ver))
                bind(g.target, it_term)
                try:
                    elts = (go(x.key), go(x.value)) if isinstance(x, ast.DictComp) else (go(x.elt),)
                    conds = tuple(go(c) for c in g.ifs)
                finally:
                    for nm in names:
                        if saved.get(nm) is None:
                            env.pop((d, nm), None)
                        else:
                            env[(d, nm)] = saved[nm]
                kind = {"ListComp": "list", "SetComp": "set", "GeneratorExp": "gen", "DictComp": "dict"}[type(x).__name__]
                return ("comp", kind, elts, go(g.iter), conds, loop_id)
            if isinstance(x, ast.UnaryOp) and isinstance(x.op, ast.USub) and isinstance(x.operand, ast.Constant) \
                    and isinstance(x.operand.value, (int, float)) and not isinstance(x.operand.value, bool):
                return ("c", -x.operand.value)
            if isinstance(x, ast.UnaryOp):
                return ("not" if isinstance(x.op, ast.Not) else type(x.op).__name__.lower(), go(x.operand))
            if isinstance(x, ast.BinOp):
                return ("bin", type(x.op).__name__, go(x.left), go(x.right))
            if isinstance(x, ast.BoolOp):
                return ("bool", type(x.op).__name__) + tuple(go(v) for v in x.values)
            if isinstance(x, ast.Compare) and len(x.ops) == 1:
                return ("cmp", type(x.ops[0]).__name__, go(x.left), go(x.comparators[0]))
            if isinstance(x, ast.IfExp):
                taken = env.get(("$ifexp", d) + _site(x))
                if taken is not None:
                    return go(x.body if taken else x.orelse)        # the arm this path went through
                return ("ifexp", go(x.test), go(x.body), go(x.orelse))
            if isinstance(x, ast.Call):
                r = env.get(("$retval", d) + _site(x))
                if r is not None:
                    return r
                if isinstance(x.func, ast.Name) and (d, x.func.id) in env and not any(isinstance(a, ast.Starred) for a in x.args):
                    # a callable held in a local (`t(v)` under `for t, v in zip(types, row)`): application of that value
                    return ("apply", env[(d, x.func.id)], tuple(go(a) for a in x.args) + tuple((k.arg, go(k.value)) for k in x.keywords))
                if isinstance(x.func, (ast.Subscript, ast.Call)) and not any(isinstance(a, ast.Starred) for a in x.args):
                    # a callable taken out of a container (`types[i](raw[i])`): application of that value
                    return ("apply", go(x.func), tuple(go(a) for a in x.args) + tuple((k.arg, go(k.value)) for k in x.keywords))
                fname = ast.unparse(x.func) if isinstance(x.func, (ast.Name, ast.Attribute)) else None
                if fname is not None and not any(isinstance(a, ast.Starred) for a in x.args) and not self._writes(x, ctx):
                    if isinstance(x.func, ast.Attribute) and fname not in READ_ONLY_MODFUNCS:
                        return ("mcall", x.func.attr, go(x.func.value), tuple(go(a) for a in x.args), ver)
                    args = tuple(go(a) for a in x.args) + tuple((k.arg, go(k.value)) for k in x.keywords)
                    heap_free = all(a in self.frozen or a[0] in ("c", "p", "call") for a in args)
                    return ("call", fname, args, 0 if heap_free else ver)
                if fname is not None and not any(isinstance(a, ast.Starred) for a in x.args):
                    # a call with effects: its result is a value of its own (per site and heap version), but it is known what made it
                    recv = go(x.func.value) if isinstance(x.func, ast.Attribute) else None
                    args = tuple(go(a) for a in x.args) + tuple((k.arg, go(k.value)) for k in x.keywords)
                    return ("eff", x.func.attr if isinstance(x.func, ast.Attribute) else fname, recv, args, _site(x), ver)
            return ("opq",) + _site(x) + (ver,)
        return go(e)

    def iteration_term(self, it: ast.expr, loop_id, env, ver, ctx):
        """the term a loop target receives in one iteration over ``it``: positions and elements are tied to the loop
        (`('idx', L)`, `('elem', X, L)`), so that `X[i]` under `for i in range(len(X))`, `x` under `for x in X`, and the
        components of zip / enumerate read the same"""
        if isinstance(it, ast.Call) and isinstance(it.func, ast.Name):
            fn = it.func.id
            if fn == "zip" and it.args and not it.keywords and not any(isinstance(a, ast.Starred) for a in it.args):
                return ("tuple",) + tuple(self._elem(self.sym(a, env, ver, ctx), loop_id) for a in it.args)
            if fn == "enumerate" and len(it.args) == 1 and not it.keywords:
                return ("tuple", ("idx", loop_id), self._elem(self.sym(it.args[0], env, ver, ctx), loop_id))
            if fn == "range":
                args = it.args
                if len(args) == 2 and isinstance(args[0], ast.Constant) and args[0].value == 0:
                    args = args[1:]
                if len(args) == 1:
                    n = self.sym(args[0], env, ver, ctx)
                    if n[0] == "call" and n[1] == "len" and len(n[2]) == 1:
                        self.loop_ranges[loop_id] = n[2][0]
                        return ("idx", loop_id)
                    if n[0] == "call" and n[1] == "min" and n[2] and all(isinstance(a, tuple) and a[0] == "call" and a[1] == "len" for a in n[2]):
                        # the positions common to several sequences (where zip would stop)
                        self.loop_ranges[loop_id] = tuple(a[2][0] for a in n[2])
                        return ("idx", loop_id)
        if isinstance(it, ast.Call) and isinstance(it.func, ast.Attribute) and it.func.attr == "items" and not it.args:
            x = self.sym(it.func.value, env, ver, ctx)
            return ("tuple", ("key", x, loop_id), ("val", x, loop_id))
        t = self.sym(it, env, ver, ctx)
        if isinstance(t, tuple) and t[:2] == ("mcall", "items") and len(t) > 3 and not t[3]:
            # `items = d.items(); for k, v in items`: the same pairs as iterating d.items() directly
            return ("tuple", ("key", t[2], loop_id), ("val", t[2], loop_id))
        return self._elem(t, loop_id)

    @staticmethod
    def _elem(x, loop_id):
        return ("elem", x, loop_id)

    def _loop_target_term(self, node, env, ver, ctx):
        path = []
        n = node
        p = getattr(n, "_parent", None)
        while isinstance(p, (ast.Tuple, ast.List)):
            path.append([i for i, el in enumerate(p.elts) if el is n][0])
            n, p = p, getattr(p, "_parent", None)
        if isinstance(p, ast.withitem) and p.optional_vars is n and not path:
            # `with E as x`: for the objects this is used on (files, temporary files, managers' proxies) __enter__ returns the
            # object itself; the target reads as E
            return self.sym(p.context_expr, env, ver, ctx)
        if not (isinstance(p, (ast.For, ast.comprehension)) and p.target is n):
            return None
        loop_id = getattr(p, "lineno", None) or getattr(p.iter, "lineno", 0)
        t = env.get(("$itt", self.depth(ctx), loop_id)) if isinstance(p, ast.For) else None
        if t is None:
            t = self.iteration_term(p.iter, loop_id, env, ver, ctx)
        for i in reversed(path):
            if t[0] in ("tuple", "list") and i < len(t) - 1:
                t = t[1 + i]
            else:
                t = ("sub", t, ("c", i), ver)
        return t

    def _writes(self, call, ctx) -> bool:
        try:
            return bool(self.writes_heap(call, ctx))
        except Exception:
            return True

    def should_inline(self, func, call, ctx):
        return func.cls is None or not func.cls.is_external

    # ----------------------------------------------------------------- E1 interface
    def refine(self, test, state, ctx: Ctx):
        envf, ver, user = state
        env = dict(envf)
        t = self.sym(test, env, ver, ctx)
        r = None
        if t == ("c", True) or t == ("c", False):
            r = t[1]
        elif t[0] == "cmp" and t[1] in ("Is", "IsNot") and t[3] == ("c", None):
            # None-ness of a term: a constant None is None, a constant / tuple / arithmetic value is not
            k = self.is_none(t[2], env, user, ctx)
            if k is not None:
                r = k if t[1] == "Is" else not k
        if r is None:
            r = self.decide(t, test, env, user, ctx)
        if r is True:
            return (state,), ()
        if r is False:
            return (), (state,)
        if isinstance(r, tuple):
            return r
        return (state,), (state,)

    def is_none(self, term, env, user, ctx) -> Optional[bool]:
        if term == ("c", None):
            return True
        if term[0] in ("c", "tuple", "bin", "cmp", "not", "bool"):
            return False
        return None

    def event(self, kind, node, state, ctx: Ctx):
        envf, ver, user = state
        env = dict(envf)
        d = self.depth(ctx)
        changed = False
        if kind == "enter":
            f = ctx.func
            if d == 1:
                self.root_params = list(f.params)
                for i, p in enumerate(f.params):
                    env[(1, p)] = ("self",) if (i == 0 and f.self_name == p) else ("p", p)
            else:
                call = ctx.interp.stack[-1][1]
                params = list(f.params)
                if f.self_name is not None and params and params[0] == f.self_name:
                    recv = ("self",)
                    if isinstance(call, ast.Call) and isinstance(call.func, ast.Attribute):
                        recv = self.sym(call.func.value, env, ver, ctx, depth=d - 1)
                    elif isinstance(call, (ast.Attribute, ast.Subscript)):
                        recv = self.sym(call.value, env, ver, ctx, depth=d - 1)
                    env[(d, params[0])] = recv
                    params = params[1:]
                if isinstance(call, ast.Call):
                    a = f.node.args
                    defaults = dict(zip([x.arg for x in (a.posonlyargs + a.args)][-len(a.defaults):], a.defaults)) if a.defaults else {}
                    given = {}
                    for p, v in zip(params, call.args):
                        if not isinstance(v, ast.Starred):
                            given[p] = self.sym(v, env, ver, ctx, depth=d - 1)
                    for k in call.keywords:
                        if k.arg:
                            given[k.arg] = self.sym(k.value, env, ver, ctx, depth=d - 1)
                    for p in params:
                        if p in given:
                            env[(d, p)] = given[p]
                        elif p in defaults:
                            env[(d, p)] = self.sym(defaults[p], {}, ver, ctx, depth=d)
                        else:
                            env[(d, p)] = ("opq",) + _site(f.node) + (p,)
                    env[("$site", d)] = _site(call)
                elif isinstance(call, ast.Subscript):
                    if len(params) >= 1:
                        env[(d, params[0])] = self.sym(call.slice, env, ver, ctx, depth=d - 1)
                    env[("$site", d)] = _site(call)
                env.pop(("$ret", d), None)
            changed = True
        elif kind == "return":
            env[("$ret", d)] = self.sym(node.value, env, ver, ctx)
            changed = True
        elif kind == "leave":
            # the stack is already popped: the callee's frame is d + 1
            cd = d + 1
            site = env.pop(("$site", cd), None)
            ret = env.pop(("$ret", cd), ("c", None))
            for k in [k for k in env if isinstance(k[0], int) and k[0] == cd]:
                del env[k]
            if site is not None:
                env[("$retval", d) + site] = ret
            changed = True
        elif kind == "store" and isinstance(node, (ast.Tuple, ast.List)):
            # a tuple target reported as one event (comprehension targets): bind its names one by one
            for nm in [n for n in ast.walk(node) if isinstance(n, ast.Name)]:
                t = self._loop_target_term(nm, env, ver, ctx)
                env[(d, nm.id)] = t if t is not None else ("lv", nm.id, getattr(nm, "lineno", 0), ver)
            changed = True
        elif kind == "store":
            if isinstance(node, ast.Name):
                v = assigned_value(node)
                par = getattr(node, "_parent", None)
                if v is not None:
                    env[(d, node.id)] = self.sym(v, env, ver, ctx)
                else:
                    # element of an unpacked tuple value, a loop / with / except target
                    t = None
                    if isinstance(par, (ast.Tuple, ast.List)):
                        whole = assigned_value(par)
                        if whole is not None:
                            wt = self.sym(whole, env, ver, ctx)
                            idx = [i for i, el in enumerate(par.elts) if el is node]
                            if wt[0] in ("tuple", "list") and idx and len(wt) - 1 == len(par.elts):
                                t = wt[1 + idx[0]]
                            elif idx:
                                t = ("sub", wt, ("c", idx[0]), ver)
                    if t is None:
                        t = self._loop_target_term(node, env, ver, ctx)
                    env[(d, node.id)] = t if t is not None else ("lv", node.id, getattr(node, "lineno", 0), ver)
                changed = True
            elif isinstance(node, (ast.Attribute, ast.Subscript)):
                v = assigned_value(node)
                if isinstance(node, ast.Attribute) and self.sym(node.value, env, ver, ctx) == ("self",):
                    # strong update of a field of the receiver (the value term is taken before the version moves on)
                    env[("h", node.attr)] = self.sym(v, env, ver, ctx) if v is not None else ("opq",) + _site(node) + (ver,)
                    self.stored_fields.add(node.attr)
                ver = min(VER_CAP, ver + 1)
                changed = True
        elif kind == "aug":
            tg = node.target
            if isinstance(tg, ast.Name):
                cur = env.get((d, tg.id), ("free", tg.id))
                env[(d, tg.id)] = ("bin", type(node.op).__name__, cur, self.sym(node.value, env, ver, ctx))
            else:
                if isinstance(tg, ast.Attribute) and self.sym(tg.value, env, ver, ctx) == ("self",):
                    cur = self.sym(ast.Attribute(value=tg.value, attr=tg.attr, ctx=ast.Load()), env, ver, ctx)
                    env[("h", tg.attr)] = ("bin", type(node.op).__name__, cur, self.sym(node.value, env, ver, ctx))
                    self.stored_fields.add(tg.attr)
                ver = min(VER_CAP, ver + 1)
            changed = True
        elif kind == "del":
            if isinstance(node, ast.Name):
                env.pop((d, node.id), None)
            else:
                ver = min(VER_CAP, ver + 1)
            changed = True
        elif kind == "loophead" and getattr(self, "unroll_loops", False):
            pass            # the client decides every loop test: rounds are followed one by one, nothing is forgotten
        elif kind == "loophead":
            # locals assigned inside the loop are loop-carried: one opaque value per loop and name
            body = node
            names = set()
            if isinstance(body, (ast.For, ast.While)):
                for st in body.body + body.orelse:
                    for n in ast.walk(st):
                        if isinstance(n, ast.Name) and isinstance(n.ctx, (ast.Store, ast.Del)):
                            names.add(n.id)
                writes = any(isinstance(n, (ast.Attribute, ast.Subscript)) and isinstance(n.ctx, (ast.Store, ast.Del))
                             for st in body.body for n in ast.walk(st)) or \
                    any(isinstance(n, ast.Call) and self._writes(n, ctx) for st in body.body for n in ast.walk(st))
                for nm in names:
                    env[(d, nm)] = ("lv", nm, body.lineno)
                if writes:
                    ver = VER_CAP
                    for k in [k for k in env if k[0] == "h"]:
                        del env[k]
                    env[("$havoc",)] = ver
                changed = True
        elif kind in ("ifexp_true", "ifexp_false"):
            env[("$ifexp", d) + _site(node)] = (kind == "ifexp_true")
            changed = True
        elif kind == "iter":
            # the iterated expression is evaluated once, in front of the loop: its term is fixed here
            par = getattr(node, "_parent", None)
            if isinstance(par, ast.For) and par.iter is node:
                env[("$itt", d, par.lineno)] = self.iteration_term(node, par.lineno, env, ver, ctx)
                changed = True
        elif kind in ("call", "construct", "proto_call") and isinstance(node, ast.Call):
            if self._writes(node, ctx):
                ver = min(VER_CAP, ver + 1)
                # the callee can re-bind fields of the receiver only if it can reach the receiver: it is one of the repository's
                # functions (not followed here), or the receiver itself is handed to it
                tgt = None
                try:
                    tgt = ctx.scope.resolve_call(node)
                except Exception:
                    pass
                hands_self = any(self.sym(a.value if isinstance(a, ast.Starred) else a, env, ver, ctx) == ("self",) for a in node.args) \
                    or any(self.sym(k.value, env, ver, ctx) == ("self",) for k in node.keywords) \
                    or (isinstance(node.func, ast.Attribute) and self.sym(node.func.value, env, ver, ctx) == ("self",))
                if tgt is not None or hands_self:
                    for k in [k for k in env if k[0] == "h"]:
                        del env[k]
                    env[("$havoc",)] = ver
                changed = True
        r = self.on(kind, node, env, ver, user, ctx)
        if r is None:
            return (self.pack(env, ver, user),) if changed else (state,)
        if isinstance(r, RaiseExc):
            return (r,)
        out = []
        for x in r:
            out.append(x if isinstance(x, RaiseExc) else self.pack(*x))
        return out


def run_sym(prog, client: SymClient, func, cls, user=None):
    it = Interp(prog, client)
    ex = it.run(func, {client.init(user)}, cls)
    return it, ex
