"""Type-of-expression and call resolution on top of the program model (no execution)."""
from __future__ import annotations

import ast
from typing import Dict, List, Optional, Tuple, Union

from .model import Cls, Func, Program, walk_own

TypeT = Union[Cls, str, None]

CONSUMERS = {"list", "tuple", "set", "sorted", "sum", "any", "all", "max", "min", "dict", "frozenset"}
WRAPPERS = {"enumerate", "iter", "reversed", "zip"}


class Scope:
    """Static scope of one function activation: which class ``self`` is, typed locals, parameter bindings."""

    def __init__(self, prog: Program, func: Func, cls: Optional[Cls] = None, obj: Tuple[str, ...] = ("self",),
                 param_types: Optional[Dict[str, TypeT]] = None, outer: Optional["Scope"] = None):
        self.prog, self.func = prog, func
        self.cls = cls if cls is not None else func.cls
        self.obj = obj
        self.outer = outer  # lexically enclosing scope (nested function such as ``chunking``)
        self.param_types = dict(param_types or {})
        self._locals: Optional[Dict[str, TypeT]] = None

    @property
    def self_name(self) -> Optional[str]:
        if self.func.self_name is not None:
            return self.func.self_name
        if self.outer is not None:
            return self.outer.self_name
        return None

    def is_self(self, e: ast.expr) -> bool:
        return isinstance(e, ast.Name) and self.self_name is not None and e.id == self.self_name \
            and not self._shadowed(e.id)

    def _shadowed(self, name: str) -> bool:
        return self.func.self_name is None and name in self.func.params

    # ---- locals
    def local_types(self) -> Dict[str, TypeT]:
        if self._locals is not None:
            return self._locals
        out: Dict[str, TypeT] = {}
        self._locals = out
        f = self.func
        a = f.node.args
        for arg in a.posonlyargs + a.args + a.kwonlyargs:
            if arg.arg in self.param_types and self.param_types[arg.arg] is not None:
                out[arg.arg] = self.param_types[arg.arg]
            elif arg.annotation is not None:
                t = ann_type(self.prog, arg.annotation, f)
                if t is not None:
                    out[arg.arg] = t
        for n in walk_own(f.node):
            if isinstance(n, ast.Assign) and len(n.targets) == 1 and isinstance(n.targets[0], ast.Name):
                t = self.type_of(n.value)
                if t is not None and n.targets[0].id not in out:
                    out[n.targets[0].id] = t
            elif isinstance(n, ast.With):
                for it in n.items:
                    if isinstance(it.optional_vars, ast.Name):
                        t = self.type_of(it.context_expr)
                        if t is not None:
                            out.setdefault(it.optional_vars.id, t)
        return out

    # ---- types
    def type_of(self, e: ast.expr) -> TypeT:
        P = self.prog
        if isinstance(e, ast.Name):
            if self.is_self(e):
                return self.cls
            if self._locals is None:
                # avoid infinite recursion while the table is being built
                lt = self.local_types()
            else:
                lt = self._locals
            if e.id in lt:
                return lt[e.id]
            if self.outer is not None and e.id not in self.func.params:
                return self.outer.type_of(e)
            return None
        if isinstance(e, ast.Attribute):
            bt = self.type_of(e.value)
            if isinstance(bt, Cls):
                # nested class used as attribute (self.SendWorkThread)
                for k in bt.repo_mro():
                    if e.attr in k.nested:
                        return None
                ft = P.field_type(bt, e.attr)
                if ft is not None:
                    return ft
                # field assigned from an annotated constructor parameter
                for f, st, val in P.field_inits(bt, e.attr):
                    if isinstance(val, ast.Name) and val.id in f.params:
                        for arg in f.node.args.args:
                            if arg.arg == val.id and arg.annotation is not None:
                                t = ann_type(P, arg.annotation, f)
                                if t is not None:
                                    return t
                return None
            return None
        if isinstance(e, ast.Call):
            tgt = self.resolve_call(e)
            if isinstance(tgt, Cls):
                return tgt
            if isinstance(tgt, Func):
                if tgt.node.returns is not None:
                    t = ann_type(P, tgt.node.returns, tgt)
                    if t is not None:
                        return t
                return None
            return P.ctor_type(e, self.func)
        if isinstance(e, ast.IfExp):
            return self.type_of(e.body) or self.type_of(e.orelse)
        if isinstance(e, (ast.List, ast.ListComp)):
            return "list"
        if isinstance(e, (ast.Dict, ast.DictComp)):
            return "dict"
        return None

    # ---- calls
    def resolve_call(self, call: ast.Call) -> Union[Func, Cls, None]:
        """Func for a resolved repo function/method, Cls for a constructor call, else None"""
        P = self.prog
        f = call.func
        if isinstance(f, ast.Name):
            # nested function of the current (or enclosing) function
            sc: Optional[Scope] = self
            while sc is not None:
                if f.id in sc.func.nested:
                    return sc.func.nested[f.id]
                sc = sc.outer
            q = f"{self.func.mod.name}.{f.id}"
            if q in P.functions:
                return P.functions[q]
            imp = self.func.mod.imports.get(f.id)
            if imp and imp[1] is not None and f"{imp[0]}.{imp[1]}" in P.functions:
                return P.functions[f"{imp[0]}.{imp[1]}"]
            k = P.lookup_class(self.func.mod, f.id, self.cls.qual if self.cls is not None else None)
            if k is not None:
                return k
            return None
        if isinstance(f, ast.Attribute):
            v = f.value
            # super().m(...)
            if isinstance(v, ast.Call) and isinstance(v.func, ast.Name) and v.func.id == "super" and self.cls is not None:
                owner = self.func.cls
                sc = self
                while owner is None and sc.outer is not None:
                    sc = sc.outer
                    owner = sc.func.cls
                return P.resolve(self.cls, f.attr, after=owner)
            # Class.m(self, ...) explicit base call / classmethod / nested class constructor
            if isinstance(v, ast.Name) and not self.is_self(v) and self.type_of(v) is None:
                k = P.lookup_class(self.func.mod, v.id, self.cls.qual if self.cls is not None else None)
                if k is not None:
                    if f.attr in k.nested:
                        return k.nested[f.attr]
                    m = P.resolve(k, f.attr)
                    if m is not None:
                        return m
                    return None
            rt = self.type_of(v)
            if isinstance(rt, Cls):
                for k in rt.repo_mro():
                    if f.attr in k.nested:
                        return k.nested[f.attr]
                return P.resolve(rt, f.attr)
        return None

    def receiver_path(self, e: ast.expr) -> Optional[Tuple[str, ...]]:
        """object path of an expression relative to the root object: self.list -> obj + ('list',)"""
        if self.is_self(e):
            return self.obj
        if isinstance(e, ast.Attribute):
            b = self.receiver_path(e.value)
            if b is not None:
                return b + (e.attr,)
        return None


def ann_type(prog: Program, ann: ast.expr, f: Func) -> TypeT:
    if isinstance(ann, ast.Constant) and isinstance(ann.value, str):
        try:
            ann = ast.parse(ann.value, mode="eval").body
        except SyntaxError:
            return None
    if isinstance(ann, ast.Subscript):
        head = ast.unparse(ann.value)
        if head.split(".")[-1] in ("Optional",):
            return ann_type(prog, ann.slice, f)
        if head.split(".")[-1] in ("List", "MutableSequence", "Sequence"):
            return "list"
        ann = ann.value
    if isinstance(ann, ast.Name):
        scope = f.cls.qual if f.cls is not None else (f.outer.cls.qual if f.outer is not None and f.outer.cls else None)
        k = prog.lookup_class(f.mod, ann.id, scope)
        if k is not None and not k.is_external:
            return k
    return None


def dotted(e: ast.expr) -> Optional[Tuple[str, ...]]:
    """('self','pool','_work_queue') for self.pool._work_queue"""
    parts: List[str] = []
    while isinstance(e, ast.Attribute):
        parts.append(e.attr)
        e = e.value
    if isinstance(e, ast.Name):
        parts.append(e.id)
        return tuple(reversed(parts))
    return None


def const_value(e: Optional[ast.expr], default=None):
    if isinstance(e, ast.Constant):
        return e.value
    if isinstance(e, ast.UnaryOp) and isinstance(e.op, ast.USub) and isinstance(e.operand, ast.Constant):
        return -e.operand.value
    return default


def kwarg(call: ast.Call, name: str, pos: Optional[int] = None) -> Optional[ast.expr]:
    for k in call.keywords:
        if k.arg == name:
            return k.value
    if pos is not None and len(call.args) > pos and not any(isinstance(a, ast.Starred) for a in call.args[:pos + 1]):
        return call.args[pos]
    return None
