"""The derived operations of a container come from the collections.abc mixins (shared by several properties).

The properties promise that keys()/values()/items()/get/pop/popitem/clear/update/== (mappings), extend/pop/remove/reverse/+=/index/
count/in (sequences) and the set operators *agree with the content*.  On the analysed tree they do so by construction: the classes
inherit them from the ``collections.abc`` mixins, which are written in terms of the primitives (``__getitem__``, ``__setitem__``,
``__delitem__``, ``__iter__``, ``__len__``, ``insert``, ``add``, ``discard``) that the other rules analyse.  An override of such a
mixin method replaces that derivation with code of its own, so it has to be analysed:

  * an override that traverses its (one-shot) argument twice is a VIOLATION: ``extend(x for x in ...)`` stores nothing after the
    validation pass consumed the generator;
  * an override that is a plain delegation to ``super()`` is fine;
  * any other override that is not in the table of overrides confirmed on the analysed tree is UNRECOGNISED: whether it agrees
    with the primitives is not decided here (fail closed, not an alarm).

Also here: containers hand out a *fresh* iterator.  ``__iter__`` that returns ``self`` keeps the position on the container, so two
iterations in progress at once (nested loops, zip(c, c), ``x in c`` inside a loop over c) share it.
"""
from __future__ import annotations

import ast
from typing import Dict, Iterable, List, Optional, Set, Tuple

from ..absint import Interp
from ..model import Cls, Func, Program
from ..report import Report
from ..util import src
from .oneshot import _OneShot, one_shot_params

MIXIN_METHODS: Dict[str, List[str]] = {
    "Mapping": ["__contains__", "keys", "items", "values", "get", "__eq__", "__ne__"],
    "MutableMapping": ["pop", "popitem", "clear", "update", "setdefault"],
    "Sequence": ["__contains__", "__iter__", "__reversed__", "index", "count"],
    "MutableSequence": ["append", "reverse", "extend", "pop", "remove", "__iadd__"],
    "Set": ["__le__", "__lt__", "__eq__", "__ne__", "__gt__", "__ge__", "__and__", "__or__", "__sub__", "__xor__", "isdisjoint",
            "__rand__", "__ror__", "__rsub__", "__rxor__"],
    "MutableSet": ["clear", "pop", "remove", "__ior__", "__iand__", "__ixor__", "__isub__"],
}
IMPLIED = {"MutableMapping": ["Mapping"], "MutableSequence": ["Sequence"], "MutableSet": ["Set"]}
# parameter 1 of these is an arbitrary iterable by the ABC's contract, whatever the annotation says
ITERABLE_ARG = {"extend", "update", "__iadd__", "__ior__", "__iand__", "__ixor__", "__isub__", "isdisjoint"}


def abcs_of(c: Cls) -> List[str]:
    names = []
    for k in (c.mro or []):
        n = getattr(k, "name", str(k)).split(".")[-1]
        if n in MIXIN_METHODS and n not in names:
            names.append(n)
            for m in IMPLIED.get(n, []):
                if m not in names:
                    names.append(m)
    return names


def mixin_overrides(c: Cls) -> List[Tuple[Cls, str, Func]]:
    """(defining class, method name, function) for every repo class in the MRO of ``c`` that defines a mixin method of an ABC of c"""
    mix: Set[str] = set()
    for a in abcs_of(c):
        mix |= set(MIXIN_METHODS[a])
    out = []
    for k in (c.mro or []):
        if not isinstance(k, Cls) or k.is_external:
            continue
        for m, f in k.methods.items():
            if m in mix:
                out.append((k, m, f))
    return out


def _is_super_delegation(f: Func) -> bool:
    """the body is (docstring +) `return super().<same name>(<the parameters as given>)`"""
    body = [s for s in f.node.body if not (isinstance(s, ast.Expr) and isinstance(s.value, ast.Constant))]
    if len(body) != 1 or not isinstance(body[0], (ast.Return, ast.Expr)):
        return False
    call = body[0].value
    if not (isinstance(call, ast.Call) and isinstance(call.func, ast.Attribute) and call.func.attr == f.name
            and isinstance(call.func.value, ast.Call) and src(call.func.value.func) == "super"):
        return False
    given = [src(a) for a in call.args] + [src(k.value) for k in call.keywords]
    return given == f.params[1:len(given) + 1] or set(given) <= set(f.params[1:])


def _double_consumption(prog: Program, f: Func, cls: Cls, tracked: List[str]):
    client = _OneShot(set(tracked))
    it = Interp(prog, client)
    it.run(f, {frozenset()}, cls)
    if it.unrecognised:
        return None, "; ".join(it.unrecognised)
    return (sorted(set(client.double))[0] if client.double else False), ""


def rule_mixin_surface(prog: Program, rep: Report, rule: str, classes: List[Cls], analysed: Iterable[Tuple[str, str]] = (),
                       declare: bool = True, names: Optional[Set[str]] = None, owners: Optional[Set[str]] = None):
    """one instance per class (no override outside the confirmed table) plus one per override found"""
    analysed = set(analysed)
    if declare:
        rep.rule(rule, "derived operations come from the collections.abc mixins: a class overrides a mixin method (get, items, "
                 "update, extend, index, pop, ... ) only where the table confirmed on the analysed tree says so; a new override that "
                 "traverses its iterable argument twice is a violation (a generator argument is exhausted by the first pass), a plain "
                 "delegation to super() is accepted, any other new override is unrecognised", floor=len(classes))
    seen: Set[Tuple[str, str]] = set()
    for c in classes:
        anchor = prog.resolve(c, "__init__") or next(iter(c.methods.values()), None)
        new = []
        for k, m, f in mixin_overrides(c):
            if (k.name, m) in analysed or (names is not None and m not in names) or (owners is not None and k.name not in owners):
                continue
            new.append((k, m, f))
        if anchor is not None:
            rep.fn(anchor)
        if not new:
            if anchor is not None:
                rep.ok(rule, anchor, f"mixin-surface:{c.name}",
                       f"ABCs {', '.join(abcs_of(c)) or '-'}: no override of a mixin method outside the confirmed table "
                       f"({len(mixin_overrides(c))} confirmed)")
            continue
        for k, m, f in new:
            if (k.name, m) in seen:
                continue
            seen.add((k.name, m))
            rep.fn(f)
            role = f"mixin-override:{k.name}.{m}"
            if _is_super_delegation(f):
                rep.ok(rule, f, role, "plain delegation to super()")
                continue
            tracked = list(one_shot_params(f))
            if m in ITERABLE_ARG and len(f.params) > 1 and f.params[1] not in tracked:
                tracked.append(f.params[1])
            if tracked:
                dbl, why = _double_consumption(prog, f, c, tracked)
                if dbl:
                    n, l1, l2, what = dbl
                    rep.viol(rule, f, role, f"the override traverses its iterable argument `{n}` at line {l1} and again at line {l2} "
                             f"({what}): a generator argument is exhausted by the first pass, so the second sees nothing",
                             scenario=f"x.{m}(v for v in [...]) (or `+=` with a generator): the validation pass consumes the "
                                      "generator and nothing is stored, without any error", line=l2)
                    continue
            rep.unrec(rule, f, role, f"{k.name}.{m} overrides the mixin method inherited from collections.abc: whether it agrees with "
                      "the primitives the other rules analyse is not decided", line=f.node.lineno)


def rule_fresh_iterator(prog: Program, rep: Report, rule: str, classes: List[Cls], declare: bool = True):
    """a container's __iter__ never returns the container itself"""
    if declare:
        rep.rule(rule, "a container hands out a fresh iterator: __iter__ does not return the container itself (the position would live "
                 "on the container and be shared by every iteration in progress)", floor=len(classes))
    for c in classes:
        f = prog.resolve(c, "__iter__")
        anchor = f if f is not None and not getattr(f.cls, "is_external", False) else (prog.resolve(c, "__getitem__") or prog.resolve(c, "__init__"))
        if anchor is None:
            continue
        rep.fn(anchor)
        role = f"fresh-iterator:{c.name}"
        if f is None or getattr(f.cls, "is_external", False):
            rep.ok(rule, anchor, role, "no __iter__ of its own (the protocol default creates a fresh iterator)")
            continue
        me = f.self_name
        bad = [r for r in ast.walk(f.node) if isinstance(r, ast.Return) and isinstance(r.value, ast.Name) and r.value.id == me]
        if bad:
            rep.viol(rule, f, role, f"`__iter__` returns the container itself (`{src(bad[0])}`): the iteration position is shared by "
                     "every iteration in progress",
                     scenario=f"c = {c.name}(...); nested `for a in c: for b in c:` or zip(c, c): the inner iteration resets / "
                              "advances the outer one, so batches/lines are skipped or repeated", line=bad[0].lineno)
        else:
            rep.ok(rule, f, role, "__iter__ is a generator / returns a new iterator object")
