"""C08 — DoublyLinkedList keeps links and length consistent (DESIGN.md §6)."""
from __future__ import annotations

import ast
from typing import Dict, List, Optional, Set, Tuple

from ..absint import Client, Ctx, Interp
from ..model import AnalysisError, Cls, Func, Program, walk_own
from ..report import Report
from ..resolve import Scope, ann_type, dotted
from ..util import assigned_value, calls_in, returns_of, src
from .oneshot import oneshot_rule

LISTS_MOD = "windpyutils.structures.lists"
SAT = 3  # saturation of the (nodes - size) difference


class ListFacts:
    """slots of the linked list discovered by role"""

    def __init__(self, prog: Program):
        self.P = prog
        self.lst = prog.cls("DoublyLinkedList", LISTS_MOD)
        self.node = prog.cls("DoublyLinkedListNode", LISTS_MOD)
        # node link fields: the annotated fields of the node class that default to None
        self.node_links: List[str] = []
        self.payload: Optional[str] = None
        for st in self.node.node.body:
            if isinstance(st, ast.AnnAssign) and isinstance(st.target, ast.Name):
                if st.value is not None and isinstance(st.value, ast.Constant) and st.value.value is None:
                    self.node_links.append(st.target.id)
                elif self.payload is None:
                    self.payload = st.target.id
        if len(self.node_links) != 2 or self.payload is None:
            raise AnalysisError(f"node class shape unrecognised (links={self.node_links}, payload={self.payload})")
        # list end fields: fields set to None in __init__
        init = prog.method(self.lst, "__init__")
        self.ends: List[str] = []
        from ..util import iter_stores
        for t, v, _st in iter_stores(init.node):
            if isinstance(v, ast.Constant) and v.value is None:
                d = dotted(t)
                if d and len(d) == 2 and d[0] == init.self_name and d[1] not in self.ends:
                    self.ends.append(d[1])
        if len(self.ends) != 2:
            raise AnalysisError(f"list end fields unrecognised: {self.ends}")
        # size field: what __len__ returns
        ln = prog.method(self.lst, "__len__")
        self.size = None
        for r in returns_of(ln.node):
            d = dotted(r.value) if r.value is not None else None
            if d and len(d) == 2 and d[0] == ln.self_name:
                self.size = d[1]
        if self.size is None:
            raise AnalysisError("size field not discoverable from __len__")
        self.link_fields = set(self.node_links) | set(self.ends)
        # which node link is "next": the one followed by the forward traversal from the first end
        self.next_link, self.prev_link = self._orient()

    def _orient(self) -> Tuple[str, str]:
        # the forward direction is the one __iter__ walks: __iter__ itself, or the generator method it draws from
        # (node = self.<head>; while ...: node = node.<next>); other traversals (a reversed iterator) do not define it
        it = self.lst.methods.get("__iter__")
        order = []
        if it is not None:
            order.append(it)
            for c in ast.walk(it.node):
                if isinstance(c, ast.Call) and isinstance(c.func, ast.Attribute) and isinstance(c.func.value, ast.Name) \
                        and c.func.value.id == it.self_name and c.func.attr in self.lst.methods:
                    order.append(self.lst.methods[c.func.attr])
        order += [f for f in self.lst.methods.values() if f not in order]
        for f in order:
            if not f.is_generator:
                continue
            start, step = None, None
            for n in walk_own(f.node):
                if isinstance(n, ast.Assign) and len(n.targets) == 1 and isinstance(n.targets[0], ast.Name):
                    d = dotted(n.value)
                    if d and len(d) == 2 and d[0] == f.self_name and d[1] in self.ends:
                        start = d[1]
                    elif d and len(d) == 2 and d[0] == n.targets[0].id and d[1] in self.node_links:
                        step = d[1]
            if start and step:
                self.head = start
                self.tail = [e for e in self.ends if e != start][0]
                return step, [l for l in self.node_links if l != step][0]
        raise AnalysisError("forward traversal (iter_nodes) not found: cannot orient head/tail, next/prev")

    def mutators(self) -> List[Func]:
        """the list's operations; private helpers that the class itself calls are analysed where they are called (inlined)"""
        called_inside = {c.func.attr for g in self.lst.methods.values() if g.self_name is not None for c in ast.walk(g.node)
                         if isinstance(c, ast.Call) and isinstance(c.func, ast.Attribute) and isinstance(c.func.value, ast.Name)
                         and c.func.value.id == g.self_name}
        out = []
        for name, f in self.lst.methods.items():
            if name.startswith("__") or f.self_name is None or f.is_generator:
                continue
            if name.startswith("_") and name in called_inside:
                continue
            out.append(f)
        return out


def run(prog: Program, rep: Report):
    lf = ListFacts(prog)
    rep.attempt(lambda: r1_size(prog, rep, lf))
    rep.attempt(lambda: r2_identity(prog, rep, lf))
    rep.attempt(lambda: r3_guards(prog, rep, lf))
    from . import c08_shape
    rep.attempt(lambda: c08_shape.run(prog, rep, lf))
    rep.attempt(lambda: r6_node_provenance(prog, rep, lf))
    from .memo import public_entry_points, rule_derived_state
    from .ownership import rule_no_class_state
    rep.attempt(lambda: rule_derived_state(prog, rep, "C08.R7", lf.lst, set(lf.ends) | {lf.size}, public_entry_points(prog, lf.lst),
                       what="a cached middle node, a cached length or an index of nodes must not survive an insertion, removal or move"))
    rep.attempt(lambda: rule_no_class_state(prog, rep, "C08.R8", [lf.lst]))
    from .mixins import rule_fresh_iterator
    rep.attempt(lambda: rule_fresh_iterator(prog, rep, "C08.R9", [lf.lst]))
    rep.attempt(lambda: oneshot_rule(prog, rep, "C08.R5", [prog.method(lf.lst, m) for m in ("__init__", "extend", "pre_extend")],
                 "a second traversal of a generator argument would link nothing while the size was already counted (or vice versa)"))


# ---------------------------------------------------------------------------------------------- R1
def detach_summary(prog, lf: ListFacts, f: Func) -> Optional[dict]:
    """is ``f`` a detach primitive?  both neighbours of its node parameter are bypassed on every path"""
    if len(f.params) != 2:
        return None
    node = f.params[1]
    client = _Bypass(lf, node)
    it = Interp(prog, client)
    ex = it.run(f, {(False, False, 0)}, lf.lst)
    finals = ex.normal | ex.ret
    if not finals or not all(s[0] and s[1] for s in finals):
        return None
    sizes = {s[2] for s in finals}
    if len(sizes) != 1:
        return None
    return {"param": node, "dsize": sizes.pop()}


class _Bypass(Client):
    """state = (forward neighbour bypassed, backward neighbour bypassed, dsize)"""

    def __init__(self, lf: ListFacts, node: str):
        self.lf, self.node = lf, node
        self._flows: Dict[int, object] = {}

    def should_inline(self, func, call, ctx):
        # private helpers of the list (an extracted `_unlink`) belong to the operation that calls them
        return func.cls is self.lf.lst and func.name.startswith("_") and not func.name.startswith("__") and len(ctx.interp.stack) < 3

    def _path(self, e, ctx):
        """dotted path of ``e`` with a leading local expanded to what it was read from (pred = node.prev_node; pred.next = ...)"""
        from ..flow import Flow
        d = dotted(e)
        if not d:
            return None
        root = e
        while isinstance(root, ast.Attribute):
            root = root.value
        if isinstance(root, ast.Name) and root.id not in (self.node,) and not ctx.scope.is_self(root):
            fl = self._flows.get(id(ctx.func.node))
            if fl is None:
                fl = self._flows[id(ctx.func.node)] = Flow(ctx.func.node)
            if isinstance(root.ctx, ast.Load):
                ex = fl.expand(root)
                dx = dotted(ex) if ex is not root else None
                if dx:
                    return tuple(dx) + tuple(d[1:])
        return tuple(d)

    def event(self, kind, node, state, ctx: Ctx):
        fwd, bwd, ds = state
        lf = self.lf
        if len(ctx.interp.stack) > 1 and ctx.func.params[1:2] and kind in ("store", "aug"):
            pass
        if kind == "store" and isinstance(node, ast.Attribute):
            val = assigned_value(node)
            vd = self._path(val, ctx) if val is not None else None
            td = self._path(node, ctx)
            if vd and td:
                # <node.prev>.next = node.next   |  self.head = node.next
                if vd == (self.node, lf.next_link) and (td == (self.node, lf.prev_link, lf.next_link)
                                                        or (ctx.scope.is_self(ast.Name(id=td[0], ctx=ast.Load())) and td[1:] == (lf.head,))):
                    return ((True, bwd, ds),)
                if vd == (self.node, lf.prev_link) and (td == (self.node, lf.next_link, lf.prev_link)
                                                        or (ctx.scope.is_self(ast.Name(id=td[0], ctx=ast.Load())) and td[1:] == (lf.tail,))):
                    return ((fwd, True, ds),)
        if kind == "aug" and dotted(node.target) and dotted(node.target)[1:] == (lf.size,) \
                and ctx.scope.is_self(ast.Name(id=dotted(node.target)[0], ctx=ast.Load())):
            c = node.value.value if isinstance(node.value, ast.Constant) and isinstance(node.value.value, int) else None
            if c is not None:
                ds += c if isinstance(node.op, ast.Add) else -c if isinstance(node.op, ast.Sub) else 99
                return ((fwd, bwd, max(-SAT, min(SAT, ds))),)
        return (state,)


class _SizeLinks(Client):
    """state = (frozenset of detached local node names, nodes - size difference)"""

    def __init__(self, prog, lf: ListFacts, detachers: Dict[Func, dict]):
        self.P, self.lf, self.detachers = prog, lf, detachers
        self.problems: List[str] = []
        self.effects = 0

    def should_inline(self, func: Func, call, ctx: Ctx):
        return func not in self.detachers

    def classify(self, call, ctx: Ctx):
        tgt = ctx.scope.resolve_call(call)
        if isinstance(tgt, Func) and tgt in self.detachers:
            return "detach"
        return None

    def event(self, kind, node, state, ctx: Ctx):
        det, diff = state
        lf = self.lf
        if ctx.scope.cls is not lf.lst and kind in ("store", "aug", "detach"):
            return (state,)
        if kind == "detach":
            self.effects += 1
            summ = self.detachers[ctx.scope.resolve_call(node)]
            arg = node.args[0] if node.args else None
            det2 = det | {arg.id} if isinstance(arg, ast.Name) else det
            return ((frozenset(det2), _sat(diff - 1 - summ["dsize"])),)
        if kind == "store":
            st = getattr(node, "_parent", None)
            while st is not None and not isinstance(st, ast.stmt):
                st = getattr(st, "_parent", None)
            val = assigned_value(node)
            if isinstance(node, ast.Name) and isinstance(val, ast.Call):
                tgt = ctx.scope.resolve_call(val)
                if tgt is lf.node:
                    self.effects += 1
                    return ((frozenset(det | {node.id}), diff),)
            if isinstance(node, ast.Attribute) and node.attr in lf.link_fields and isinstance(val, ast.Name) \
                    and val.id in det:
                self.effects += 1
                return ((frozenset(det - {val.id}), _sat(diff + 1)),)
            if isinstance(node, ast.Attribute) and node.attr == lf.size and ctx.scope.is_self(node.value):
                # self.size = self.size +/- c
                c = _delta_of(val, lf.size)
                if c is None:
                    if isinstance(val, ast.Constant) and val.value == 0 and ctx.func.name == "__init__":
                        return (state,)
                    self.problems.append(f"unrecognised write of the size counter at {ctx.where(node)}: {src(st)}")
                    return (state,)
                self.effects += 1
                return ((det, _sat(diff - c)),)
        if kind == "aug" and isinstance(node.target, ast.Attribute) and node.target.attr == lf.size \
                and ctx.scope.is_self(node.target.value):
            c = node.value.value if isinstance(node.value, ast.Constant) and isinstance(node.value.value, int) else None
            if c is None or not isinstance(node.op, (ast.Add, ast.Sub)):
                self.problems.append(f"unrecognised update of the size counter at {ctx.where(node)}: {src(node)}")
                return (state,)
            self.effects += 1
            return ((det, _sat(diff - (c if isinstance(node.op, ast.Add) else -c))),)
        return (state,)


def _sat(x: int) -> int:
    return max(-SAT, min(SAT, x))


def _delta_of(val, size_field) -> Optional[int]:
    if isinstance(val, ast.BinOp) and isinstance(val.op, (ast.Add, ast.Sub)):
        l, r = val.left, val.right
        if isinstance(l, ast.Attribute) and l.attr == size_field and isinstance(r, ast.Constant) and isinstance(r.value, int):
            return r.value if isinstance(val.op, ast.Add) else -r.value
        if isinstance(r, ast.Attribute) and r.attr == size_field and isinstance(l, ast.Constant) \
                and isinstance(l.value, int) and isinstance(val.op, ast.Add):
            return l.value
    return None


def r1_size(prog, rep: Report, lf: ListFacts):
    rep.rule("C08.R1", "size follows links: on every path of every mutator the number of nodes attached minus detached "
             "(construct / detach primitive / store of a detached node into a link field) equals the change of the "
             "size counter; loop bodies must be balanced", floor=10)
    detachers: Dict[Func, dict] = {}
    for f in lf.mutators():
        s = detach_summary(prog, lf, f)
        if s is not None:
            detachers[f] = s
    if not detachers:
        rep.error("C08.R1: no detach primitive (a method bypassing both neighbours of its node parameter) found")
        return
    rep.count("detach_primitives", len(detachers))
    for f, s in detachers.items():
        rep.fn(f)
        rep.check("C08.R1", f, "primitive:detach", s["dsize"] == -1,
                  f"bypasses both neighbours of {s['param']!r} and changes the size by {s['dsize']} on every path",
                  f"detach primitive changes the size counter by {s['dsize']} instead of -1",
                  scenario="l = DoublyLinkedList([1,2,3]); l.remove(l.head); len(l) != 2")
    for f in lf.mutators():
        if f in detachers:
            continue
        rep.fn(f)
        client = _SizeLinks(prog, lf, detachers)
        it = Interp(prog, client)
        ex = it.run(f, {(frozenset(), 0)}, lf.lst)
        rep.count("abstract_states", len(it.states_seen))
        finals = ex.normal | ex.ret
        if it.unrecognised or client.problems:
            rep.unrec("C08.R1", f, "balance", "; ".join(it.unrecognised + client.problems))
            continue
        diffs = sorted({s[1] for s in finals})
        bad = [d for d in diffs if d != 0]
        pend = sorted({v for s in finals for v in s[0] if s[1] == 0 and False})
        if bad:
            d = bad[0]
            how = "too small" if d > 0 else "too large"
            rep.viol("C08.R1", f, "balance",
                     f"a path ends with (nodes linked - size counter) = {'+' if d > 0 else ''}{d if abs(d) < SAT else 'unbounded'}: "
                     f"len() is {how} after {f.name}()",
                     witness={"final_differences": diffs},
                     scenario=f"l = DoublyLinkedList([1,2,3,4,5]); {f.name}(...) on an inner node; len(l) != number of "
                              f"elements of list(l)")
        else:
            rep.ok("C08.R1", f, "balance", f"all {len(finals)} exit states balanced ({client.effects} link/size effects)",
                   nontrivial=client.effects > 0)


# ---------------------------------------------------------------------------------------------- R2
def _node_has_value_eq(lf: ListFacts) -> bool:
    n = lf.node
    if "__eq__" in n.methods:
        return True
    for d in n.decorator_nodes:
        name = src(d.func if isinstance(d, ast.Call) else d)
        if name.split(".")[-1] == "dataclass":
            if isinstance(d, ast.Call):
                for k in d.keywords:
                    if k.arg == "eq" and isinstance(k.value, ast.Constant) and k.value.value is False:
                        return False
            return True
    return False


def _node_typed(e: ast.expr, f: Func, lf: ListFacts, node_locals: Set[str], prog: Program) -> bool:
    if isinstance(e, ast.Attribute) and e.attr in lf.node_links:
        return True
    if isinstance(e, ast.Attribute) and e.attr in lf.ends:
        # self.head / self.list.tail
        return True
    if isinstance(e, ast.Name) and e.id in node_locals:
        return True
    return False


def _node_locals(prog, f: Func, lf: ListFacts) -> Set[str]:
    out: Set[str] = set()
    for a in f.node.args.args:
        if a.annotation is not None and lf.node.name in src(a.annotation):
            out.add(a.arg)
    changed = True
    while changed:
        changed = False
        for n in walk_own(f.node):
            tgt, val = None, None
            if isinstance(n, ast.Assign) and len(n.targets) == 1 and isinstance(n.targets[0], ast.Name):
                tgt, val = n.targets[0].id, n.value
            elif isinstance(n, ast.For) and isinstance(n.target, ast.Name) and isinstance(n.iter, ast.Call) \
                    and isinstance(n.iter.func, ast.Attribute) and n.iter.func.attr == "iter_nodes":
                if n.target.id not in out:
                    out.add(n.target.id); changed = True
                continue
            if tgt is None or tgt in out:
                continue
            is_node = False
            if isinstance(val, ast.Attribute) and (val.attr in lf.node_links or val.attr in lf.ends):
                is_node = True
            elif isinstance(val, ast.Name) and val.id in out:
                is_node = True
            elif isinstance(val, ast.Call):
                fn = val.func
                if isinstance(fn, ast.Name) and fn.id == lf.node.name:
                    is_node = True
                elif isinstance(fn, ast.Attribute) and fn.attr in ("append", "prepend") :
                    is_node = True
            elif isinstance(val, ast.Subscript) and isinstance(val.value, ast.Attribute) and val.value.attr == "cache":
                is_node = True
            if is_node:
                out.add(tgt); changed = True
    return out


def r2_identity(prog, rep: Report, lf: ListFacts):
    rep.rule("C08.R2", "identity, not equality: no ==/!=/in between two node-typed expressions while the node class has a "
             "value __eq__ (dataclass): such a comparison calls payload __eq__ and recurses along the links", floor=2)
    value_eq = _node_has_value_eq(lf)
    sites = 0
    mods = {LISTS_MOD, "windpyutils.structures.caches"}
    for f in prog.functions.values():
        if f.mod.name not in mods:
            continue
        nl = _node_locals(prog, f, lf)
        for n in walk_own(f.node):
            if not isinstance(n, ast.Compare):
                continue
            operands = [n.left] + list(n.comparators)
            # membership in a literal tuple/list of nodes compares by == as well
            if len(n.ops) == 1 and isinstance(n.ops[0], (ast.In, ast.NotIn)) and isinstance(n.comparators[0], (ast.Tuple, ast.List)) \
                    and _node_typed(n.left, f, lf, nl, prog) and any(_node_typed(x, f, lf, nl, prog) for x in n.comparators[0].elts):
                sites += 1
                rep.fn(f)
                rep.check("C08.R2", f, f"compare:{src(n.left)}~in-literal", not value_eq, "node class has no value __eq__",
                          f"`{src(n)}` tests membership of a node in a literal of nodes: `in` compares by value (the generated "
                          f"dataclass __eq__), recursing along the links",
                          scenario="a long run of equal payloads: RecursionError; a payload whose __eq__ raises makes the operation fail",
                          line=n.lineno)
                continue
            for i, op in enumerate(n.ops):
                a, b = operands[i], operands[i + 1]
                if not (_node_typed(a, f, lf, nl, prog) and _node_typed(b, f, lf, nl, prog)):
                    continue
                sites += 1
                rep.fn(f)
                role = f"compare:{src(a)}~{src(b)}"
                if isinstance(op, (ast.Is, ast.IsNot)):
                    rep.ok("C08.R2", f, role, f"identity test {src(n)}", nontrivial=False)
                elif isinstance(op, (ast.Eq, ast.NotEq, ast.In, ast.NotIn)):
                    rep.check("C08.R2", f, role, not value_eq, "node class has no value __eq__",
                              f"`{src(n)}` compares two nodes by value: the generated dataclass __eq__ compares payloads "
                              f"and neighbour links recursively",
                              scenario="3000 equal payloads: RecursionError; a payload whose __eq__ raises makes the "
                                       "operation fail; two distinct nodes with equal payloads are confused",
                              line=n.lineno)
    rep.count("node_comparisons", sites)


# ---------------------------------------------------------------------------------------------- R3
class _NullGuard(Client):
    """state = frozenset of list end fields known to be non-None; dereferences need the field in the set"""

    def __init__(self, lf: ListFacts):
        self.lf = lf
        self.bad: List[Tuple[int, str]] = []
        self.raises: List[str] = []
        self.derefs = 0

    def should_inline(self, func, call, ctx):
        return False

    def refine(self, test, state, ctx: Ctx):
        lf = self.lf
        if isinstance(test, ast.Compare) and len(test.ops) == 1 and isinstance(test.comparators[0], ast.Constant) \
                and test.comparators[0].value is None:
            d = dotted(test.left)
            if isinstance(test.left, ast.Name):
                from ..flow import Flow
                fl = getattr(ctx.func.node, "_flow", None)
                if fl is None:
                    fl = ctx.func.node._flow = Flow(ctx.func.node)
                d = dotted(fl.expand(test.left)) or d            # last = self.tail; if last is None: ...
            if d and len(d) == 2 and d[1] in lf.ends:
                if isinstance(test.ops[0], ast.Is):
                    return ((state | {"none:" + d[1]},), (state | {d[1]},))
                if isinstance(test.ops[0], ast.IsNot):
                    return ((state | {d[1]},), (state | {"none:" + d[1]},))
        return (state,), (state,)

    def event(self, kind, node, state, ctx: Ctx):
        lf = self.lf
        if kind == "load" and isinstance(node, ast.Attribute):
            d = dotted(node)
            if d and len(d) == 2 and not ctx.scope.is_self(ast.Name(id=d[0], ctx=ast.Load())):
                # a local that names an end (`last = self.tail; ...; last.data`)
                from ..flow import Flow
                from ..util import path_of
                fl = getattr(ctx.func.node, "_flow", None)
                if fl is None:
                    fl = ctx.func.node._flow = Flow(ctx.func.node)
                d = path_of(node, fl, keep=(ctx.func.self_name,)) or d
            if d and len(d) == 3 and d[1] in lf.ends and ctx.scope.is_self(ast.Name(id=d[0], ctx=ast.Load())):
                self.derefs += 1
                if d[1] not in state:
                    self.bad.append((node.lineno, src(node)))
        if kind == "raise":
            nones = [s for s in state if s.startswith("none:")]
            if nones and node.exc is not None:
                x = node.exc.func if isinstance(node.exc, ast.Call) else node.exc
                self.raises.append(src(x))
        return (state,)


def r3_guards(prog, rep: Report, lf: ListFacts):
    rep.rule("C08.R3", "empty-list guards: the pop operations test the end they dereference for None and raise "
             "IndexError before dereferencing it", floor=2)
    for f in lf.lst.methods.values():
        if not f.name.startswith("pop"):
            continue
        f = prog.method_view(lf.lst, f.name)      # private helpers inlined: `return self._pop_node(self.tail)` reads as its body
        rep.fn(f)
        client = _NullGuard(lf)
        it = Interp(prog, client)
        it.run(f, {frozenset()}, lf.lst)
        if client.derefs == 0:
            rep.unrec("C08.R3", f, "guard", "no dereference of a list end found")
            continue
        if client.bad:
            ln, what = client.bad[0]
            rep.viol("C08.R3", f, "guard", f"`{what}` dereferenced without a dominating `is None` test",
                     scenario=f"DoublyLinkedList().{f.name}() raises AttributeError instead of IndexError", line=ln)
        elif not client.raises or any(r != "IndexError" for r in client.raises):
            rep.viol("C08.R3", f, "guard", f"the empty-list branch raises {client.raises or 'nothing'} instead of IndexError",
                     scenario=f"DoublyLinkedList().{f.name}()")
        else:
            rep.ok("C08.R3", f, "guard", f"{client.derefs} dereferences dominated by the None test; raises IndexError")


# ---------------------------------------------------------------------------------------------- R6
def r6_node_provenance(prog, rep: Report, lf: ListFacts):
    """nodes never belong to two lists: what a method links in is a node it constructed, a node parameter (the move / remove API
    hands nodes of this list back), or something already reachable from this list"""
    from ..util import iter_stores
    rep.rule("C08.R6", "node provenance: a value stored into an end field of the list or a link field of a node is None, a node "
             "constructed by the method, a parameter annotated as a node, or reached from self / such a node; never something "
             "reached from another parameter (another list's head or tail: the two lists would share nodes)", floor=4)
    n_ok = 0
    for name, f in sorted(lf.lst.methods.items()):
        if f.self_name is None:
            continue
        node_params = set()
        a = f.node.args
        for arg in a.posonlyargs + a.args + a.kwonlyargs:
            if arg.annotation is not None and lf.node.name in ast.unparse(arg.annotation):
                node_params.add(arg.arg)
        foreign_params = set(f.params) - node_params - {f.self_name}
        bad = []
        stores = 0
        for t, v, st in iter_stores(f.node):
            if not (isinstance(t, ast.Attribute) and t.attr in lf.link_fields) or v is None:
                continue
            stores += 1
            root = v
            while isinstance(root, (ast.Attribute, ast.Subscript)):
                root = root.value
            if isinstance(root, ast.Name) and root.id in foreign_params and isinstance(v, ast.Attribute):
                bad.append((st.lineno, f"`{src(t)} = {src(v)}` links in a node reached from the parameter `{root.id}`"))
        if not stores:
            continue
        rep.fn(f)
        if bad:
            rep.viol("C08.R6", f, f"provenance:{name}", bad[0][1] + ": the nodes now belong to two lists",
                     scenario="a.extend(b): b.head.prev_node is no longer None, b.append(x) shows up in a without changing len(a), "
                              "a.pop_back() truncates b", line=bad[0][0])
        else:
            n_ok += 1
            rep.ok("C08.R6", f, f"provenance:{name}", f"{stores} link stores, none from a foreign parameter")
