"""C19 — generic sequence helpers (DESIGN.md §6: two clauses only — Batcher iteration idiom, numeral tables)."""
from __future__ import annotations

import ast
from typing import Dict, List, Optional, Tuple

from ..model import AnalysisError, Func, Program, walk_own
from ..report import Report
from ..resolve import const_value, dotted
from ..util import iter_stores, returns_of, src
from .oneshot import check_oneshot
from .c01 import batcher_idiom

GENERIC_MOD = "windpyutils.generic"
STANDARD = [(1000, "M"), (900, "CM"), (500, "D"), (400, "CD"), (100, "C"), (90, "XC"), (50, "L"), (40, "XL"), (10, "X"),
            (9, "IX"), (5, "V"), (4, "IV"), (1, "I")]
STANDARD_SYMBOLS = {"I": 1, "V": 5, "X": 10, "L": 50, "C": 100, "D": 500, "M": 1000}


def run(prog: Program, rep: Report):
    rep.rule("C19.R1", "BatcherIter iteration idiom (C01.R8): every element appended once, full batch yielded then replaced by a "
             "fresh container, non-empty remainder yielded, tuple input advanced in lock-step by one zip", floor=2)
    bi = prog.cls("BatcherIter", GENERIC_MOD)
    rep.attempt(lambda: batcher_idiom(prog, rep, "C19.R1", bi))
    f = prog.method_view(bi, "__iter__")
    top = [s for s in f.node.body if isinstance(s, ast.If)]
    if top:
        loops = [s for s in top[0].body if isinstance(s, ast.For)]
        ok = len(loops) == 1 and isinstance(loops[0].iter, ast.Call) and src(loops[0].iter.func) == "zip" \
            and len(loops[0].iter.args) == 1 and isinstance(loops[0].iter.args[0], ast.Starred) \
            and src(loops[0].iter.args[0].value) == f"{f.self_name}.data"
        rep.check("C19.R1", f, "lock-step", ok, "tuple input advanced by one zip(*self.data)",
                  "the tuple-input branch does not advance all sequences in lock-step with a single zip(*self.data)",
                  scenario="BatcherIter(([1,2,3], 'abc'), 2) must yield ([1,2], ['a','b']) then ([3], ['c'])")
        test = top[0].test
        direct = isinstance(test, ast.Call) and src(test.func) == "isinstance" and len(test.args) == 2
        cached = None
        init0 = bi.methods.get("__init__")
        if not direct and init0 is not None and dotted(test) and len(dotted(test)) == 2 and dotted(test)[0] == f.self_name:
            # the dispatch may be computed once in the constructor: self.<flag> = isinstance(<the parameter stored as self.data>, tuple)
            data_params = {src(v) for t, v, _ in iter_stores(init0.node) if dotted(t) == (init0.self_name, "data") and v is not None}
            for t, v, _ in iter_stores(init0.node):
                if dotted(t) == (init0.self_name, dotted(test)[1]) and isinstance(v, ast.Call) and src(v.func) == "isinstance" and len(v.args) == 2:
                    cached = src(v.args[0]) in data_params | {f"{init0.self_name}.data"} and src(v.args[1]) == "tuple"
        if direct:
            rep.check("C19.R1", f, "dispatch", src(test.args[0]) == f"{f.self_name}.data" and src(test.args[1]) == "tuple",
                      "dispatch on isinstance(self.data, tuple)", "the tuple/single dispatch is not isinstance(self.data, tuple)",
                      scenario="a single list input is batched element-wise as if it were a tuple of sequences")
        elif cached is not None:
            rep.check("C19.R1", f, "dispatch", cached, "dispatch on a flag the constructor computes as isinstance(<data>, tuple)",
                      f"the dispatch flag `{src(test)}` is not isinstance(<data>, tuple)",
                      scenario="a single list input is batched element-wise as if it were a tuple of sequences")
        else:
            rep.unrec("C19.R1", f, "dispatch", f"cannot tell what the dispatch test `{src(test)}` distinguishes")
    init = bi.methods.get("__init__")
    if init is not None:
        # the input is kept as given: an iterator made in the constructor (iter(x), a generator expression, map ...) can be walked
        # once, so the second pass over the same BatcherIter would be empty
        dstores = [(t, v, st) for t, v, st in iter_stores(init.node) if dotted(t) == (init.self_name, "data") and v is not None]
        wrapped = [v for _, v, _ in dstores if not (isinstance(v, ast.Name) and v.id in init.params)]
        one_shot = [v for v in wrapped if any((isinstance(x, ast.Call) and src(x.func) in ("iter", "map", "filter", "zip", "enumerate", "reversed"))
                                              or isinstance(x, ast.GeneratorExp) for x in ast.walk(v))]
        if one_shot:
            rep.viol("C19.R1", init, "data-as-given", f"the constructor stores `{src(one_shot[0])[:80]}`: an iterator made once, so only the "
                     "first pass over the object sees the data",
                     scenario="it = BatcherIter([1, 2, 3], 2); list(it) == [[1, 2], [3]]; list(it) == [] (and a pass after an "
                              "abandoned one resumes mid-stream)", line=one_shot[0].lineno)
        elif wrapped:
            rep.unrec("C19.R1", init, "data-as-given", f"the constructor stores `{src(wrapped[0])[:80]}` instead of the input itself")
        elif dstores:
            rep.ok("C19.R1", init, "data-as-given", "self.data is the constructor's argument itself (re-iterable when the caller's input is)")
        rep.fn(init)
        from ..orderings import NotAFormula, eval_order, weak_orderings
        size_p = init.params[2]
        ok = False
        for n in walk_own(init.node):
            if isinstance(n, ast.If) and any(isinstance(x, ast.Raise) for x in n.body) \
                    and any(isinstance(x, ast.Name) and x.id == size_p for x in ast.walk(n.test)):
                def term(x):
                    if const_value(x, None) == 0:
                        return env["zero"]
                    if const_value(x, None) == 1:
                        return env["one"]
                    return None
                try:
                    W = [w for w in weak_orderings([size_p, "zero", "one"]) if w["zero"] < w["one"]
                         and not (w["zero"] < w[size_p] < w["one"])]
                    ok = True
                    for env in W:
                        if eval_order(n.test, env, term) != (env[size_p] <= env["zero"]):
                            ok = False
                except NotAFormula:
                    ok = False
        rep.check("C19.R1", init, "size-validated", ok, "batch_size <= 0 is rejected (the idiom relies on sizes >= 1)",
                  "batch_size is not validated to be positive: with size 0 no batch is ever closed",
                  scenario="BatcherIter(data, 0) yields one unbounded batch instead of raising ValueError")
    rep.attempt(lambda: r2_numerals(prog, rep))
    rep.attempt(lambda: r3_arg_sort(prog, rep))
    rep.attempt(lambda: r4_window_scan(prog, rep))
    rep.attempt(lambda: r5_multiset(prog, rep))
    rep.attempt(lambda: r6_batcher(prog, rep))
    from .mixins import rule_fresh_iterator
    rep.attempt(lambda: rule_fresh_iterator(prog, rep, "C19.R7", [prog.cls("Batcher", GENERIC_MOD), bi]))
    from .purity import rule_history_free
    pure = [prog.func(n, GENERIC_MOD) for n in ("int_2_roman", "roman_2_int", "arg_sort", "sub_seq", "search_sub_seq",
                                                "compare_pos_in_iterables")]
    pure += [prog.method_raw(prog.cls("Batcher", GENERIC_MOD), m) for m in ("__len__", "__getitem__")] + [prog.method_raw(bi, "__iter__")]
    rep.attempt(lambda: rule_history_free(prog, rep, "C19.R8", pure))
    from .oneshot import oneshot_field_rule
    rep.attempt(lambda: oneshot_field_rule(prog, rep, "C19.R9", bi))


def r2_numerals(prog: Program, rep: Report):
    rep.rule("C19.R2", "numeral tables agree: each (value, numeral) of int_2_roman's greedy table evaluates to its value under "
             "roman_2_int's symbol table and subtractive rule; the greedy table is the strictly descending standard 13-entry "
             "table; the reader's table is the standard 7 symbols", floor=3)
    w = prog.func("int_2_roman", GENERIC_MOD)
    r = prog.func("roman_2_int", GENERIC_MOD)
    rep.fn(w, r)
    table = None
    # the literal may live in the function or in a module-level constant the function names
    roots = [w.node]
    used = {n.id for n in ast.walk(w.node) if isinstance(n, ast.Name)}
    for st in w.mod.tree.body:
        if isinstance(st, ast.Assign) and len(st.targets) == 1 and isinstance(st.targets[0], ast.Name) and st.targets[0].id in used:
            roots.append(st.value)
        elif isinstance(st, ast.AnnAssign) and isinstance(st.target, ast.Name) and st.target.id in used and st.value is not None:
            roots.append(st.value)
    for st in w.mod.tree.body:             # ... or in a private module-level helper the function delegates to
        if isinstance(st, (ast.FunctionDef, ast.AsyncFunctionDef)) and st.name in used and st.name.startswith("_"):
            roots.append(st)
            for st2 in w.mod.tree.body:
                if isinstance(st2, ast.Assign) and len(st2.targets) == 1 and isinstance(st2.targets[0], ast.Name) \
                        and st2.targets[0].id in {n.id for n in ast.walk(st) if isinstance(n, ast.Name)}:
                    roots.append(st2.value)
    for n in (x for root in roots for x in ast.walk(root)):
        if isinstance(n, (ast.List, ast.Tuple)) and len(n.elts) >= 5 and all(isinstance(e, ast.Tuple) and len(e.elts) == 2 for e in n.elts):
            vals = [(const_value(e.elts[0]), const_value(e.elts[1])) for e in n.elts]
            if all(isinstance(a, int) and isinstance(b, str) for a, b in vals):
                table = vals
            elif all(isinstance(a, str) and isinstance(b, int) for a, b in vals):
                table = [(b, a) for a, b in vals]
    symbols = None
    r_roots = [r.node]
    r_used = {n.id for n in ast.walk(r.node) if isinstance(n, ast.Name)}
    for st in r.mod.tree.body:             # the symbol table may be a module-level constant the reader names
        if isinstance(st, ast.Assign) and len(st.targets) == 1 and isinstance(st.targets[0], ast.Name) and st.targets[0].id in r_used:
            r_roots.append(st.value)
        elif isinstance(st, ast.AnnAssign) and isinstance(st.target, ast.Name) and st.target.id in r_used and st.value is not None:
            r_roots.append(st.value)
    for n in (x for root in r_roots for x in ast.walk(root)):
        if isinstance(n, ast.Dict) and n.keys and all(isinstance(const_value(k), str) for k in n.keys):
            symbols = {const_value(k): const_value(v) for k, v in zip(n.keys, n.values)}
    if table is None or symbols is None:
        rep.unrec("C19.R2", w, "tables", "literal numeral tables not found")
        return
    rep.count("table_entries", len(table) + len(symbols))
    rep.check("C19.R2", r, "symbols", symbols == STANDARD_SYMBOLS, "reader's table is I V X L C D M = 1 5 10 50 100 500 1000",
              f"reader's symbol table {symbols} is not the standard one",
              scenario="roman_2_int('XL') != 40")

    def reader_value(s: str) -> Optional[int]:
        try:
            c = [symbols[x] for x in s]
        except KeyError:
            return None
        return sum(-x if i < len(c) - 1 and x < c[i + 1] else x for i, x in enumerate(c))

    bad = [(v, s, reader_value(s)) for v, s in table if reader_value(s) != v]
    rep.check("C19.R2", w, "agreement", not bad, f"all {len(table)} numerals evaluate to their paired value under the reader's table",
              f"numeral/value pairs the reader evaluates differently: {bad}", witness=bad,
              scenario=f"int_2_roman({bad[0][0] if bad else 0}) is not read back by roman_2_int")
    desc = all(table[i][0] > table[i + 1][0] for i in range(len(table) - 1))
    rep.check("C19.R2", w, "greedy-table", desc and table == STANDARD,
              "strictly descending standard 13-entry table",
              f"the greedy table is not the strictly descending standard table: {table}",
              scenario="a missing subtractive entry (e.g. 900 'CM') makes int_2_roman(900) = 'DCCCC', which is not canonical")
    # reader's subtractive rule: -x when a smaller value precedes a larger one
    rule_ok = None
    for n in ast.walk(r.node):
        if isinstance(n, ast.IfExp) and isinstance(n.body, ast.UnaryOp) and isinstance(n.body.op, ast.USub):
            t = src(n.test)
            rule_ok = "<" in t and "+ 1]" in t and src(n.body.operand) == src(n.orelse)
            # the right neighbour may come from zip(values, values[1:] + [<filler>]) instead of an index
            if not rule_ok and isinstance(n.test, ast.Compare) and len(n.test.ops) == 1 and isinstance(n.test.ops[0], ast.Lt) \
                    and src(n.test.left) == src(n.body.operand) == src(n.orelse) and isinstance(n.test.comparators[0], ast.Name):
                nxt = n.test.comparators[0].id
                for z in ast.walk(r.node):
                    if isinstance(z, ast.comprehension) and isinstance(z.target, ast.Tuple) and len(z.target.elts) == 2 \
                            and src(z.target.elts[0]) == src(n.orelse) and src(z.target.elts[1]) == nxt \
                            and isinstance(z.iter, ast.Call) and src(z.iter.func) == "zip" and len(z.iter.args) == 2:
                        a0, a1 = z.iter.args
                        if isinstance(a1, ast.BinOp) and isinstance(a1.op, ast.Add) and src(a1.left) == f"{src(a0)}[1:]" \
                                and isinstance(a1.right, ast.List) and len(a1.right.elts) == 1 and const_value(a1.right.elts[0]) == 0:
                            rule_ok = True
    if rule_ok is False:
        # the right-to-left scan: for x in reversed(values): total += -x if x < following else x; following = x   (following = 0 first)
        for n in ast.walk(r.node):
            if isinstance(n, ast.IfExp) and isinstance(n.body, ast.UnaryOp) and isinstance(n.body.op, ast.USub) \
                    and isinstance(n.test, ast.Compare) and len(n.test.ops) == 1 and isinstance(n.test.ops[0], ast.Lt) \
                    and src(n.test.left) == src(n.body.operand) == src(n.orelse) and isinstance(n.test.comparators[0], ast.Name):
                x_, fol = src(n.orelse), n.test.comparators[0].id
                lp = getattr(n, "_parent", None)
                while lp is not None and not isinstance(lp, ast.For):
                    lp = getattr(lp, "_parent", None)
                if lp is not None and isinstance(lp.iter, ast.Call) and src(lp.iter.func) == "reversed" and src(lp.target) == x_:
                    sets = [a for a in ast.walk(r.node) if isinstance(a, ast.Assign) and len(a.targets) == 1 and src(a.targets[0]) == fol]
                    inside = [a for a in sets if any(a is y for y in ast.walk(lp))]
                    outside = [a for a in sets if a not in inside]
                    if len(inside) == 1 and src(inside[0].value) == x_ and inside[0] is lp.body[-1] \
                            and len(outside) == 1 and const_value(outside[0].value, None) == 0:
                        rule_ok = True
                    else:
                        rule_ok = None
                elif "+ 1]" not in src(n.test):
                    rule_ok = None          # some other way of looking at the neighbour: not read
    if rule_ok is None:
        rep.unrec("C19.R2", r, "subtractive-rule", "no conditional negation of a symbol's value found in the reader")
    else:
        rep.check("C19.R2", r, "subtractive-rule", rule_ok, "a symbol is subtracted iff it is smaller than its right neighbour",
                  "the reader's subtractive rule is not `-x if x < next else x`",
                  scenario="roman_2_int('IV') == 6")
    # writer: greedy divmod over the table, concatenated in table order
    dm = [n for n in ast.walk(w.node) if isinstance(n, ast.Call) and src(n.func) == "divmod"]
    join = [n for n in ast.walk(w.node) if isinstance(n, ast.Call) and isinstance(n.func, ast.Attribute) and n.func.attr == "join"]
    if not dm and not join:
        # the conversion may live in a private module-level helper the function delegates to (behind a cache, a type check ...)
        for st in w.mod.tree.body:
            if isinstance(st, (ast.FunctionDef, ast.AsyncFunctionDef)) and st.name in used and st.name.startswith("_"):
                dm += [n for n in ast.walk(st) if isinstance(n, ast.Call) and src(n.func) == "divmod"]
                join += [n for n in ast.walk(st) if isinstance(n, ast.Call) and isinstance(n.func, ast.Attribute) and n.func.attr == "join"]
    ok = len(dm) == 1 and len(join) == 1 and const_value(join[0].func.value) == ""
    if not dm and not join:
        rep.unrec("C19.R2", w, "greedy-loop", "how int_2_roman walks its table was not found (no divmod / join in it or in a private helper it names)")
    else:
      rep.check("C19.R2", w, "greedy-loop", ok, "divmod over the table entries, pieces joined in table order",
                "int_2_roman is not a greedy divmod over the table joined in order",
                scenario="numerals are emitted in the wrong order or with wrong multiplicities")


def r3_arg_sort(prog: Program, rep: Report, rule: str = "C19.R3"):
    from ..flow import Flow
    rep.rule(rule, "arg_sort by delegation: it returns sorted(range(len(elements)), key=<elements[i]>, reverse=<the parameter>) "
             "unmodified, so stability in both directions is the documented behaviour of sorted(); the keys compared are the "
             "elements themselves (a typed copy such as array('d', elements) compares converted values); reversing an ascending "
             "stable sort is recognisably wrong (ties come out in reverse index order)", floor=1)
    f = prog.func("arg_sort", GENERIC_MOD)
    rep.fn(f)
    el, rev = f.params[0], f.params[1]
    rets = returns_of(f.node)
    ok = False
    keyed_on = None
    if len(rets) == 1 and isinstance(rets[0].value, ast.Call) and src(rets[0].value.func) == "sorted":
        c = rets[0].value
        key = next((k.value for k in c.keywords if k.arg == "key"), None)
        r = next((k.value for k in c.keywords if k.arg == "reverse"), None)
        if isinstance(key, ast.Lambda) and isinstance(key.body, ast.Subscript) and isinstance(key.body.value, ast.Name) \
                and key.args.args and src(key.body.slice) == key.args.args[0].arg:
            keyed_on = key.body.value
        elif isinstance(key, ast.Attribute) and key.attr == "__getitem__" and isinstance(key.value, ast.Name):
            keyed_on = key.value
        rng_ok = len(c.args) == 1 and isinstance(c.args[0], ast.Call) and src(c.args[0].func) == "range" and len(c.args[0].args) == 1 \
            and isinstance(c.args[0].args[0], ast.Call) and src(c.args[0].args[0].func) == "len" \
            and src(c.args[0].args[0].args[0]) in (el, keyed_on.id if keyed_on is not None else el)
        ok = rng_ok and keyed_on is not None and keyed_on.id == el and r is not None and src(r) == rev
        if rng_ok and keyed_on is not None and keyed_on.id != el and r is not None and src(r) == rev:
            # the keys are read from a local: what is it?
            flow = Flow(f.node)
            convs = []
            plain = True
            for d in flow.defs_of(keyed_on):
                v = d.value
                if isinstance(v, ast.Name) and v.id == el:
                    continue
                plain = False
                if isinstance(v, ast.Call) and any(isinstance(x, ast.Name) and x.id == el for x in ast.walk(v)):
                    name = src(v.func)
                    if name.split(".")[-1] in ("array", "asarray", "fromiter", "float", "int", "str") or \
                            (name in ("list", "tuple") and v.args and isinstance(v.args[0], ast.Call) and src(v.args[0].func) == "map"):
                        convs.append(v)
                    elif name in ("list", "tuple") and len(v.args) == 1 and src(v.args[0]) == el:
                        continue            # a plain copy keeps the elements
                    else:
                        convs.append(None)
            if convs and all(x is not None for x in convs):
                rep.viol(rule, f, "delegates", f"the keys are read from `{src(convs[0])}`, a converted copy of the elements: values "
                         "that differ only beyond the precision / domain of the conversion compare equal",
                         scenario="arg_sort([2**53 + 1, 2**53]) returns [0, 1]: SortedMap([(2**53 + 1, 'a'), (2**53, 'b')]) iterates "
                                  "descending", line=convs[0].lineno)
                return
            if plain or not convs:
                ok = True
    if not ok:
        # the same question on symbolic values: named key functions, a named range, locals in between do not matter
        from ..paths import strip_versions, summaries
        ps_, un_ = summaries(prog, f, None)
        E = ("p", el)
        want = ("call", "sorted", (("call", "range", (("call", "len", (E,)),)),
                                   ("key", ("lambda", 1, ("sub", E, ("arg", 0)))), ("reverse", ("p", rev))))
        alt = ("call", "sorted", (("call", "range", (("call", "len", (E,)),)),
                                  ("key", ("attr", E, "__getitem__")), ("reverse", ("p", rev))))

        def canon(t):
            t = strip_versions(t)
            if isinstance(t, tuple) and t[0] == "call" and t[1] == "sorted":
                pos = tuple(a for a in t[2] if not (isinstance(a, tuple) and len(a) == 2 and isinstance(a[0], str) and a[0] in ("key", "reverse")))
                kws = tuple(sorted((a for a in t[2] if isinstance(a, tuple) and len(a) == 2 and isinstance(a[0], str) and a[0] in ("key", "reverse")),
                                   key=lambda a: a[0]))
                return ("call", "sorted", pos + kws)
            return t
        rets_ = [p_ for p_ in ps_ if p_.exit == "return"]
        if not un_ and rets_ and all(canon(p_.value) in (want, alt) for p_ in rets_) and not any(e[0] == "call" and e[1] not in ("sorted", "range", "len")
                                                                                               for p_ in rets_ for e in p_.events):
            ok = True
    if ok:
        rep.ok(rule, f, "delegates", f"sorted(range(len({el})), key={el}[i], reverse={rev})")
        return
    reversal = [n for n in ast.walk(f.node) if (isinstance(n, ast.Call) and ((isinstance(n.func, ast.Attribute) and n.func.attr == "reverse")
                                                                            or src(n.func) == "reversed"))
                or (isinstance(n, ast.Subscript) and isinstance(n.slice, ast.Slice) and n.slice.step is not None
                    and const_value(n.slice.step) == -1)]
    passes_rev = any(isinstance(n, ast.keyword) and n.arg == "reverse" and src(n.value) == rev for n in ast.walk(f.node))
    if reversal and not passes_rev:
        rep.viol(rule, f, "delegates", f"`{src(reversal[0])}` reverses an ascending stable sort instead of passing reverse= to "
                 f"sorted(): equal keys come out in descending index order, which is not the stable descending permutation",
                 scenario="arg_sort([1, 1, 2], reverse=True) returns [2, 1, 0] instead of [2, 0, 1]", line=reversal[0].lineno)
    else:
        rep.unrec(rule, f, "delegates", "arg_sort is not the plain delegation to sorted(range(n), key=..., reverse=reverse)")


def _window_guard_counterexample(f: Func, s1: str, s2: str, expanded):
    """a top-level `if T: return <empty / False>` (no else) ahead of the scan whose test holds for some 1 <= len(s1) <= len(s2) <= 4:
    (the if, len1, len2), else None.  Tests that are not arithmetic over the two lengths are skipped."""
    from .cachefam import _eval_small

    class _Len(ast.NodeTransformer):
        def __init__(self, a, b):
            self.a, self.b = a, b

        def visit_Call(self, n):
            if isinstance(n.func, ast.Name) and n.func.id == "len" and len(n.args) == 1 and isinstance(n.args[0], ast.Name):
                if n.args[0].id == s1:
                    return ast.copy_location(ast.Constant(value=self.a), n)
                if n.args[0].id == s2:
                    return ast.copy_location(ast.Constant(value=self.b), n)
            return self.generic_visit(n)
    for st in f.node.body:
        if isinstance(st, (ast.For, ast.While)):
            break
        if not (isinstance(st, ast.If) and not st.orelse and st.body and isinstance(st.body[-1], ast.Return)):
            continue
        rv = st.body[-1].value
        empty = rv is None or (isinstance(rv, (ast.List, ast.Tuple)) and not rv.elts) or (isinstance(rv, ast.Constant) and rv.value in (False, None))
        if not empty:
            continue
        t = expanded(st.test)
        for a in (1, 2, 3, 4):
            for b in range(a, 5):
                t2 = _Len(a, b).visit(ast.parse(src(t), mode="eval").body)
                v = _eval_small(t2, {})
                if v is None:
                    break
                if v:
                    return st, a, b
    return None


def r4_window_scan(prog: Program, rep: Report):
    rep.rule("C19.R4", "window scans examine every offset: sub_seq and search_sub_seq compare s1 with the window of s2 at every "
             "offset 0 .. len(s2)-len(s1) (step 1, no early exit in the reporting variant)", floor=2)
    for name in ("sub_seq", "search_sub_seq"):
        f = prog.func(name, GENERIC_MOD)
        rep.fn(f)
        s1, s2 = f.params[0], f.params[1]
        want = f"range(0, len({s2}) - len({s1}) + 1)"
        alt = f"range(len({s2}) - len({s1}) + 1)"
        iters = [n.iter for n in ast.walk(f.node) if isinstance(n, (ast.For, ast.comprehension))]
        from ..flow import Flow
        wflow = Flow(f.node)

        from ..util import expand_all

        def expanded(e):
            """``e`` with locals that merely name a length / a window count replaced by what they stand for"""
            return expand_all(e, wflow, keep=(s1, s2))
        full = [it for it in iters if src(expanded(it)) in (want, alt)]
        whiles = [n for n in ast.walk(f.node) if isinstance(n, ast.While)]
        # guard clauses in front of the scan: a `return` of "nothing found" taken for lengths 1 <= len(s1) <= len(s2) skips the scan for
        # inputs that have a window (the guards are evaluated for all small pairs of lengths, named intermediate values expanded)
        bad_guard = _window_guard_counterexample(f, s1, s2, expanded)
        if bad_guard is not None:
            g_, a_, b_ = bad_guard
            rep.viol("C19.R4", f, "every-offset", f"the guard `{src(g_.test)}` returns before the scan for len({s1}) = {a_}, len({s2}) = {b_}: "
                     f"the window at offset 0 .. {b_ - a_} is never compared",
                     scenario=f"{name}(['a'], ['a']) reports no occurrence although the sequences are equal", line=g_.lineno)
            continue
        if full and not whiles:
            cmp_ok = any(isinstance(n, ast.Compare) and len(n.ops) == 1 and isinstance(n.ops[0], ast.Eq)
                         and {src(n.left).split("[")[0], src(n.comparators[0]).split("[")[0]} == {s1, s2} for n in ast.walk(f.node))
            early = name == "search_sub_seq" and any(isinstance(n, (ast.Break,)) for n in ast.walk(f.node))
            rep.check("C19.R4", f, "every-offset", cmp_ok and not early, f"for every offset in {src(full[0])}: s1 == window",
                      "the scan over all offsets does not compare s1 with the window at each offset (or leaves early)",
                      scenario="an occurrence at some offset is not reported")
            continue
        # a hand-written stride: advancing by more than one position after a match skips overlapping occurrences
        jumps = []
        for w in whiles:
            for n in ast.walk(w):
                if isinstance(n, ast.AugAssign) and isinstance(n.op, ast.Add) and const_value(n.value, None) != 1:
                    jumps.append(n)
        if jumps:
            rep.viol("C19.R4", f, "every-offset", f"`{src(jumps[0])}` advances the scan by a data-dependent stride: offsets are "
                     f"skipped, so overlapping occurrences (any pattern with a proper border, e.g. 1,2,1,2) are not all reported",
                     scenario="search_sub_seq([1,2,1,2], [1,2,1,2,1,2]) returns [(0, 4)] instead of [(0, 4), (2, 6)]", line=jumps[0].lineno)
        else:
            rep.unrec("C19.R4", f, "every-offset", "the scan is not the plain loop over all offsets")


def r5_multiset(prog: Program, rep: Report):
    rep.rule("C19.R5", "compare_pos_in_iterables compares multisets: the recognised shapes are the remove-loop over a list copy "
             "(False on ValueError, True iff nothing is left) and Counter equality; a comparison through set() ignores "
             "multiplicities; the inputs (Iterable: possibly generators) are traversed at most once on every path and the caller's "
             "objects are not modified", floor=3)
    f = prog.func("compare_pos_in_iterables", GENERIC_MOD)
    rep.fn(f)
    a, b = f.params[0], f.params[1]
    sets = [n for n in ast.walk(f.node) if isinstance(n, ast.Call) and src(n.func) in ("set", "frozenset") and n.args
            and any(isinstance(x, ast.Name) and x.id in (a, b) for x in ast.walk(n.args[0]))]
    if sets:
        rep.viol("C19.R5", f, "multiset", f"`{src(sets[0])}` compares the inputs as sets: equal supports with different multiplicities "
                 f"are reported equal", scenario="compare_pos_in_iterables([1, 1, 2], [1, 2, 2]) returns True", line=sets[0].lineno)
        return
    removes = [n for n in ast.walk(f.node) if isinstance(n, ast.Call) and isinstance(n.func, ast.Attribute) and n.func.attr == "remove"]
    handler = any(isinstance(n, ast.ExceptHandler) and n.type is not None and src(n.type) == "ValueError"
                  and any(isinstance(r, ast.Return) and const_value(r.value) is False for r in ast.walk(n)) for n in ast.walk(f.node))
    final = any((isinstance(r.value, ast.Compare) and "len(" in src(r.value) and const_value(r.value.comparators[0]) == 0)
                or (isinstance(r.value, ast.UnaryOp) and isinstance(r.value.op, ast.Not) and isinstance(r.value.operand, ast.Name)
                    and any(isinstance(c_.func.value, ast.Name) and c_.func.value.id == r.value.operand.id for c_ in removes))
                for r in returns_of(f.node) if r.value is not None)
    counter = any(isinstance(n, ast.Call) and src(n.func).endswith("Counter") for n in ast.walk(f.node))
    other_returns = [r for r in returns_of(f.node) if r.value is not None and const_value(r.value) is not False
                     and not (isinstance(r.value, ast.Compare) and "len(" in src(r.value))
                     and not (isinstance(r.value, ast.UnaryOp) and isinstance(r.value.op, ast.Not))
                     and not (isinstance(r.value, ast.Compare) and any("Counter" in src(x) for x in ast.walk(r.value)))]
    if other_returns and not counter:
        rep.unrec("C19.R5", f, "multiset", f"a result is also produced by `{src(other_returns[0])}`, which is not part of the recognised "
                  "remove-loop / Counter idioms", line=other_returns[0].lineno)
    elif (len(removes) == 1 and handler and final) or counter:
        rep.ok("C19.R5", f, "multiset", "remove-loop over a list copy / Counter equality")
    else:
        rep.unrec("C19.R5", f, "multiset", "multiset comparison idiom not recognised")
    # the multiset is taken apart in a private copy: the list that .remove() works on is never the caller's object
    from ..flow import Flow
    flow = Flow(f.node)
    shared = []
    for c_ in removes:
        recv = c_.func.value
        if isinstance(recv, ast.Name):
            for d_ in flow.defs_of(recv):
                if d_.kind == "param":
                    shared.append(c_)
    rep.check("C19.R5", f, "private-copy", bool(removes) and not shared or counter, "elements are removed from a private copy of the second input",
              f"`{src(shared[0]) if shared else ''}` can run on the caller's own list (a path skips the copy): the argument is emptied",
              scenario="b = [1, 2]; compare_pos_in_iterables([1, 2], b) is True and leaves b == []: the next comparison with b is wrong",
              line=shared[0].lineno if shared else None)
    check_oneshot(prog, rep, "C19.R5", f, role="one-shot",
                  scenario="compare_pos_in_iterables(iter([0, 'a']), [0, 'a']) is False and compare_pos_in_iterables(iter([0, 'a']), []) is True")


def r6_batcher(prog: Program, rep: Report):
    rep.rule("C19.R6", "Batcher: __len__ is ceil(n / batch_size) with n the *current* length of the wrapped data (no count cached at "
             "construction: data is a public attribute and the sequences may change); __getitem__ raises IndexError exactly for "
             "item >= len(self) (orderings) and returns the slice [item*batch_size : item*batch_size + batch_size] of the data "
             "(every sequence of a tuple)", floor=3)
    from ..flow import Flow
    from ..orderings import NotAFormula, eval_order, weak_orderings
    from .c15 import _linear, _norm_lin
    bc = prog.cls("Batcher", GENERIC_MOD)
    ln = prog.method(bc, "__len__")
    gi = prog.method(bc, "__getitem__")
    rep.fn(ln, gi)
    me = ln.self_name
    # ---- __len__
    flow = Flow(ln.node)
    rets = [r for r in returns_of(ln.node) if r.value is not None]
    fields = {dotted(n)[1] for n in ast.walk(ln.node) if isinstance(n, ast.Attribute) and dotted(n) and len(dotted(n)) == 2 and dotted(n)[0] == me}
    init = prog.method(bc, "__init__")
    param_fields = {dotted(t)[1]: v.id for t, v, _ in iter_stores(init.node)
                    if dotted(t) and len(dotted(t)) == 2 and dotted(t)[0] == init.self_name and isinstance(v, ast.Name) and v.id in init.params}
    data_f = next((k for k, v in param_fields.items() if v == init.params[1]), None)
    size_f = next((k for k, v in param_fields.items() if v == init.params[2]), None)
    if data_f is None or size_f is None or len(rets) != 1:
        rep.unrec("C19.R6", ln, "len", "constructor does not store (data, batch_size) in two fields / __len__ has not one return")
        return
    cached = sorted(fields - {data_f, size_f})
    called = sorted(x for x in cached if prog.resolve(bc, x) is not None and not prog.resolve(bc, x).is_property)
    if called:
        # a helper method that was not inlined (several returns): what it computes is not in view here
        rep.unrec("C19.R6", ln, "len", f"__len__ delegates to self.{called[0]}(), which this rule does not see through")
    elif cached:
        rep.viol("C19.R6", ln, "len", f"__len__ reads self.{cached[0]}, a value computed outside __len__ (at construction), instead of the "
                 f"current length of self.{data_f}",
                 scenario="b = Batcher(lst, 2); lst.append(x): len(b) is stale, the new tail is unreachable (IndexError) and iteration "
                          "drops it; after lst.pop() trailing empty batches are returned instead of IndexError")
    else:
        v = rets[0].value
        n_expr = None
        form = None
        if isinstance(v, ast.Call) and (src(v.func) in ("math.ceil", "ceil")) and len(v.args) == 1 and isinstance(v.args[0], ast.BinOp) \
                and isinstance(v.args[0].op, ast.Div) and src(v.args[0].right) == f"{me}.{size_f}":
            n_expr, form = v.args[0].left, "math.ceil(n / batch_size)"
        elif isinstance(v, ast.BinOp) and isinstance(v.op, ast.FloorDiv) and src(v.right) == f"{me}.{size_f}" and isinstance(v.left, ast.BinOp):
            lin = _linear(v.left, lambda x: "bs" if src(x) == f"{me}.{size_f}" else ("n" if not isinstance(x, ast.Constant) else None))
            if lin is not None and _norm_lin(lin) == {"n": 1, "bs": 1, "1": -1}:
                n_expr, form = "linear", "(n + batch_size - 1) // batch_size"
        floorish = (isinstance(v, ast.Call) and src(v.func) in ("math.floor", "floor", "int", "round") and len(v.args) == 1
                    and isinstance(v.args[0], ast.BinOp) and isinstance(v.args[0].op, ast.Div)) or \
            (isinstance(v, ast.BinOp) and isinstance(v.op, ast.FloorDiv) and not isinstance(v.left, ast.BinOp))
        if n_expr is None and floorish:
            rep.viol("C19.R6", ln, "len", f"`{src(v)}` rounds the number of batches down (or to nearest): the shorter last batch is not counted",
                     scenario="len(Batcher([1,2,3], 2)) == 1, so b[1] raises IndexError and [3] is lost")
        elif n_expr is None:
            rep.unrec("C19.R6", ln, "len", f"`{src(v)}` is not a recognised ceiling division of the sample count by self.{size_f}")
        else:
            ne = flow.expand(n_expr) if isinstance(n_expr, ast.AST) else None
            txt = src(ne) if ne is not None else ""
            want = {f"len({me}.{data_f}[0]) if isinstance({me}.{data_f}, tuple) else len({me}.{data_f})",
                    f"len({me}.{data_f}) if not isinstance({me}.{data_f}, tuple) else len({me}.{data_f}[0])"}
            ok = form.startswith("(n") or txt in want
            rep.check("C19.R6", ln, "len", ok, f"{form} with n = {txt or 'the sample count'}",
                      f"the sample count `{txt}` is not len(data[0]) for a tuple of sequences / len(data) otherwise",
                      scenario="len(Batcher(([1,2,3],[4,5,6]), 2)) must be 2, not ceil(2/2)")
    # ---- __getitem__
    item = gi.params[1]
    me = gi.self_name
    guards = [n for n in gi.node.body if isinstance(n, ast.If) and any(isinstance(x, ast.Raise) for x in n.body)]
    if len(guards) != 1:
        rep.unrec("C19.R6", gi, "index-guard", "expected one raising guard in __getitem__")
    else:
        g = guards[0]

        def term(x):
            if src(x) == f"len({me})":
                return env["len"]
            return None
        try:
            bad = []
            for env in weak_orderings([item, "len"]):
                if eval_order(g.test, env, term) != (env[item] >= env["len"]):
                    bad.append(env)
            raises_ie = any(isinstance(x, ast.Raise) and x.exc is not None and "IndexError" in src(x.exc) for x in g.body)
            rep.check("C19.R6", gi, "index-guard", not bad and raises_ie, f"`{src(g.test)}` raises IndexError exactly when item >= len(self)",
                      f"`{src(g.test)}` is not `item >= len(self)` (wrong for {bad[:1]}) or does not raise IndexError",
                      scenario="Batcher([1,2,3], 2)[2] must raise IndexError, [1] must return [3]", line=g.lineno)
        except NotAFormula as e:
            rep.unrec("C19.R6", gi, "index-guard", f"guard is not a comparison of the index with len(self): {e}")
    flow = Flow(gi.node)

    def sym(x):
        t = src(x)
        if isinstance(x, ast.BinOp) and isinstance(x.op, ast.Mult) and {src(x.left), src(x.right)} == {item, f"{me}.{size_f}"}:
            return "ib"
        if t == f"{me}.{size_f}":
            return "bs"
        return None

    def lin(e):
        def subst(x):
            if isinstance(x, ast.Name) and x.id != item:
                ex_ = flow.expand(x)
                return subst(ex_) if ex_ is not x else x
            if isinstance(x, ast.BinOp) and sym(x) is None:
                return ast.BinOp(left=subst(x.left), op=x.op, right=subst(x.right))
            return x
        return _linear(subst(e), sym)
    slices = [n for n in ast.walk(gi.node) if isinstance(n, ast.Subscript) and isinstance(n.slice, ast.Slice)]
    bad_sl = []
    for sl in slices:
        lo = lin(sl.slice.lower) if sl.slice.lower is not None else {"1": 0}
        hi = lin(sl.slice.upper) if sl.slice.upper is not None else None
        if sl.slice.step is not None or lo is None or hi is None or _norm_lin(lo) != {"ib": 1} or _norm_lin(hi) != {"ib": 1, "bs": 1}:
            bad_sl.append(sl)
    if len(slices) < 2:
        rep.unrec("C19.R6", gi, "slice", "expected a slice of the data in both arms of the tuple/single dispatch")
    else:
        rep.check("C19.R6", gi, "slice", not bad_sl, f"{len(slices)} slices [item*batch_size : item*batch_size + batch_size]",
                  f"`{src(bad_sl[0]) if bad_sl else ''}` is not the slice [item*batch_size : item*batch_size + batch_size]",
                  scenario="batches overlap or skip elements: their concatenation is not the input",
                  line=bad_sl[0].lineno if bad_sl else None)
