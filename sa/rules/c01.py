"""C01 — ordered imap returns exactly map(f, data), once each, in input order (DESIGN.md §6)."""
from __future__ import annotations

import ast
from typing import Dict, List, Optional, Set, Tuple

from ..absint import Client, Ctx, Interp
from ..flow import Flow
from ..model import AnalysisError, Cls, Func, Program, walk_own
from ..report import Report
from ..resolve import const_value, dotted
from ..util import assigned_value, calls_in, returns_of, src
from .poolfam import PoolFacts, chunking_idiom, queue_call, tag_pass_through


def run(prog: Program, rep: Report):
    _PROG[0] = prog
    from .poolfam import pool_facts
    pf = pool_facts(prog, rep, "C01.R13")
    rep.count("consumers", len(pf.consumers))
    reset_prestart = r1_raised_before_start(prog, rep, pf, "C01.R1")
    rep.attempt(lambda: r2_r3_feeder(prog, rep, pf, reset_prestart))
    rep.attempt(lambda: r4_tag(prog, rep, pf))
    rep.attempt(lambda: r5_consumer_accounting(prog, rep, pf))
    rep.attempt(lambda: r6_conservation(prog, rep, pf))
    rep.attempt(lambda: r7_buffer(prog, rep, pf))
    rep.attempt(lambda: r8_idiom(prog, rep, pf))
    rep.attempt(lambda: r9_call_local(prog, rep, pf, "C01.R9"))
    rep.attempt(lambda: r10_input_once(prog, rep, pf))
    rep.attempt(lambda: feeder_early_exits(prog, rep, pf, "C01.R11"))
    from .ownership import rule_no_class_state
    pools = [pf.pool] + [c for c in prog.classes.values() if c is not pf.pool and pf.pool in (c.mro or []) and not c.is_external]
    rep.attempt(lambda: rule_no_class_state(prog, rep, "C01.R12", pools + [pf.worker] + [k for k in [prog.maybe_cls("Buffer", "windpyutils.buffers")] if k is not None]))


# ---------------------------------------------------------------------------------------------- R1
class _PreStart(Client):
    """state = (flag raised, counter reset, feeder started)"""

    def __init__(self, pf: PoolFacts):
        self.pf = pf
        self.start_states: Set[Tuple[bool, bool]] = set()
        self.start_line = 0

    def should_inline(self, func, call, ctx):
        return func.cls is not None and (func.cls in (self.pf.feeder.mro or []))

    def event(self, kind, node, state, ctx: Ctx):
        raised, reset, started = state
        pf = self.pf
        if kind == "store" and isinstance(node, ast.Attribute):
            fld = pf.pool_field(node, ctx.func, ctx.scope.cls)
            val = assigned_value(node)
            if fld == pf.flag and not started:
                v = const_value(val, None)
                if isinstance(v, (bool, int)):
                    return ((bool(v), reset, started),)
            if fld == pf.counter and not started:
                return ((raised, True, started),)
        if kind == "call" and isinstance(node, ast.Call) and isinstance(node.func, ast.Attribute) and node.func.attr == "start" \
                and not node.args:
            t = ctx.scope.type_of(node.func.value)
            if isinstance(t, Cls) and pf.feeder in (t.mro or []):
                self.start_states.add((raised, reset))
                self.start_line = node.lineno
                return ((raised, reset, True),)
        return (state,)


def r1_raised_before_start(prog, rep: Report, pf: PoolFacts, rule: str) -> bool:
    rep.rule(rule, "raised-before-start: the flag that alone keeps the completion loop alive has, on every path, a truthy "
             "write that happens-before the consumer's first test (feeder __init__, __enter__ before start(), or the consumer "
             "before the with); Thread.start() is the only happens-before edge from consumer to feeder", floor=2)
    all_reset = True
    for f in pf.consumers:
        rep.fn(f, pf.feeder_run)
        client = _PreStart(pf)
        it = Interp(prog, client)
        it.run(f, {(False, False, False)}, pf.pool)
        rep.count("abstract_states", len(it.states_seen))
        if not client.start_states:
            rep.unrec(rule, f, f"flag:{pf.flag}", "the consumer never starts the feeder thread (no start() of the feeder reached)")
            all_reset = False
            continue
        not_raised = [s for s in client.start_states if not s[0]]
        all_reset = all_reset and all(s[1] for s in client.start_states)
        rep.check(rule, f, f"flag:{pf.flag}", not not_raised,
                  f"self.{pf.flag} is raised before the feeder thread is started",
                  f"the feeder thread is started (line {client.start_line}) on a path where self.{pf.flag} has not been raised: it is "
                  f"first written by the thread itself, unordered with the consumer's first evaluation of the loop condition",
                  scenario=f"the consumer evaluates `while self.{pf.flag} or finished < self.{pf.counter}` before the feeder's first "
                           f"statement: it sees the stale False/old count of the previous call, the first {f.name}() yields nothing and "
                           f"the next call yields results of this one",
                  line=client.start_line)
    return all_reset


# ---------------------------------------------------------------------------------------------- R2 / R3 (+ C02.R2)
class _FeederRun(Client):
    """state = (counter reset for this call, put awaiting its counter write, flag cleared)"""

    def __init__(self, pf: PoolFacts):
        self.pf = pf
        self.problems: List[Tuple[int, str, str]] = []
        self.puts = 0

    def should_inline(self, func, call, ctx):
        return func.outer is not None or func.cls is self.pf.feeder

    def classify(self, call, ctx: Ctx):
        qc = queue_call(call)
        if qc and qc[0] == "put" and self.pf.qid(call.func.value, ctx.func, ctx.scope.cls) == self.pf.work_q:
            return "workput"
        return None

    def event(self, kind, node, state, ctx: Ctx):
        reset, pending, cleared = state
        pf = self.pf
        if kind == "workput":
            self.puts += 1
            if cleared:
                self.problems.append((node.lineno, "R2", "work is put on the queue after the flag was cleared: the consumer may have "
                                      "left its loop already"))
            if pending:
                self.problems.append((node.lineno, "R3", "a second work put before the counter recorded the previous one"))
            return ((reset, True, cleared),)
        tgt = None
        if kind == "aug":
            tgt = node.target
        elif kind == "store" and isinstance(node, ast.Attribute):
            tgt = node
        if tgt is not None:
            fld = pf.pool_field(tgt, ctx.func, ctx.scope.cls)
            if fld == pf.counter:
                if kind == "aug":
                    if cleared:
                        self.problems.append((node.lineno, "R2", f"self.{pf.counter} is written after the flag was cleared: flag seen "
                                              "False no longer implies that the counter is final"))
                    if not reset:
                        self.problems.append((node.lineno, "R1", f"self.{pf.counter} is incremented without having been reset for this call"))
                    if not pending:
                        self.problems.append((node.lineno, "R3", "the counter is incremented without a preceding work put"))
                    if not (isinstance(node.op, ast.Add) and const_value(node.value) == 1):
                        self.problems.append((node.lineno, "R3", f"the counter is updated by `{src(node)}` instead of += 1 per put"))
                    return ((reset, False, cleared),)
                # absolute write: a constant is a reset, anything else (e.g. `= i + 1`) sets the count for this call
                if cleared:
                    self.problems.append((node.lineno, "R2", f"self.{pf.counter} is written after the flag was cleared"))
                av = assigned_value(node)
                is_const = av is not None and const_value(av, None) is not None
                return ((True, pending if is_const else False, cleared),)
            if fld == pf.flag:
                av = assigned_value(node)
                v = const_value(av, None) if av is not None else None
                if v is not None and not v:
                    if pending:
                        self.problems.append((node.lineno, "R3", "the flag is cleared while a work put is not yet counted"))
                    if not reset:
                        self.problems.append((node.lineno, "R1", f"the feeder can finish (e.g. on an empty input) without having "
                                              f"written self.{pf.counter} for this call: the count of the previous call stays visible"))
                    return ((reset, pending, True),)
                if v:
                    return ((reset, pending, False),)
        return (state,)


def feeder_analysis(prog, pf: PoolFacts, reset_prestart: bool):
    client = _FeederRun(pf)
    it = Interp(prog, client)
    ex = it.run(pf.feeder_run, {(reset_prestart, False, False)}, pf.feeder)
    return client, it, ex


def r2_r3_feeder(prog, rep: Report, pf: PoolFacts, reset_prestart: bool, R2: str = "C01.R2", R3: str = "C01.R3"):
    rep.rule(R2, "publication order: in the feeder every counter write and work put precedes the flag's falsy write and "
             "nothing polled is written after it; the consumer's completion test reads the flag before the counter", floor=3)
    rep.rule(R3, "send accounting: on every path of the feeder each work put is followed by one `counter += 1` before the "
             "next put, the flag clear or the stop break; the counter is reset once per call", floor=1)
    f = pf.feeder_run
    rep.fn(f)
    client, it, ex = feeder_analysis(prog, pf, reset_prestart)
    rep.count("abstract_states", len(it.states_seen))
    if it.unrecognised:
        rep.unrec(R2, f, "writer-order", "; ".join(it.unrecognised))
        return
    if client.puts == 0:
        rep.unrec(R3, f, "accounting", "no put on the work queue found in the feeder")
        return
    probs = sorted(set(client.problems))
    finals = ex.normal | ex.ret
    if any(s[1] for s in finals):
        probs.append((f.node.lineno, "R3", "the feeder can end with a work put that was never counted"))
    r2 = [p for p in probs if p[1] == "R2"]
    r3 = [p for p in probs if p[1] in ("R3", "R1")]
    rep.check(R2, f, "writer-order", not r2, "counter writes and work puts all precede the final flag clear",
              "; ".join(m for _, _, m in r2),
              scenario="consumer reads flag False, then the late counter increment/put happens: the last chunk is never waited for",
              line=r2[0][0] if r2 else None)
    rep.check(R3, f, "accounting", not r3, f"every work put is followed by one counter increment ({client.puts} put events)",
              "; ".join(m for _, _, m in r3),
              scenario="the consumer compares finished chunks with the counter: an uncounted put loses its results at the end of "
                       "the call (and they surface in the next call), a double count hangs the call", line=r3[0][0] if r3 else None)
    # reader side
    for c in pf.consumers:
        rep.fn(c)
        test = pf.consumer_loop[c.qual].test
        order = _polled_read_order(test, c, pf)
        ok = bool(order) and order[0] == pf.flag and pf.counter in order
        rep.check(R2, c, "reader-order", ok, f"completion test reads {' then '.join(order)}",
                  f"the completion test `{src(test)}` reads {' then '.join(order) or 'no polled field'}: the counter must be read "
                  f"after the flag was seen False",
                  scenario="consumer reads the counter (5 sent, 5 finished), the feeder sends chunk 6 and clears the flag, the "
                           "consumer reads the flag False and leaves: chunk 6 is lost", line=test.lineno)


def _polled_read_order(test: ast.expr, f: Func, pf: PoolFacts) -> List[str]:
    """polled fields in evaluation order of the test expression"""
    out: List[str] = []

    def go(e):
        if isinstance(e, ast.BoolOp):
            for v in e.values:
                go(v)
        elif isinstance(e, ast.Compare):
            go(e.left)
            for c in e.comparators:
                go(c)
        elif isinstance(e, ast.UnaryOp):
            go(e.operand)
        elif isinstance(e, ast.Attribute):
            d = dotted(e)
            if d and len(d) == 2 and d[0] == f.self_name and d[1] in (pf.flag, pf.counter):
                out.append(d[1])
        else:
            for ch in ast.iter_child_nodes(e):
                if isinstance(ch, ast.expr):
                    go(ch)
    go(test)
    return out


# ---------------------------------------------------------------------------------------------- R4
def r4_tag(prog, rep: Report, pf: PoolFacts):
    rep.rule("C01.R4", "tag pass-through: the worker puts (first component of the work item unmodified, order-preserving "
             "unfiltered map of the functor over its second component) on the results queue", floor=1)
    run_ = prog.method_view(pf.worker, "run") or prog.method(pf.worker, "run")     # private helpers inlined
    sn = run_.self_name

    def work_get(c):
        qc = queue_call(c)
        return bool(qc) and qc[0] == "get" and pf.qid(c.func.value, run_, pf.worker) == pf.work_q

    def res_put(c):
        qc = queue_call(c)
        return bool(qc) and qc[0] == "put" and pf.qid(c.func.value, run_, pf.worker) == pf.results_q

    def functor(fn, call):
        return isinstance(fn, ast.Name) and fn.id == sn

    tag_pass_through(prog, rep, "C01.R4", run_, work_get, res_put, functor)


# ---------------------------------------------------------------------------------------------- R5
def _yield_all_of(stmts, var: str) -> int:
    """number of top-level statements that yield every element of ``var`` in order (for x in var: yield x / yield from var)"""
    n = 0
    for st in stmts:
        if isinstance(st, ast.For) and src(st.iter) == var and isinstance(st.target, ast.Name) and len(st.body) == 1 \
                and isinstance(st.body[0], ast.Expr) and isinstance(st.body[0].value, ast.Yield) \
                and src(st.body[0].value.value) == st.target.id and not st.orelse:
            n += 1
        if isinstance(st, ast.Expr) and isinstance(st.value, ast.YieldFrom) and src(st.value.value) == var:
            n += 1
    return n


def _incs_of(stmts, var: str) -> int:
    return sum(1 for st in stmts if isinstance(st, ast.AugAssign) and isinstance(st.target, ast.Name) and st.target.id == var
               and isinstance(st.op, ast.Add) and const_value(st.value) == 1)


def r5_consumer_accounting(prog, rep: Report, pf: PoolFacts):
    rep.rule("C01.R5", "consumer accounting: every (index, chunk) pair returned by the receive helper is handed on in its roles; "
             "every emitted chunk increments the finished counter exactly once and is yielded completely and in order", floor=2)
    for f in pf.consumers:
        rep.fn(f)
        loop = pf.consumer_loop[f.qual]
        test = loop.test
        fin = None
        for n in ast.walk(test):
            if isinstance(n, ast.Compare):
                for x in [n.left] + n.comparators:
                    if isinstance(x, ast.Name):
                        fin = x.id
        if fin is None:
            rep.unrec("C01.R5", f, "accounting", f"the completion test `{src(test)}` does not compare a local finished counter with the sent "
                      "counter (progress is read off something else)")
            continue
        flow = Flow(f.node)
        probs: List[str] = []
        # receive: a, b = self._get_results()
        recv = None
        for st in loop.body:
            if isinstance(st, ast.Assign) and isinstance(st.value, ast.Call) and isinstance(st.targets[0], ast.Tuple) \
                    and len(st.targets[0].elts) == 2:
                tgt = prog.resolve(pf.pool, st.value.func.attr) if isinstance(st.value.func, ast.Attribute) else None
                if tgt is pf.get_results:
                    recv = [src(x) for x in st.targets[0].elts]
        pair_loops = [st for st in loop.body if isinstance(st, ast.For) and isinstance(st.iter, ast.Call) and src(st.iter.func) == "zip"]
        # a consumer that does not order its output needs the chunks only: `for chunk in chunks`
        chunk_loops = [st for st in loop.body if isinstance(st, ast.For) and recv is not None and isinstance(st.iter, ast.Name)
                       and st.iter.id == recv[1] and isinstance(st.target, ast.Name)] if not pair_loops else []
        direct_pairs = None
        if recv is None:
            # the receive helper may hand out one list of (index, chunk) pairs, walked directly:
            #   for i, c in self._get_results():   /   pairs = self._get_results(); for i, c in pairs:   /   for i, c in zip(*self._get_results()):
            def _is_recv_call(e) -> bool:
                if isinstance(e, ast.Name):
                    e = flow.expand(e)
                if isinstance(e, ast.Call) and src(e.func) == "zip" and len(e.args) == 1 and isinstance(e.args[0], ast.Starred):
                    e = e.args[0].value
                    if isinstance(e, ast.Name):
                        e = flow.expand(e)
                return isinstance(e, ast.Call) and isinstance(e.func, ast.Attribute) and prog.resolve(pf.pool, e.func.attr) is pf.get_results
            cands = [st for st in loop.body if isinstance(st, ast.For) and isinstance(st.target, ast.Tuple) and len(st.target.elts) == 2
                     and _is_recv_call(st.iter)]
            if len(cands) == 1:
                direct_pairs = cands[0]
        if direct_pairs is None and (recv is None or len(pair_loops) + len(chunk_loops) != 1):
            rep.unrec("C01.R5", f, "accounting", "receive statement `idx, chunks = self._get_results()` / loop over zip(idx, chunks) not found")
            continue
        pl = direct_pairs if direct_pairs is not None else (pair_loops or chunk_loops)[0]
        if direct_pairs is not None:
            ri, rc = (src(x) for x in pl.target.elts)
        elif pair_loops:
            def _uncopied(a):
                while isinstance(a, ast.Call) and src(a.func) in ("list", "tuple") and len(a.args) == 1 and not a.keywords:
                    a = a.args[0]               # zip(list(indices), list(chunks)) pairs the same items
                return a
            if [src(_uncopied(a)) for a in pl.iter.args] != recv:
                probs.append(f"the loop pairs `{src(pl.iter)}` instead of zip({', '.join(recv)})")
            if not (isinstance(pl.target, ast.Tuple) and len(pl.target.elts) == 2):
                rep.unrec("C01.R5", f, "accounting", "pair loop target is not (index, chunk)")
                continue
            ri, rc = (src(x) for x in pl.target.elts)
        else:
            ri, rc = None, pl.target.id
            if any(isinstance(st, ast.For) and isinstance(st.iter, ast.Call) and isinstance(st.iter.func, ast.Name) for st in pl.body):
                probs.append("the chunks are handed to a reorder buffer without their indices")
        if any(isinstance(n, (ast.Break, ast.Continue, ast.Return)) for n in ast.walk(pl)):
            probs.append("break/continue/return inside the result loop: received chunks can be skipped")
        # ordered consumer: for ch in buffer(ri, rc): count, yield all
        buf_loops = [st for st in pl.body if isinstance(st, ast.For) and isinstance(st.iter, ast.Call)
                     and isinstance(st.iter.func, ast.Name)]
        if buf_loops:
            bl = buf_loops[0]
            bname = bl.iter.func.id
            btype = None
            for n in walk_own(f.node):
                if isinstance(n, ast.Assign) and isinstance(n.targets[0], ast.Name) and n.targets[0].id == bname \
                        and isinstance(n.value, ast.Call):
                    btype = src(n.value.func)
            if [src(a) for a in bl.iter.args] != [ri, rc] or bl.iter.keywords:
                probs.append(f"the reorder buffer is fed `{src(bl.iter)}` instead of ({ri}, {rc})")
            if len(pl.body) != 1:
                probs.append("the result loop does more than feeding the reorder buffer")
            ch = src(bl.target)
            if _incs_of(bl.body, fin) != 1:
                probs.append(f"each emitted chunk must increment `{fin}` exactly once")
            if _yield_all_of(bl.body, ch) != 1:
                probs.append("each emitted chunk must be yielded completely, once, in order")
            if len(bl.body) != 2:
                probs.append("the emit loop contains extra statements")
            role = f"ordered via {btype}"
        elif any(isinstance(st_, ast.Expr) and isinstance(st_.value, ast.Call) and isinstance(st_.value.func, ast.Name)
                 and [src(a_) for a_ in st_.value.args] == [ri, rc] for st_ in pl.body) and ri is not None:
            # "store the whole batch, then drain once": the pairs are fed to the reorder buffer in their roles, the emission loop
            # stands after the pair loop: another arrangement than the one this rule reads
            rep.unrec("C01.R5", f, "accounting", "the received pairs are stored in the reorder buffer first and emitted by a separate loop")
            continue
        else:
            if _incs_of(pl.body, fin) != 1:
                probs.append(f"each received chunk must increment `{fin}` exactly once")
            if _yield_all_of(pl.body, rc) != 1:
                probs.append("each received chunk must be yielded completely, once, in order")
            if len(pl.body) != 2:
                probs.append("the result loop contains extra statements")
            role = "unordered"
        # finished counter compared with the sent counter by <
        good_cmp = False
        from ..orderings import NotAFormula, eval_order, weak_orderings
        cnt_src = f"{f.self_name}.{pf.counter}"

        def _term(x, env_):
            if src(x) == fin:
                return env_["fin"]
            if src(x) == cnt_src:
                return env_["cnt"]
            return None
        for n in ast.walk(test):
            # a comparison of the two counters, possibly negated (`not finished >= sent` after a `while True ... break` rewrite):
            # it must hold while finished < sent and fail when they are equal
            cand = n
            if isinstance(n, ast.UnaryOp) and isinstance(n.op, ast.Not) and isinstance(n.operand, ast.Compare):
                cand = n
            elif not isinstance(n, ast.Compare):
                continue
            cmp_ = cand.operand if isinstance(cand, ast.UnaryOp) else cand
            if len(cmp_.ops) != 1 or {src(cmp_.left), src(cmp_.comparators[0])} != {fin, cnt_src}:
                continue
            par = getattr(n, "_parent", None)
            if isinstance(n, ast.Compare) and isinstance(par, ast.UnaryOp) and isinstance(par.op, ast.Not):
                continue                      # judged together with its negation
            try:
                vals = {}
                for w_ in weak_orderings(["fin", "cnt"]):
                    vals[(w_["fin"] < w_["cnt"], w_["fin"] == w_["cnt"])] = eval_order(cand, w_, lambda x, e_=w_: _term(x, e_))
                if vals.get((True, False)) is True and vals.get((False, True)) is False:
                    good_cmp = True
            except NotAFormula:
                pass
        if not good_cmp:
            probs.append(f"the completion test does not compare `{fin} < self.{pf.counter}`")
        rep.check("C01.R5", f, "accounting", not probs, f"{role}: pairs handed on in their roles, one increment and one complete yield per chunk",
                  "; ".join(probs),
                  scenario="a chunk that is counted but not (completely) yielded loses results; an uncounted chunk keeps the loop "
                           "waiting forever; swapped (index, chunk) roles reorder the output", line=pl.lineno)


# ---------------------------------------------------------------------------------------------- R6
def r6_conservation(prog, rep: Report, pf: PoolFacts):
    rep.rule("C01.R6", "result conservation: in the receive helper every object obtained from the results queue reaches the "
             "returned (indices, chunks) lists, index and chunk appended together, none dropped", floor=2)
    f = pf.get_results
    rep.fn(f)
    flow = Flow(f.node)
    gets = [c for c in calls_in(f.node) if queue_call(c) and queue_call(c)[0] == "get"
            and pf.qid(c.func.value, f, pf.pool) == pf.results_q]
    if not gets:
        rep.unrec("C01.R6", f, "conservation", "no get on the results queue")
        return
    # returned list names, by role
    ret_roles: List[Tuple[str, str]] = []
    for r in returns_of(f.node):
        v = r.value
        if isinstance(v, ast.Tuple) and len(v.elts) == 2:
            ret_roles.append((src(v.elts[0]), src(v.elts[1])))
    for g in gets:
        st = getattr(g, "_parent", None)
        mode = queue_call(g)[1]
        role = f"get:{mode}"
        if not (isinstance(st, ast.Assign) and isinstance(st.targets[0], ast.Tuple) and len(st.targets[0].elts) == 2):
            rep.unrec("C01.R6", f, role, f"result of `{src(g)}` is not unpacked into (index, chunk)")
            continue
        ri, rc = (src(x) for x in st.targets[0].elts)
        # where do they go?
        blk = getattr(st, "_parent", None)
        body = None
        for fld in ("body", "orelse", "finalbody"):
            if hasattr(blk, fld) and st in getattr(blk, fld):
                body = getattr(blk, fld)
        apps = {}
        direct = None
        scope_nodes = body if body is not None else f.node.body
        after = scope_nodes[scope_nodes.index(st) + 1:] if st in scope_nodes else []
        for s2 in after:
            if isinstance(s2, ast.Expr) and isinstance(s2.value, ast.Call) and isinstance(s2.value.func, ast.Attribute) \
                    and s2.value.func.attr == "append" and len(s2.value.args) == 1:
                apps[src(s2.value.args[0])] = src(s2.value.func.value)
        if not apps:
            # returned directly:  return [ri], [rc]   (possibly after leaving a try block)
            for r in returns_of(f.node):
                v = r.value
                if isinstance(v, ast.Tuple) and len(v.elts) == 2 and src(v.elts[0]) == f"[{ri}]" and src(v.elts[1]) == f"[{rc}]" \
                        and r.lineno > st.lineno:
                    direct = r
        # one list of (index, chunk) pairs instead of two role lists: the pair is appended as a tuple to a list that every return
        # hands out (or returned directly as a one-element list)
        pair_txt = f"({ri}, {rc})"
        single_rets = [src(r.value) for r in returns_of(f.node) if r.value is not None and not isinstance(r.value, ast.Tuple)]
        if apps and pair_txt in apps and not ret_roles and apps[pair_txt] in single_rets:
            rep.ok("C01.R6", f, role, f"{pair_txt} appended to `{apps[pair_txt]}`, the list of pairs that is returned")
        elif not apps and not ret_roles and any(t in (f"[{pair_txt}]",) for t in single_rets):
            rep.ok("C01.R6", f, role, f"returned directly as [{pair_txt}]")
        elif apps and not (ri in apps or rc in apps):
            # the pair is appended in another form (one list of pairs): not the two role lists this rule follows
            rep.unrec("C01.R6", f, role, f"({ri}, {rc}) are handed on as {sorted(apps)}, not appended to two role lists", st.lineno)
        elif apps:
            ok = ri in apps and rc in apps and (apps[ri], apps[rc]) in ret_roles
            rep.check("C01.R6", f, role, ok, f"({ri}, {rc}) appended to ({apps.get(ri)}, {apps.get(rc)}), which are returned in that role order",
                      f"({ri}, {rc}) obtained from the queue are not both appended to the lists returned as (indices, chunks): "
                      f"appends {apps}, returns {ret_roles}",
                      scenario="a received chunk is dropped or filed under the wrong role: its results are lost or the output order breaks",
                      line=st.lineno)
        elif direct is not None:
            rep.ok("C01.R6", f, role, f"returned directly as ([{ri}], [{rc}])")
        else:
            used_later = any(isinstance(n_, ast.Name) and n_.id in (ri, rc) and isinstance(n_.ctx, ast.Load) and n_.lineno >= st.lineno
                             for n_ in ast.walk(f.node))
            if used_later:
                # the received pair travels on in a form this rule does not follow (a list of pairs, a helper's return value)
                rep.unrec("C01.R6", f, role, f"({ri}, {rc}) obtained by `{src(g)}` are used, but not appended to / returned as the two role lists",
                          st.lineno)
            else:
                rep.viol("C01.R6", f, role, f"({ri}, {rc}) obtained by `{src(g)}` are never used: they reach neither the returned lists nor a direct return",
                         scenario="a received chunk is dropped: its results are lost and the call waits forever for it", line=st.lineno)


# ---------------------------------------------------------------------------------------------- R7
def r7_buffer(prog, rep: Report, pf: PoolFacts):
    from . import c15
    rep.rule("C01.R7", "reorder buffer contract: Buffer.__call__ stores the item under its serial; Buffer.__iter__ emits the item "
             "under the cursor and deletes it and advances the cursor before the next emission or normal exit", floor=2)
    buf = prog.cls("Buffer", c15.BUF_MOD)
    bf = c15.BufferFacts(prog, buf)
    sub = Report("C15")
    sub.rule("C15.R1", "x")
    c15._run_emit(prog, sub, bf, prog.method(buf, "__iter__"), "yield", "drain",
                  scenario="chunks arrive as 1, 0: the buffer must emit chunk 0 then chunk 1 exactly once each")
    call = prog.method(buf, "__call__")
    i, x = call.params[1], call.params[2]
    stores = [n for n in walk_own(call.node) if isinstance(n, ast.Assign) and isinstance(n.targets[0], ast.Subscript)
              and dotted(n.targets[0].value) == (call.self_name, bf.storage)]
    good = len(stores) == 1 and src(stores[0].targets[0].slice) == i and src(stores[0].value) == x
    for inst in sub.instances:
        rep.add("C01.R7", (inst.file, inst.construct, inst.line), inst.role, inst.verdict, inst.detail, inst.witness, inst.scenario)
    rep.analysed_functions |= sub.analysed_functions
    rep.fn(call)
    rep.check("C01.R7", call, "store", good, f"self.{bf.storage}[{i}] = {x}", "__call__ does not store the item under its serial",
              scenario="chunks are filed under the wrong index: imap yields them in the wrong order")
    rets = returns_of(call.node)
    rep.check("C01.R7", call, "returns-self", bool(rets) and all(src(r.value) == call.self_name for r in rets if r.value is not None),
              "returns the buffer itself (imap iterates `buffer(i, x)`)", "__call__ does not return the buffer, which imap iterates",
              scenario="`for ch in buffer(i, chunk)` iterates something else: no chunk is ever emitted")


# ---------------------------------------------------------------------------------------------- R8
def r8_idiom(prog, rep: Report, pf: PoolFacts):
    rep.rule("C01.R8", "accumulate-and-yield idiom (sibling instances): every input element appended exactly once; a full "
             "accumulator is yielded and then replaced by a fresh list; a non-empty remainder is yielded after the loop", floor=4)
    from .poolfam import chunk_generators
    gens = chunk_generators(prog, pf.feeder_run.cls, pf.feeder_run)
    ch = gens[0] if gens else None
    if ch is None:
        rep.unrec("C01.R8", pf.feeder_run, "chunking", "no chunking generator nested in the feeder's run()")
    else:
        chunking_idiom(prog, rep, "C01.R8", ch, "chunking", data_expr=_data_param(ch))
    fm = prog.maybe_cls("FunctorMap", "windpyutils.parallel.pools")
    if fm is not None and "__call__" in fm.methods:
        gens = chunk_generators(prog, fm, fm.methods["__call__"])
        if gens:
            chunking_idiom(prog, rep, "C01.R8", gens[0], "chunking", data_expr=_data_param(gens[0]))
    bi = prog.maybe_cls("BatcherIter", "windpyutils.generic")
    if bi is not None and "__iter__" in bi.methods:
        batcher_idiom(prog, rep, "C01.R8", bi)


def _data_param(g: Func) -> Optional[str]:
    ps = [x for x in g.params if x != g.self_name]
    return ps[0] if ps else None


def batcher_idiom(prog, rep: Report, rule: str, bi: Cls):
    f = prog.method_view(bi, "__iter__")      # private (generator) helpers inlined
    body = [s for s in f.node.body if not (isinstance(s, ast.Expr) and isinstance(s.value, ast.Constant))]
    top = [s for s in body if isinstance(s, ast.If) and any(isinstance(x, ast.For) for x in s.body)
           and any(isinstance(x, ast.For) for x in s.orelse)]
    if len(top) != 1:
        rep.unrec(rule, f, "batches", "isinstance(self.data, tuple) dispatch not found")
        return
    trailing = body[body.index(top[0]) + 1:]  # statements shared by both arms (e.g. a common flush of the remainder)
    chunking_idiom(prog, rep, rule, f, "batches:tuple-input", cls=bi, body=top[0].body + trailing)
    chunking_idiom(prog, rep, rule, f, "batches:single-input", cls=bi, body=top[0].orelse + trailing, data_expr=f"{f.self_name}.data")


# ---------------------------------------------------------------------------------------------- R9
def r9_call_local(prog, rep: Report, pf: PoolFacts, rule: str):
    rep.rule(rule, "call-local state: the reorder buffer and the finished counter are locals initialised inside the call; the "
             "only pool attributes a consumer may assign are the polled protocol fields, before the with", floor=2)
    for f in pf.consumers:
        rep.fn(f)
        probs = []
        w = pf.consumer_with[f.qual]
        for n in walk_own(f.node):
            tg = n.targets if isinstance(n, ast.Assign) else [n.target] if isinstance(n, (ast.AugAssign, ast.AnnAssign)) else []
            for t in tg:
                d = dotted(t)
                if d and d[0] == f.self_name:
                    if d[1] in (pf.flag, pf.counter) and n.lineno < w.lineno:
                        continue
                    probs.append(f"`{src(n)}` stores per-call data on the pool object")
        loop = pf.consumer_loop[f.qual]
        names = {n.id for n in ast.walk(loop.test) if isinstance(n, ast.Name) and n.id != f.self_name}
        for nm in names:
            inits = [n for n in f.node.body if isinstance(n, ast.Assign) and isinstance(n.targets[0], ast.Name)
                     and n.targets[0].id == nm and n.lineno < w.lineno]
            fresh_obj = len(inits) == 1 and isinstance(inits[0].value, ast.Call) and isinstance(inits[0].value.func, ast.Name) \
                and inits[0].value.func.id[:1].isupper() and not inits[0].value.args        # buffer = Buffer(): progress read off a per-call object
            if not (len(inits) == 1 and (const_value(inits[0].value, None) == 0 or fresh_obj)):
                probs.append(f"the finished counter `{nm}` is not a local initialised to 0 inside the call")
        for n in walk_own(f.node):
            if isinstance(n, ast.Call) and isinstance(n.func, ast.Name) and n.func.id == "Buffer":
                st = getattr(n, "_parent", None)
                if not (isinstance(st, ast.Assign) and isinstance(st.targets[0], ast.Name)):
                    probs.append("the reorder buffer is not bound to a local")
        for n in ast.walk(f.node):
            if isinstance(n, ast.Call) and isinstance(n.func, ast.Name) and isinstance(prog.lookup_class(f.mod, n.func.id), Cls) \
                    and prog.lookup_class(f.mod, n.func.id).name == "Buffer":
                pass
        uses_attr_buffer = [n for n in walk_own(f.node) if isinstance(n, ast.Attribute) and "buffer" in n.attr.lower()
                            and isinstance(n.value, ast.Name) and n.value.id == f.self_name and "maxsize" not in n.attr]
        if uses_attr_buffer:
            probs.append(f"a buffer stored on the pool (`{src(uses_attr_buffer[0])}`) is shared between calls")
        rep.check(rule, f, "call-local", not probs, "buffer and finished counter are per-call locals; no per-call data on the pool",
                  "; ".join(sorted(set(probs))),
                  scenario="a second imap() on the same pool starts with the previous call's buffer cursor / finished count: its "
                           "first chunk is rejected as 'already generated' or the call ends early")


# ---------------------------------------------------------------------------------------------- R10
def _traversed_twice_on_a_path(f: Func, param: str) -> bool:
    """several `for ... in param` sites are one traversal each when they sit on different paths (a fast path that returns, the arms
    of an if): decided by the one-shot typestate (sa/rules/oneshot.py) instead of by counting sites"""
    from ..absint import Interp
    from .oneshot import _OneShot
    prog = _PROG[0]
    if prog is None:
        return True
    client = _OneShot({param})
    it = Interp(prog, client)
    it.run(f, {frozenset()}, f.cls)
    if it.unrecognised:
        return True
    return bool(client.double)


_PROG = [None]


def param_used_only_for_iteration(f: Func, param: str, allowed_call_targets: Set[str]) -> List[str]:
    """uses of ``param`` other than: being iterated once, being passed on to an allowed callee, being stored in a field"""
    probs = []
    iters = 0
    for n in ast.walk(f.node):
        if not (isinstance(n, ast.Name) and n.id == param and isinstance(n.ctx, ast.Load)):
            continue
        p = getattr(n, "_parent", None)
        if isinstance(p, (ast.For, ast.comprehension)) and p.iter is n:
            iters += 1
            continue
        if isinstance(p, ast.Call) and n in p.args:
            name = src(p.func)
            if name.split(".")[-1] in allowed_call_targets:
                continue
            if name in ("enumerate", "iter"):
                iters += 1
                continue
            probs.append(f"`{src(p)}` uses the input other than by iterating it")
            continue
        if isinstance(p, ast.Assign) and p.value is n and isinstance(p.targets[0], ast.Attribute):
            continue
        if isinstance(p, ast.Starred):
            continue
        probs.append(f"`{src(p) if p is not None else param}` uses the input other than by iterating it")
    if iters > 1 and _traversed_twice_on_a_path(f, param):
        probs.append(f"the input `{param}` is traversed {iters} times")
    return probs


def r10_input_once(prog, rep: Report, pf: PoolFacts):
    rep.rule("C01.R10", "input consumed once, by iteration only: the data parameter flows only into one for/iter context of the "
             "feeder (through the chunking generator); no len(), no subscript, no second traversal", floor=3)
    for f in pf.consumers:
        rep.fn(f)
        data = f.params[1]
        probs = param_used_only_for_iteration(f, data, {pf.feeder.name})
        rep.check("C01.R10", f, "input", not probs, f"`{data}` is only handed to the feeder", "; ".join(probs),
                  scenario="a generator or an empty iterable as input: len()/indexing fails, a second traversal sees nothing")
    # feeder: self.data only as the argument of the chunking generator; chunking: parameter only iterated
    init = prog.resolve(pf.feeder, "__init__")
    data_field = None
    if init is not None and len(init.params) >= 3:
        for n in walk_own(init.node):
            if isinstance(n, ast.Assign) and isinstance(n.value, ast.Name) and n.value.id == init.params[2]:
                d = dotted(n.targets[0])
                if d and len(d) == 2:
                    data_field = d[1]
    if init is not None and len(init.params) >= 3:
        rep.fn(init)
        probs = param_used_only_for_iteration(init, init.params[2], set())
        rep.check("C01.R10", init, "input", not probs, f"`{init.params[2]}` is only stored for the feeder", "; ".join(probs),
                  scenario="a generator or an empty iterable as input: len()/indexing fails, a second traversal sees nothing")
    run_ = pf.feeder_run
    rep.fn(run_)
    if data_field is None:
        rep.unrec("C01.R10", run_, "input", "field holding the input not found in the feeder's __init__")
        return
    from .poolfam import chunk_generators
    chunkers = chunk_generators(prog, run_.cls, run_)
    method_chunkers = [g for g in chunkers if g.name not in run_.nested]
    uses = [n for n in ast.walk(run_.node) if isinstance(n, ast.Attribute) and dotted(n) == (run_.self_name, data_field)]
    for g in method_chunkers:       # a chunking generator that is a method of the feeder reads the field itself
        uses += [n for n in ast.walk(g.node) if isinstance(n, ast.Attribute) and dotted(n) == (g.self_name, data_field)]
    gens = {g.name for g in chunkers}
    bad = []
    for u in uses:
        p = getattr(u, "_parent", None)
        if isinstance(p, ast.Call) and u in p.args and src(p.func).split(".")[-1] in gens:
            continue
        if isinstance(p, ast.For) and p.iter is u:
            continue
        bad.append(src(p) if p is not None else src(u))
    rep.check("C01.R10", run_, "input", len(uses) == 1 and not bad, f"self.{data_field} is passed once to the chunking generator",
              f"self.{data_field} is used {len(uses)} time(s): {bad}",
              scenario="lazily produced input is traversed twice or measured with len()")
    for g in chunkers:
        dp = _data_param(g)
        if g.is_generator and dp:
            probs = param_used_only_for_iteration(g, dp, set())
            rep.check("C01.R10", g, "input", not probs, f"`{dp}` is iterated once", "; ".join(probs),
                      scenario="lazily produced input is traversed twice or measured with len()")


# ---------------------------------------------------------------------------------------------- shared with C02 / C03
def counter_reset_per_call(prog, rep: Report, pf: PoolFacts, rule: str):
    """the pool-level sent counter is reset for every call before its first increment (before start() or in run())"""
    rep.rule(rule, "per-call counter: the sent counter the completion test compares against is reset for every call (in the "
             "feeder's __init__/__enter__ before start(), by the consumer before the with, or in run() before the first "
             "increment); the finished counter is a local starting at 0", floor=2)
    for c in pf.consumers:
        rep.fn(c, pf.feeder_run)
        client = _PreStart(pf)
        it = Interp(prog, client)
        it.run(c, {(False, False, False)}, pf.pool)
        reset_pre = bool(client.start_states) and all(s_[1] for s_ in client.start_states)
        fclient, fit, fex = feeder_analysis(prog, pf, reset_pre)
        bad = [p for p in fclient.problems if p[1] == "R1"]
        rep.check(rule, c, f"counter:{pf.counter}", not bad,
                  f"self.{pf.counter} is reset for every {c.name}() call before it is incremented",
                  f"self.{pf.counter} is not reset for a {c.name}() call: it continues from the previous call's total while the "
                  f"finished counter starts at 0",
                  scenario=f"two consecutive calls on one pool: in the second call finished can never reach self.{pf.counter}; "
                           f"after its last result the call never ends (or it ends early and leaves results for the next call)",
                  line=bad[0][0] if bad else None)


def feeder_early_exits(prog, rep: Report, pf: PoolFacts, rule: str):
    """the feeder may leave its send loop early only because stop() was called"""
    rep.rule(rule, "feeder sends everything unless stopped: every break/return inside the feeder's send loop is guarded by the "
             "stop event alone (the event that stop() sets at context exit); no other condition may end the feeding", floor=1)
    run_ = pf.feeder_run
    rep.fn(run_)
    # the stop event: the Event that stop() of the thread class sets
    stop = prog.resolve(pf.feeder, "stop")
    stop_ev = None
    if stop is not None:
        for c in calls_in(stop.node):
            if isinstance(c.func, ast.Attribute) and c.func.attr == "set":
                d = dotted(c.func.value)
                if d and len(d) == 2 and d[0] == stop.self_name:
                    stop_ev = d[1]
    loops = [n for n in walk_own(run_.node) if isinstance(n, (ast.For, ast.While))
             and any(isinstance(c, ast.Call) and queue_call(c) and queue_call(c)[0] == "put" for c in ast.walk(n))]
    if stop_ev is None or len(loops) != 1:
        rep.unrec(rule, run_, "early-exit", f"stop event ({stop_ev}) / send loop ({len(loops)}) not identified")
        return
    loop = loops[0]
    exits = [n for n in ast.walk(loop) if isinstance(n, (ast.Break, ast.Return))]
    probs = []
    for e in exits:
        guard = None
        p_ = getattr(e, "_parent", None)
        while p_ is not None and p_ is not loop:
            if isinstance(p_, ast.If):
                guard = p_
                break
            p_ = getattr(p_, "_parent", None)
        if guard is None:
            probs.append((e.lineno, "an unconditional break/return ends the feeding"))
            continue

        def only_stop(t) -> bool:
            if isinstance(t, ast.Call) and isinstance(t.func, ast.Attribute) and t.func.attr == "is_set" \
                    and dotted(t.func.value) == (run_.self_name, stop_ev):
                return True
            if isinstance(t, ast.BoolOp) and isinstance(t.op, ast.And):
                return any(only_stop(v) for v in t.values)
            return False
        def exhausted(t) -> bool:
            """`x is None` for x = next(<iterator>, None): the input has run out, which is how a `while True` feeding loop ends"""
            if isinstance(t, ast.Compare) and len(t.ops) == 1 and isinstance(t.ops[0], ast.Is) and isinstance(t.left, ast.Name) \
                    and const_value(t.comparators[0], 0) is None:
                fl_ = Flow(run_.node)
                defs_ = list(fl_.defs_of(t.left))
                return bool(defs_) and all(isinstance(d_.value, ast.Call) and src(d_.value.func) == "next" and len(d_.value.args) == 2
                                           and const_value(d_.value.args[1], 0) is None for d_ in defs_)
            return False
        if isinstance(loop, ast.While) and exhausted(guard.test):
            continue
        if not only_stop(guard.test):
            probs.append((e.lineno, f"the send loop is left under `{src(guard.test)}`, which does not require the stop event "
                                    f"self.{stop_ev}"))
    if probs:
        # the same question asked of the paths instead of the nearest `if`: does every path that leaves the loop early pass a test
        # `self.<stop>.is_set()` that came out true?  (the test may sit in a helper whose boolean result is tested: `if not
        # self._send(i, chunk): break`; boolean locals are followed by the flag tracker)
        from ..absint import FlagTracking
        from ..resolve import Scope

        class _StopSeen(Client):
            def should_inline(s_, func, call, ctx):
                return func.cls is not None and not func.cls.is_external and func.name.startswith("_") and not func.name.startswith("__")

            def refine(s_, test, state, ctx):
                t = test
                neg = False
                while isinstance(t, ast.UnaryOp) and isinstance(t.op, ast.Not):
                    t, neg = t.operand, not neg
                if isinstance(t, ast.Call) and isinstance(t.func, ast.Attribute) and t.func.attr == "is_set" \
                        and dotted(t.func.value) and dotted(t.func.value)[-1] == stop_ev:
                    return ((state,), (True,)) if neg else ((True,), (state,))
                return (state,), (state,)
        it_ = Interp(prog, FlagTracking(_StopSeen()))
        it_.stack.append((run_, None))
        it_.yield_handlers.append(None)
        ex_ = FlagTracking.unwrap(it_.block(loop.body, FlagTracking.wrap({False}), Scope(prog, run_, run_.cls)))
        leaving = ex_.brk | ex_.ret
        if not it_.unrecognised and leaving and all(s_ is True for s_ in leaving):
            probs = []
    rep.check(rule, run_, "early-exit", not probs, f"{len(exits)} early exit(s), all guarded by self.{stop_ev}.is_set()",
              "; ".join(m for _, m in probs),
              scenario="results_queue_maxsize=1 and a first chunk that takes 3 s: the feeder is paused for more than its wait "
                       "timeout, gives up and clears the flag; imap returns a truncated prefix of the results",
              line=probs[0][0] if probs else None)
