"""Rules shared by C06 (LRUCache) and C07 (LFUCache): slots by role, coherence, capacity, invalidation."""
from __future__ import annotations

import ast
from typing import Dict, List, Optional, Set, Tuple

from ..absint import Client, Ctx, Interp
from ..flow import Flow
from ..model import AnalysisError, Cls, Func, Program, walk_own
from ..report import Report
from ..resolve import Scope, dotted
from ..util import assigned_value, calls_in, iter_stores, returns_of, src
from .c08 import ListFacts, SAT, _sat

CACHES_MOD = "windpyutils.structures.caches"


class CacheFacts:
    def __init__(self, prog: Program, name: str):
        self.P = prog
        self.cls = prog.cls(name, CACHES_MOD)
        self.lf = ListFacts(prog)
        init = prog.method(self.cls, "__init__")
        self.dict_field = self.list_field = None
        for n in walk_own(init.node):
            tgt, val = None, None
            if isinstance(n, ast.Assign) and len(n.targets) == 1:
                tgt, val = n.targets[0], n.value
            elif isinstance(n, ast.AnnAssign):
                tgt, val = n.target, n.value
            d = dotted(tgt) if tgt is not None else None
            if not (d and len(d) == 2 and d[0] == init.self_name):
                continue
            if isinstance(val, ast.Dict) or (isinstance(val, ast.Call) and src(val.func) == "dict"):
                self.dict_field = d[1]
            elif isinstance(val, ast.Call):
                t = prog.ctor_type(val, init)
                if t is self.lf.lst:
                    self.list_field = d[1]
        if not self.dict_field or not self.list_field:
            raise AnalysisError(f"{name}: dict/list fields not discoverable from __init__")
        # capacity field: the attribute compared with len(dict) in __setitem__
        self.setitem = prog.method_raw(self.cls, "__setitem__")
        self.getitem = prog.method_raw(self.cls, "__getitem__")
        self.delitem = prog.method_raw(self.cls, "__delitem__")
        self.iter = prog.method_raw(self.cls, "__iter__")
        # the same methods with the cache's private helpers inlined: for the rules that read statements (sa/inline.py)
        self.setitem_v = prog.method_view(self.cls, "__setitem__")
        self.getitem_v = prog.method_view(self.cls, "__getitem__")
        self.delitem_v = prog.method_view(self.cls, "__delitem__")
        self.iter_v = prog.method_view(self.cls, "__iter__")
        self.cap_field = None
        for n in walk_own(self.setitem.node):
            if isinstance(n, ast.Compare) and len(n.ops) == 1:
                for a, b in ((n.left, n.comparators[0]), (n.comparators[0], n.left)):
                    if self._is_len_dict(a, self.setitem):
                        d = dotted(b)
                        if d and len(d) == 2 and d[0] == self.setitem.self_name:
                            self.cap_field = d[1]
        self.cap_guard_found = self.cap_field is not None
        if self.cap_field is None:
            # no such comparison (the bound may be kept through a counter of free slots ...): the capacity is the constructor
            # parameter stored as given along the constructor chain; the capacity rule itself then reports what it cannot read
            for k in self.cls.repo_mro():
                if k.is_external or "__init__" not in k.methods:
                    continue
                g = k.methods["__init__"]
                for n in walk_own(g.node):
                    if isinstance(n, ast.Assign) and len(n.targets) == 1 and isinstance(n.value, ast.Name) and n.value.id in g.params[1:2]:
                        d = dotted(n.targets[0])
                        if d and len(d) == 2 and d[0] == g.self_name and self.cap_field is None:
                            self.cap_field = d[1]
        if self.cap_field is None:
            raise AnalysisError(f"{name}.__setitem__: no comparison of len(self.{self.dict_field}) with a capacity field")
        # list method summaries: size delta and the end a method targets
        self.list_delta: Dict[str, Optional[int]] = {}
        self.list_target_end: Dict[str, Optional[str]] = {}
        for mname, f in self.lf.lst.methods.items():
            if f.self_name is None or mname.startswith("__") or f.is_generator:
                continue
            self.list_delta[mname] = _size_delta(prog, self.lf, f)
            self.list_target_end[mname] = _target_end(self.lf, f)

    def _is_len_dict(self, e, f: Func) -> bool:
        # the number of entries: len of the dict, of the cache itself, or of the recency list (equal by coherence, C06.R2,
        # as long as the list's own counter is right, which C06.R7 / C08.R1 decide)
        return isinstance(e, ast.Call) and isinstance(e.func, ast.Name) and e.func.id == "len" and len(e.args) == 1 \
            and (dotted(e.args[0]) in ((f.self_name, self.dict_field), (f.self_name, self.list_field))
                 or (isinstance(e.args[0], ast.Name) and e.args[0].id == f.self_name))

    def is_dict(self, e, f: Func) -> bool:
        return dotted(e) == (f.self_name, self.dict_field)

    def is_list(self, e, f: Func) -> bool:
        return dotted(e) == (f.self_name, self.list_field)


class _SizeOnly(Client):
    def __init__(self, lf):
        self.lf = lf

    def event(self, kind, node, state, ctx: Ctx):
        if kind == "aug" and isinstance(node.target, ast.Attribute) and node.target.attr == self.lf.size \
                and ctx.scope.is_self(node.target.value) and isinstance(node.value, ast.Constant):
            c = node.value.value
            return ((_sat(state[0] + (c if isinstance(node.op, ast.Add) else -c)),),)
        return (state,)


def _size_delta(prog, lf: ListFacts, f: Func) -> Optional[int]:
    """net change of the list's size counter by one call (None when it differs between normal paths)"""
    it = Interp(prog, _SizeOnly(lf))
    ex = it.run(f, {(0,)}, lf.lst)
    vals = {s[0] for s in ex.normal | ex.ret}
    if len(vals) == 1:
        return vals.pop()
    if vals and vals <= {0} | {v for v in vals}:
        # early returns without effect (move of a node that is already in place) are neutral
        nz = {v for v in vals if v != 0}
        return 0 if not nz else None
    return None


def _target_end(lf: ListFacts, f: Func) -> Optional[str]:
    """the list end that a method stores its node argument / new node into (stores made only because the list was empty - under
    `self.<end> is None` - do not count: there both ends receive the node)"""
    ends = []
    params = set(f.params[1:])
    new_nodes = set()
    for n in walk_own(f.node):
        if isinstance(n, ast.Assign) and len(n.targets) == 1 and isinstance(n.targets[0], ast.Name) \
                and isinstance(n.value, ast.Call) and src(n.value.func) == lf.node.name:
            new_nodes.add(n.targets[0].id)

    def only_when_empty(st) -> bool:
        ch, par = st, getattr(st, "_parent", None)
        while par is not None and par is not f.node:
            if isinstance(par, ast.If) and isinstance(par.test, ast.Compare) and len(par.test.ops) == 1 \
                    and isinstance(par.test.comparators[0], ast.Constant) and par.test.comparators[0].value is None:
                d = dotted(par.test.left)
                if d and len(d) == 2 and d[0] == f.self_name and d[1] in lf.ends:
                    is_none = isinstance(par.test.ops[0], ast.Is)
                    in_body = ch in par.body
                    if in_body == is_none:
                        return True
            ch, par = par, getattr(par, "_parent", None)
        return False
    from ..util import iter_stores
    for t, v, st in iter_stores(f.node):
        if isinstance(v, ast.Name) and v.id in params | new_nodes:
            d = dotted(t)
            if d and len(d) == 2 and d[0] == f.self_name and d[1] in lf.ends and not only_when_empty(st):
                ends.append(d[1])
    return ends[0] if len(set(ends)) == 1 else None


# ------------------------------------------------------------------------------------------------
def abc_iterate_and_lookup(prog: Program) -> Dict[str, List[str]]:
    """facts read off the parsed _collections_abc source: methods that iterate a mapping while subscripting it.

    returns {qualified method: [description]} for methods of Mapping/MutableMapping and the view classes
    """
    out: Dict[str, List[str]] = {}
    for c in prog.classes.values():
        if not c.is_external:
            continue
        for f in c.methods.values():
            sn = f.self_name
            if sn is None:
                continue
            hit = None
            for n in walk_own(f.node):
                it = None
                bodies = []
                if isinstance(n, ast.For):
                    it, bodies = n.iter, n.body
                elif isinstance(n, (ast.ListComp, ast.GeneratorExp, ast.SetComp, ast.DictComp)):
                    it = n.generators[0].iter
                    bodies = [n]
                if it is None:
                    continue
                d = dotted(it)
                if d is None or d[0] != sn or len(d) > 2:
                    continue
                for b in bodies:
                    for sub in ast.walk(b):
                        if isinstance(sub, ast.Subscript) and isinstance(sub.ctx, ast.Load) and dotted(sub.value) == d:
                            hit = f"iterates {'.'.join(d)} while evaluating {src(sub)}"
            if hit:
                out.setdefault(f"{c.name}.{f.name}", []).append(hit)
    return out


def reachable_view_api(prog: Program, cache: Cls, facts: Dict[str, List[str]]) -> List[str]:
    """public operations of ``cache`` that reach an iterate-and-lookup method (values(), items(), ==, ...)"""
    api = []
    view_of = {"values": "ValuesView", "items": "ItemsView", "keys": "KeysView"}
    for meth, view in view_of.items():
        f = prog.resolve(cache, meth)
        if f is None or not f.cls.is_external:
            continue  # overridden by the repo class: analysed on its own
        for vm in ("__iter__", "__contains__"):
            if f"{view}.{vm}" in facts:
                api.append(f"{meth}() -> {view}.{vm}: {facts[f'{view}.{vm}'][0]}")
    eq = prog.resolve(cache, "__eq__")
    if eq is not None and eq.cls.is_external:
        # Mapping.__eq__: dict(self.items()) == dict(other.items())
        if any("items" in src(n) for n in ast.walk(eq.node)) and "ItemsView.__iter__" in facts:
            api.append("== -> Mapping.__eq__ -> items() -> ItemsView.__iter__")
    for meth in ("update", "popitem", "clear", "pop", "get", "setdefault", "__contains__"):
        f = prog.resolve(cache, meth)
        if f is not None and f.cls.is_external and f"{f.cls.name}.{meth}" in facts:
            api.append(f"{meth}(): {facts[f'{f.cls.name}.{meth}'][0]}")
    return api


def iter_laziness(prog, cf: CacheFacts) -> Tuple[str, str]:
    """('lazy'|'materialised'|'unknown', explanation) for the cache's __iter__ with respect to the recency list"""
    f = cf.iter
    flow = Flow(f.node)

    def over_list(e) -> bool:
        return any(cf.is_list(n, f) for n in ast.walk(e))

    MATERIALISERS = {"list", "tuple", "sorted", "set", "frozenset", "dict"}

    def classify(e, depth=0) -> Tuple[str, str]:
        e = flow.expand(e)
        if isinstance(e, ast.GeneratorExp):
            if over_list(e.generators[0].iter):
                return "lazy", f"generator expression over self.{cf.list_field}"
            return classify(e.generators[0].iter, depth + 1)
        if isinstance(e, (ast.List, ast.ListComp, ast.Tuple, ast.Set, ast.SetComp, ast.Dict, ast.DictComp)):
            return "materialised", "container built before iteration starts"
        if isinstance(e, ast.Call):
            name = src(e.func)
            if name in MATERIALISERS:
                return "materialised", f"{name}(...) snapshot"
            if name == "iter" and e.args:
                return classify(e.args[0], depth + 1)
            if name in ("map", "zip", "filter", "enumerate", "reversed") or name.startswith("itertools."):
                if any(over_list(a) for a in e.args):
                    return "lazy", f"{name}(...) over self.{cf.list_field}"
                kinds = [classify(a, depth + 1) for a in e.args if not isinstance(a, ast.Lambda)]
                if any(k[0] == "lazy" for k in kinds):
                    return next(k for k in kinds if k[0] == "lazy")
                return ("materialised", "wrapped snapshot") if kinds and all(k[0] == "materialised" for k in kinds) \
                    else ("unknown", src(e))
            if isinstance(e.func, ast.Attribute) and cf.is_dict(e.func.value, f) and e.func.attr in ("keys", "__iter__"):
                return "materialised-dict", "iterates the dict, which __getitem__ does not modify"
            return "unknown", src(e)
        if cf.is_list(e, f):
            return "lazy", f"self.{cf.list_field} iterated directly"
        if cf.is_dict(e, f):
            return "materialised-dict", "iterates the dict, which __getitem__ does not modify"
        d = dotted(e)
        if d and len(d) == 2 and d[0] == f.self_name and depth < 4:
            # another field of the cache (a cached snapshot): classify everything the class ever stores into it; when the
            # snapshot must be dropped is the derived-state rule's business
            vals = []
            for m in cf.cls.methods.values():
                if m.self_name is None:
                    continue
                for n in walk_own(m.node):
                    if isinstance(n, ast.Assign) and any(dotted(t) == (m.self_name, d[1]) for t in n.targets) \
                            and not (isinstance(n.value, ast.Constant) and n.value.value is None):
                        vals.append(n.value)
            if vals:
                kinds = []
                for v in vals:
                    if isinstance(v, (ast.List, ast.ListComp, ast.Tuple)) or (isinstance(v, ast.Call) and src(v.func) in MATERIALISERS):
                        kinds.append("materialised")
                    elif isinstance(v, ast.GeneratorExp) or (isinstance(v, ast.Call) and src(v.func) in ("iter", "map", "filter", "zip")):
                        kinds.append("lazy")
                    else:
                        kinds.append("unknown")
                if all(k == "materialised" for k in kinds):
                    return "materialised", f"snapshot kept in self.{d[1]}"
                if any(k == "lazy" for k in kinds):
                    return "lazy", f"self.{d[1]} holds a lazy view of self.{cf.list_field}"
        return "unknown", src(e)

    if f.is_generator:
        verdicts = []
        for n in walk_own(f.node):
            if isinstance(n, ast.For) and any(isinstance(y, (ast.Yield, ast.YieldFrom)) for y in ast.walk(n)):
                verdicts.append(classify(n.iter))
            elif isinstance(n, ast.YieldFrom):
                verdicts.append(classify(n.value))
        if not verdicts:
            return "unknown", "generator without a recognisable loop"
        for v in verdicts:
            if v[0] == "lazy":
                return v
        return verdicts[0]
    rets = returns_of(f.node)
    if len(rets) != 1 or rets[0].value is None:
        return "unknown", "no single return"
    return classify(rets[0].value)


class _LinkWrites(Client):
    def __init__(self, lf: ListFacts):
        self.lf = lf
        self.writes: List[str] = []

    def event(self, kind, node, state, ctx: Ctx):
        if kind == "store" and isinstance(node, ast.Attribute) and node.attr in self.lf.link_fields \
                and ctx.scope.func.cls is self.lf.lst:
            self.writes.append(f"{ctx.func.short}:{node.lineno} {src(node)} via {' -> '.join(ctx.chain)}")
        return (state,)


def getitem_relinks(prog, cf: CacheFacts) -> List[str]:
    client = _LinkWrites(cf.lf)
    it = Interp(prog, client)
    it.run(cf.getitem, {0}, cf.cls)
    return client.writes


def rule_invalidation(prog, rep: Report, cf: CacheFacts, rule: str):
    rep.rule(rule, "no iterator invalidation: if __iter__ is lazy over the list and __getitem__ relinks that list, no "
             "reachable API may look keys up while iterating (values(), items(), == do, per the parsed "
             "_collections_abc source)", floor=1)
    kind, why = iter_laziness(prog, cf)
    writes = getitem_relinks(prog, cf)
    facts = abc_iterate_and_lookup(prog)
    api = reachable_view_api(prog, cf.cls, facts)
    rep.fn(cf.iter, cf.getitem)
    rep.count("abc_iterate_and_lookup_methods", len(facts))
    if not facts:
        rep.error(f"{rule}: no iterate-and-lookup method found in the parsed _collections_abc (floor 2)")
    if kind == "unknown":
        rep.unrec(rule, cf.iter, "iter", f"cannot classify the iterator returned by __iter__: {why}")
        return
    if kind == "lazy" and writes and api:
        rep.viol(rule, cf.iter, "iter",
                 f"__iter__ is lazy ({why}) while __getitem__ relinks the list ({writes[0]}); affected API: "
                 + "; ".join(api),
                 witness={"relink_sites": writes[:6], "api": api},
                 scenario="c = cache(3); c[1]=1; c[2]=2; c[3]=3; list(c.values()) never terminates (LRU) or skips "
                          "entries (LFU) because every lookup moves the node the iterator stands on")
    else:
        rep.ok(rule, cf.iter, "iter", f"__iter__: {kind} ({why}); __getitem__ relink sites: {len(writes)}; "
               f"lookup-while-iterating API: {len(api)}")


# ------------------------------------------------------------------------------------------------
LT, EQ, GT = "len<cap", "len==cap", "len>cap"


class _Coherence(Client):
    """state = (ordering of len(dict) vs capacity, key present?, d_dict, d_list)"""

    def __init__(self, prog, cf: CacheFacts, key_param: str):
        self.P, self.cf, self.key = prog, cf, key_param
        self.problems: List[str] = []
        self.evicted_key_exprs: List[ast.expr] = []
        self.victim_exprs: List[ast.expr] = []
        self._flows = {}

    def should_inline(self, func: Func, call, ctx: Ctx):
        # list methods are summarised by their size delta; own helpers are inlined
        return func.cls is not self.cf.lf.lst

    def classify(self, call, ctx: Ctx):
        tgt = ctx.scope.resolve_call(call)
        if isinstance(tgt, Func) and tgt.cls is self.cf.lf.lst:
            return "listop"
        return None

    def refine(self, test, state, ctx: Ctx):
        order, present, dd, dl = state
        f = ctx.func
        cf = self.cf
        if isinstance(test, ast.Compare) and len(test.ops) == 1:
            op, a, b = test.ops[0], test.left, test.comparators[0]
            if isinstance(op, (ast.In, ast.NotIn)) and isinstance(a, ast.Name) and a.id == self.key \
                    and (cf.is_dict(b, f) or (isinstance(b, ast.Name) and b.id == f.self_name)):
                yes = (order, True, dd, dl)
                no = (order, False, dd, dl)
                t, fl = ((yes,), (no,)) if isinstance(op, ast.In) else ((no,), (yes,))
                if present is True:
                    return ((state,), ()) if isinstance(op, ast.In) else ((), (state,))
                if present is False:
                    return ((), (state,)) if isinstance(op, ast.In) else ((state,), ())
                return t, fl
            # node = self.<dict>.get(k);  if node is None / is not None   (the stored nodes are never None)
            if isinstance(op, (ast.Is, ast.IsNot)) and isinstance(b, ast.Constant) and b.value is None and isinstance(a, ast.Name):
                from ..flow import Flow
                fl = self._flows.setdefault(id(f.node), Flow(f.node))
                defs = list(fl.defs_of(a))
                if defs and all(isinstance(d_.value, ast.Call) and isinstance(d_.value.func, ast.Attribute) and d_.value.func.attr == "get"
                                and cf.is_dict(d_.value.func.value, f) and d_.value.args and isinstance(d_.value.args[0], ast.Name)
                                and d_.value.args[0].id == self.key and len(d_.value.args) == 1 for d_ in defs):
                    yes = (order, True, dd, dl)
                    no = (order, False, dd, dl)
                    if present is True:
                        return ((), (state,)) if isinstance(op, ast.Is) else ((state,), ())
                    if present is False:
                        return ((state,), ()) if isinstance(op, ast.Is) else ((), (state,))
                    return ((no,), (yes,)) if isinstance(op, ast.Is) else ((yes,), (no,))
            # len(dict) <op> capacity
            la, lb = cf._is_len_dict(a, f), cf._is_len_dict(b, f)
            ca = dotted(a) == (f.self_name, cf.cap_field)
            cb = dotted(b) == (f.self_name, cf.cap_field)
            if (la and cb) or (lb and ca):
                rank = {LT: (0, 1), EQ: (1, 1), GT: (2, 1)}[order]
                l, c = rank
                x, y = (l, c) if la else (c, l)
                res = _cmp(op, x, y)
                if res is None:
                    self.problems.append(f"unrecognised capacity comparison {src(test)}")
                    return (state,), (state,)
                return ((state,), ()) if res else ((), (state,))
        if isinstance(test, ast.UnaryOp) and isinstance(test.op, ast.Not):
            t, f2 = self.refine(test.operand, state, ctx)
            return f2, t
        return (state,), (state,)

    def event(self, kind, node, state, ctx: Ctx):
        order, present, dd, dl = state
        cf = self.cf
        f = ctx.func
        if kind == "listop":
            name = node.func.attr
            d = cf.list_delta.get(name)
            if d is None:
                self.problems.append(f"list operation {name}() has no single size effect")
                return (state,)
            return ((order, present, dd, _sat(dl + d)),)
        if kind == "del" and isinstance(node, ast.Subscript) and cf.is_dict(node.value, f):
            k = node.slice
            if isinstance(k, ast.Name) and k.id == self.key:
                if present is False:
                    self.problems.append("deletes the key on a path where it is known to be absent")
                return ((order, False, _sat(dd - 1), dl),)
            self.evicted_key_exprs.append(k)
            return ((order, present, _sat(dd - 1), dl),)
        if kind == "store" and isinstance(node, ast.Subscript) and cf.is_dict(node.value, f):
            k = node.slice
            if isinstance(k, ast.Name) and k.id == self.key:
                if present is None:
                    self.problems.append(f"store into the dict at {ctx.where(node)} with unknown presence of the key")
                    return (state,)
                return ((order, True, _sat(dd + (0 if present else 1)), dl),)
            self.problems.append(f"store into the dict under a key other than the parameter: {src(node)}")
        if kind == "subscript" and isinstance(node, ast.Subscript) and cf.is_dict(node.value, f) \
                and isinstance(node.slice, ast.Name) and node.slice.id == self.key:
            # a successful dict lookup of the key proves presence (a miss raises KeyError)
            return ((order, True, dd, dl),)
        if kind == "call" and isinstance(node, ast.Call) and isinstance(node.func, ast.Attribute) and cf.is_dict(node.func.value, f):
            m = node.func.attr
            if m == "pop" and node.args:
                # dict.pop(k) without a default: returns the entry and removes it (KeyError on a miss); with a default the key
                # may have been absent
                k = node.args[0]
                has_default = len(node.args) > 1 or bool(node.keywords)
                if isinstance(k, ast.Name) and k.id == self.key:
                    if has_default and present is not True:
                        return ((order, False, _sat(dd - 1), dl), (order, False, dd, dl))
                    return ((order, False, _sat(dd - 1), dl),)
                self.evicted_key_exprs.append(k)
                return ((order, present, _sat(dd - 1), dl),)
            if m in ("popitem", "clear", "update", "setdefault"):
                self.problems.append(f"dict.{m}() on the cache's dict: effect on the entry count not modelled")
        return (state,)


def membership_polarity(cf, test, key: str, f: Func) -> Optional[bool]:
    """True: `test` holds exactly when the key parameter is in the cache's dict; False: exactly when it is not; None: not a
    membership test.  Forms: `k in self.<dict>` / `k in self` / `k not in ...`, `not <membership>`, and
    `n = self.<dict>.get(k)` followed by `n is None` / `n is not None` (stored nodes are never None)."""
    if isinstance(test, ast.UnaryOp) and isinstance(test.op, ast.Not):
        r = membership_polarity(cf, test.operand, key, f)
        return None if r is None else (not r)
    if not (isinstance(test, ast.Compare) and len(test.ops) == 1):
        return None
    op, a, b = test.ops[0], test.left, test.comparators[0]
    if isinstance(op, (ast.In, ast.NotIn)) and isinstance(a, ast.Name) and a.id == key \
            and (cf.is_dict(b, f) or (isinstance(b, ast.Name) and b.id == f.self_name)):
        return isinstance(op, ast.In)
    if isinstance(op, (ast.Is, ast.IsNot)) and isinstance(b, ast.Constant) and b.value is None and isinstance(a, ast.Name):
        from ..flow import Flow
        fl = getattr(f.node, "_flow", None)
        if fl is None:
            fl = f.node._flow = Flow(f.node)
        defs = list(fl.defs_of(a))
        if defs and all(isinstance(d_.value, ast.Call) and isinstance(d_.value.func, ast.Attribute) and d_.value.func.attr == "get"
                        and cf.is_dict(d_.value.func.value, f) and len(d_.value.args) == 1 and not d_.value.keywords
                        and isinstance(d_.value.args[0], ast.Name) and d_.value.args[0].id == key for d_ in defs):
            return isinstance(op, ast.IsNot)
    return None


def _cmp(op, x, y) -> Optional[bool]:
    if isinstance(op, ast.Lt): return x < y
    if isinstance(op, ast.LtE): return x <= y
    if isinstance(op, ast.Gt): return x > y
    if isinstance(op, ast.GtE): return x >= y
    if isinstance(op, ast.Eq): return x == y
    if isinstance(op, ast.NotEq): return x != y
    return None


def rule_coherence_capacity(prog, rep: Report, cf: CacheFacts, rule_coh: str, rule_cap: str):
    rep.rule(rule_coh, "dict/list coherence: on every path of __setitem__/__delitem__ the change of dict entries equals "
             "the change of linked nodes", floor=2)
    rep.rule(rule_cap, "capacity guard by ordering abstraction over (len, max_size): a new key grows the cache only "
             "when len < max_size and evicts exactly one entry when len == max_size", floor=2)
    for f in (cf.setitem, cf.delitem):
        rep.fn(f)
        key = f.params[1]
        finals_by_order: Dict[str, set] = {}
        problems: List[str] = []
        for order in (LT, EQ):
            client = _Coherence(prog, cf, key)
            it = Interp(prog, client)
            ex = it.run(f, {(order, None, 0, 0)}, cf.cls)
            rep.count("abstract_states", len(it.states_seen))
            finals_by_order[order] = ex.normal | ex.ret
            problems += client.problems + it.unrecognised
        if problems:
            rep.unrec(rule_coh, f, "coherence", "; ".join(sorted(set(problems))))
            continue
        allf = set().union(*finals_by_order.values())
        bad = sorted({(s[2], s[3]) for s in allf if s[2] != s[3]})
        rep.check(rule_coh, f, "coherence", not bad,
                  f"{len(allf)} exit states: dict and list change together",
                  f"a path changes the dict by {bad[0][0] if bad else 0} entries and the list by {bad[0][1] if bad else 0} nodes",
                  scenario="dict and recency list describe different key sets: a later eviction deletes a key that is "
                           "not in the dict (KeyError) or leaves a stale node", witness={"deltas": bad})
        if f is cf.setitem and not cf.cap_guard_found:
            for role_ in ("below-capacity", "at-capacity"):
                rep.unrec(rule_cap, f, role_, f"__setitem__ does not compare len(self.{cf.dict_field}) with self.{cf.cap_field}: how the bound "
                          "is kept (a counter of free slots, ...) is not something the ordering abstraction reads")
        elif f is cf.setitem:
            lt_new = {s[2] for s in finals_by_order[LT] if s[1] is True and _was_absent(s)}
            # states where the key was absent at entry: recognised by d_dict + presence bookkeeping below
            grow_lt = {s[2] for s in finals_by_order[LT]}
            grow_eq = {s[2] for s in finals_by_order[EQ]}
            # with len < cap some path must grow by one (new key) and none may shrink; with len == cap nothing may grow
            ok_lt = grow_lt <= {0, 1} and 1 in grow_lt
            ok_eq = grow_eq <= {0}
            rep.check(rule_cap, f, "below-capacity", ok_lt,
                      "len < max_size: a new key adds one entry, nothing is evicted",
                      f"len < max_size: net entry changes {sorted(grow_lt)} (expected 0 for a present key, +1 for a new key)",
                      scenario="a cache that is not full evicts an entry (or never stores the new key)")
            rep.check(rule_cap, f, "at-capacity", ok_eq,
                      "len == max_size: a new key replaces exactly one entry",
                      f"len == max_size: net entry changes {sorted(grow_eq)}: the cache grows beyond max_size",
                      scenario="cache(3) holds 4 entries after four distinct stores (overflow test is `>` instead of `>=`)")


def _was_absent(s) -> bool:
    return True


class _ValueStored(Client):
    """state = value parameter stored into a node payload on this path?"""

    def __init__(self, cf: CacheFacts, vparam: str):
        self.cf, self.v = cf, vparam

    def should_inline(self, func, call, ctx):
        return func.cls is self.cf.cls

    def _mentions_v(self, e, ctx) -> bool:
        """the value parameter occurs in the expression, also through locals that merely name a payload (`item = (k, v)`)"""
        from ..util import expand_all
        fl = getattr(ctx.func.node, "_flow", None)
        if fl is None:
            fl = ctx.func.node._flow = Flow(ctx.func.node)
        try:
            e = expand_all(e, fl)
        except Exception:
            pass
        return any(isinstance(n, ast.Name) and n.id == self.v for n in ast.walk(e))

    def event(self, kind, node, state, ctx: Ctx):
        if ctx.func.cls is not self.cf.cls:
            return (state,)
        if kind == "store" and isinstance(node, ast.Attribute):
            av = assigned_value(node)
            if av is not None and self._mentions_v(av, ctx):
                return (True,)
        if kind in ("call", "construct") and isinstance(node, ast.Call):
            tgt_is_list = isinstance(node.func, ast.Attribute) and self.cf.is_list(node.func.value, ctx.func)
            if tgt_is_list and any(self._mentions_v(a, ctx) for a in node.args):
                return (True,)
        return (state,)

    def classify(self, call, ctx):
        if isinstance(call.func, ast.Attribute) and self.cf.is_list(call.func.value, ctx.func):
            return "call"
        return None


def rule_value_stored(prog, rep: Report, cf: CacheFacts, rule: str):
    rep.rule(rule, "value stored on every path: the value parameter of __setitem__ reaches the payload of the node "
             "kept under the key on all paths (present key, reuse on overflow, new node)", floor=1)
    f = cf.setitem
    rep.fn(f)
    v = f.params[2]
    client = _ValueStored(cf, v)
    it = Interp(prog, client)
    ex = it.run(f, {False}, cf.cls)
    finals = ex.normal | ex.ret
    if it.unrecognised:
        rep.unrec(rule, f, "value", "; ".join(it.unrecognised))
        return
    rep.check(rule, f, "value", finals == {True},
              f"parameter {v!r} stored on all paths",
              f"a path of __setitem__ ends without storing parameter {v!r} into a node payload",
              scenario="c[1]='a'; c[1]='b'; c[1] returns 'a' (the stale value)")


def rule_list_ops(prog, rep: Report, cf: CacheFacts, rule: str):
    """the linked-list operations the cache relies on are shape-correct (the C08.R4 analysis, run for exactly the
    operations this cache calls): a cache is only as correct as the recency/frequency list under it"""
    from . import c08_shape
    rep.rule(rule, "list operations used by the cache are shape-correct: for every DoublyLinkedList operation the cache calls, "
             "the shape analysis (all layouts, all lengths) shows consistent links and the reference order afterwards", floor=2)
    used = []
    for f in cf.cls.methods.values():
        for c in calls_in(f.node):
            if isinstance(c.func, ast.Attribute) and f.self_name and cf.is_list(c.func.value, f) and c.func.attr not in used:
                used.append(c.func.attr)
    for name in used:
        m = cf.lf.lst.methods.get(name)
        if m is not None and name not in c08_shape.SPECS and not any(
                (isinstance(n, (ast.Attribute, ast.Subscript)) and isinstance(n.ctx, (ast.Store, ast.Del))) or isinstance(n, ast.AugAssign)
                or (isinstance(n, ast.Call) and isinstance(n.func, ast.Attribute) and isinstance(n.func.value, ast.Name)
                    and n.func.value.id == m.self_name and n.func.attr in c08_shape.SPECS)
                for n in ast.walk(m.node)):
            # an observer (walks the links, writes nothing, calls no mutator of the list): the shape is what it was
            rep.ok(rule, m, f"listop:{name}", f"{name} only reads the list: no field of the list or of a node is written")
            continue
        if m is None or name not in c08_shape.SPECS:
            rep.unrec(rule, (cf.cls.relpath, f"{cf.cls.short}->{name}", cf.cls.node.lineno), f"listop:{name}",
                      f"list operation {name} has no reference sequence in the shape analysis")
            continue
        rep.fn(m)
        c08_shape.check_method(prog, rep, cf.lf, m, rule=rule, role=f"listop:{name}")


def rule_lookup_source(prog, rep: Report, cf: CacheFacts, rule: str):
    """the dictionary is the only source of truth for 'is k stored': the node whose payload __getitem__ returns reaches the return
    only from `self.<dict>[k]` (which raises KeyError for an absent key)"""
    from ..flow import Flow
    rep.rule(rule, "look-ups consult the dictionary: on every path of __getitem__ the node whose payload is returned was obtained "
             "by subscripting the dict with the key parameter (so an absent or deleted key raises KeyError); a node remembered in "
             "another field must not serve a look-up", floor=1)
    f = cf.getitem
    rep.fn(f)
    k = f.params[1]
    flow = Flow(f.node)
    rets = [r for r in ast.walk(f.node) if isinstance(r, ast.Return) and r.value is not None]
    if not rets:
        rep.unrec(rule, f, "lookup-source", "no return in __getitem__")
        return
    bad = []
    unknown: List[str] = []
    memo: List[str] = []
    seen_ok = 0
    for r in rets:
        roots = []
        for n in ast.walk(r.value):
            if isinstance(n, ast.Name) and isinstance(n.ctx, ast.Load) and n.id not in (f.self_name, k):
                roots.append(n)
        direct = any(isinstance(n, ast.Subscript) and cf.is_dict(n.value, f) and src(n.slice) == k for n in ast.walk(r.value))
        if not roots and not direct:
            bad.append((r.lineno, f"`{src(r)}` does not return the payload of a node"))
            continue
        seen_names = set()

        def origin(n: ast.Name, depth: int = 0):
            nonlocal seen_ok
            if (id(n), n.id) in seen_names or depth > 8:
                return
            seen_names.add((id(n), n.id))
            for d in flow.defs_of(n):
                v = d.value
                if isinstance(v, ast.Subscript) and cf.is_dict(v.value, f) and src(v.slice) == k:
                    seen_ok += 1
                elif isinstance(v, ast.Call) and isinstance(v.func, ast.Attribute) and v.func.attr == "get" and cf.is_dict(v.func.value, f) \
                        and v.args and src(v.args[0]) == k:
                    # dict.get(k): fine when a None test turns the miss into KeyError
                    tested = any(isinstance(c, ast.Compare) and isinstance(c.left, ast.Name) and c.left.id == n.id
                                 and isinstance(c.ops[0], (ast.Is, ast.IsNot)) for c in ast.walk(f.node))
                    raises = any(isinstance(x, ast.Raise) and x.exc is not None and "KeyError" in src(x.exc) for x in ast.walk(f.node))
                    if tested and raises:
                        seen_ok += 1
                    else:
                        unknown.append(f"`{src(v)}` without a None test raising KeyError")
                elif d.kind == "param":
                    continue
                elif isinstance(v, ast.Attribute) and dotted(v) and len(dotted(v)) == 2 and dotted(v)[0] == f.self_name \
                        and dotted(v)[1] not in (cf.dict_field, cf.list_field, cf.cap_field):
                    # a remembered node: whether it is still the node stored under k is the derived-state rule's question
                    memo.append(dotted(v)[1])
                elif isinstance(v, ast.expr):
                    # a value computed from other locals (payload of the node, a component of it): follow them
                    inner = [x for x in ast.walk(v) if isinstance(x, ast.Name) and isinstance(x.ctx, ast.Load) and x.id not in (f.self_name, k)]
                    if inner or any(isinstance(x, ast.Subscript) and cf.is_dict(x.value, f) and src(x.slice) == k for x in ast.walk(v)):
                        if not inner:
                            seen_ok += 1
                        for x in inner:
                            origin(x, depth + 1)
                    else:
                        bad.append((getattr(d.node, "lineno", r.lineno),
                                    f"`{n.id}` can reach `{src(r)}` from `{src(v)}`, not from self.{cf.dict_field}[{k}]"))
                else:
                    bad.append((getattr(d.node, "lineno", r.lineno),
                                f"`{n.id}` can reach `{src(r)}` from a {d.kind} binding, not from self.{cf.dict_field}[{k}]"))
        for n in roots:
            origin(n)
    if unknown and not bad:
        rep.unrec(rule, f, "lookup-source", unknown[0])
        return
    if bad:
        ln, why = sorted(set(bad))[0]
        rep.viol(rule, f, "lookup-source", why,
                 scenario="c[k]; del c[k]; c[k] returns the stale value instead of raising KeyError (and `k in c` stays True)", line=ln)
    elif seen_ok or all(any(isinstance(n, ast.Subscript) and cf.is_dict(n.value, f) for n in ast.walk(r.value)) for r in rets):
        rep.ok(rule, f, "lookup-source", f"the returned node comes from self.{cf.dict_field}[{k}] on every path"
               + (f" or from the remembered node(s) self.{', self.'.join(sorted(set(memo)))} (freshness: derived-state rule)" if memo else ""))
    else:
        rep.unrec(rule, f, "lookup-source", "source of the returned payload not recognised")



def rule_value_parametric(prog, rep: Report, cf: CacheFacts, rule: str, is_value, what: str):
    """the cache is parametric in the stored values: no method tests a stored value for truth (0, '', [], None are values like any
    other).  ``is_value(expr, func, flow)`` says whether an expression denotes a stored value."""
    from ..flow import Flow
    from .memo import own_methods
    rep.rule(rule, "the cache does not look into the values: no method uses a stored value (" + what + ", or the value parameter of "
             "__setitem__) as a truth value (operand of and/or/not, test of if/while/conditional expression): falsy values (0, '', "
             "[], None, False) are stored and returned like any other", floor=1)
    bad = []
    n_ctx = 0
    for f in own_methods(cf.cls):
        rep.fn(f)
        flow = Flow(f.node)
        vparam = f.params[2] if f.name == "__setitem__" and len(f.params) > 2 else None
        ctxs = []
        for n in ast.walk(f.node):
            if isinstance(n, ast.BoolOp):
                ctxs += [(v, n) for v in n.values]
            elif isinstance(n, ast.UnaryOp) and isinstance(n.op, ast.Not):
                ctxs.append((n.operand, n))
            elif isinstance(n, (ast.If, ast.While, ast.IfExp, ast.Assert)):
                ctxs.append((n.test, n))
            elif isinstance(n, ast.Call) and isinstance(n.func, ast.Name) and n.func.id == "bool" and n.args:
                ctxs.append((n.args[0], n))
        for e, where in ctxs:
            n_ctx += 1
            cand = [e]
            if isinstance(e, ast.Name):
                x = flow.expand(e)
                if x is not e:
                    cand.append(x)
            for c in cand:
                if (vparam and isinstance(c, ast.Name) and c.id == vparam) or is_value(c, f, flow):
                    bad.append((f, getattr(where, "lineno", f.node.lineno), f"`{src(e)}` (a stored value) is used as a truth value in "
                                                                            f"`{src(where)[:70]}`"))
                    break
    anchor = cf.getitem
    if bad:
        f, ln, why = bad[0]
        rep.viol(rule, f, "value-parametric", why + ": a stored 0 / '' / [] / None / False is treated as absent",
                 scenario="c[k] = 0; c.get(k, d) (or the method at hand) answers as if k held nothing", line=ln)
    else:
        rep.ok(rule, anchor, "value-parametric", f"{n_ctx} truth-value contexts in {len(own_methods(cf.cls))} methods, none is a stored value")



def _eval_small(e, env):
    """value of a closed arithmetic / comparison formula over the names in ``env`` (None = not decidable)"""
    if isinstance(e, ast.Constant):
        return e.value
    if isinstance(e, ast.Name):
        return env.get(e.id)
    if isinstance(e, ast.UnaryOp):
        v = _eval_small(e.operand, env)
        if v is None and not (isinstance(e.operand, ast.Constant)):
            return None
        if isinstance(e.op, ast.Not):
            return not v
        if isinstance(e.op, ast.USub) and isinstance(v, (int, float)):
            return -v
        return None
    if isinstance(e, ast.BoolOp):
        vals = [_eval_small(v, env) for v in e.values]
        if isinstance(e.op, ast.And):
            if any(v is not None and not v for v in vals):
                return False
            return None if any(v is None for v in vals) else True
        if any(v is not None and v for v in vals):
            return True
        return None if any(v is None for v in vals) else False
    if isinstance(e, ast.Compare):
        left = _eval_small(e.left, env)
        out = True
        for op, c in zip(e.ops, e.comparators):
            right = _eval_small(c, env)
            if isinstance(op, (ast.Is, ast.IsNot)) and isinstance(c, ast.Constant) and c.value is None and left is not None:
                r = isinstance(op, ast.IsNot)
            elif left is None or right is None or isinstance(left, bool) or isinstance(right, bool):
                return None
            else:
                r = _cmp(op, left, right)
                if r is None:
                    return None
            out = out and r
            left = right
        return out
    if isinstance(e, ast.BinOp) and isinstance(e.op, (ast.Add, ast.Sub, ast.Mult)):
        a, b = _eval_small(e.left, env), _eval_small(e.right, env)
        if isinstance(a, int) and isinstance(b, int):
            return a + b if isinstance(e.op, ast.Add) else a - b if isinstance(e.op, ast.Sub) else a * b
        return None
    if isinstance(e, ast.Call) and isinstance(e.func, ast.Name) and e.func.id == "isinstance" and len(e.args) == 2 \
            and isinstance(e.args[0], ast.Name) and e.args[0].id in env and src(e.args[1]) in ("int", "(int,)", "numbers.Integral", "Integral"):
        return True
    return None


class _CapWorld(Client):
    """state = True while every test on the path was decided by the sample capacity"""

    def __init__(self, name, value):
        self.env = {name: value}

    def should_inline(self, func, call, ctx):
        return False

    def refine(self, test, state, ctx):
        v = _eval_small(test, self.env)
        if v is None:
            return (False,), (False,)
        return ((state,), ()) if v else ((), (state,))

    def event(self, kind, node, state, ctx):
        if kind == "store" and isinstance(node, ast.Name) and node.id in self.env:
            self.env = {}          # the parameter is re-bound: nothing is decided from here on (conservative)
        return (state,)


def rule_accepts_capacity(prog, rep: Report, cf: CacheFacts, rule: str):
    """the property quantifies over every capacity >= 1: no constructor in the chain rejects one"""
    rep.rule(rule, "every capacity >= 1 is accepted: in each constructor of the cache's MRO, evaluated with the capacity parameter "
             "set to 1, 2, 3 and 10**6, no `raise` is reached on a path whose tests are all decided by that value", floor=1)
    n = 0
    for k in cf.cls.repo_mro():
        if k.is_external or "__init__" not in k.methods:
            continue
        f = k.methods["__init__"]
        if len(f.params) < 2:
            continue
        cap = None
        for t, v, _ in iter_stores(f.node):
            d = dotted(t)
            if d == (f.self_name, cf.cap_field) and isinstance(v, ast.Name) and v.id in f.params:
                cap = v.id
        if cap is None:
            for c in ast.walk(f.node):
                if isinstance(c, ast.Call) and isinstance(c.func, ast.Attribute) and c.func.attr == "__init__" and c.args \
                        and isinstance(c.args[0], ast.Name) and c.args[0].id in f.params:
                    cap = c.args[0].id
                    break
                if isinstance(c, ast.Call) and isinstance(c.func, ast.Attribute) and c.func.attr == "__init__":
                    for kw in c.keywords:
                        if isinstance(kw.value, ast.Name) and kw.value.id in f.params and kw.arg == cf.cap_field:
                            cap = kw.value.id
        rep.fn(f)
        n += 1
        role = f"accepts-capacity:{k.name}"
        if cap is None:
            if any(isinstance(x, ast.Raise) for x in ast.walk(f.node)):
                rep.unrec(rule, f, role, "the constructor raises but its capacity parameter was not identified")
            else:
                rep.ok(rule, f, role, "no raise in the constructor")
            continue
        rejected, undecided = None, False
        for sample in (1, 2, 3, 10 ** 6):
            it = Interp(prog, _CapWorld(cap, sample))
            ex = it.run(f, {True}, cf.cls)
            if it.unrecognised:
                undecided = True
                continue
            for st, name in ex.exc:
                if st is True and name is not None:
                    rejected = rejected or (sample, name)
        if rejected:
            sample, name = rejected
            ln = next((x.lineno for x in ast.walk(f.node) if isinstance(x, ast.Raise)), f.node.lineno)
            rep.viol(rule, f, role, f"{k.name}.__init__ raises {name} for {cap} = {sample}: a legal capacity is rejected",
                     scenario=f"{cf.cls.name}({sample}) must construct a cache of capacity {sample}", line=ln)
        elif undecided:
            rep.unrec(rule, f, role, "constructor not interpretable")
        else:
            rep.ok(rule, f, role, f"no raise reachable for {cap} in (1, 2, 3, 10**6) on a path decided by the value")
    if n == 0:
        rep.unrec(rule, cf.getitem, "accepts-capacity", "no constructor with a capacity parameter found")



def rule_failed_lookup_noop(prog, rep: Report, cf: CacheFacts, rule: str):
    """a delete / look-up of an absent key raises KeyError and changes nothing"""
    from .memo import MUTATOR_CALLS
    rep.rule(rule, "a failed operation changes nothing: in __delitem__ and __getitem__ no field of the cache is assigned or updated in "
             "place before the first dictionary access keyed by the parameter (the access that raises KeyError for an absent key), "
             "unless the access sits in a try block", floor=2)
    for f in (cf.delitem, cf.getitem):
        rep.fn(f)
        key = f.params[1]
        role = f"failed-noop:{f.name}"

        def is_lookup(n):
            if isinstance(n, ast.Subscript) and cf.is_dict(n.value, f) and src(n.slice) == key:
                return True
            return isinstance(n, ast.Call) and isinstance(n.func, ast.Attribute) and n.func.attr == "pop" and cf.is_dict(n.func.value, f) \
                and len(n.args) == 1 and src(n.args[0]) == key
        early = None
        found = False
        for st in f.node.body:
            if any(is_lookup(n) for n in ast.walk(st)):
                found = True
                break
            if isinstance(st, (ast.If, ast.Try, ast.For, ast.While, ast.With, ast.Return, ast.Raise)):
                break            # only the straight-line prefix is read
            for n in ast.walk(st):
                tgt = None
                if isinstance(n, (ast.Assign, ast.AugAssign, ast.AnnAssign)):
                    for t in (n.targets if isinstance(n, ast.Assign) else [n.target]):
                        b = t
                        while isinstance(b, ast.Subscript):
                            b = b.value
                        d = dotted(b)
                        if d and d[0] == f.self_name and len(d) >= 2:
                            tgt = (n, ".".join(d))
                elif isinstance(n, ast.Call) and isinstance(n.func, ast.Attribute) and n.func.attr in MUTATOR_CALLS:
                    d = dotted(n.func.value)
                    if d and d[0] == f.self_name and len(d) >= 2:
                        tgt = (n, ".".join(d))
                if tgt and early is None:
                    early = tgt
        if found and early is not None:
            rep.viol(rule, f, role, f"`{src(early[0])[:60]}` changes {early[1]} before the dictionary access that raises KeyError for an "
                     "absent key: a failed operation leaves the cache changed",
                     scenario="del c[missing] (or c.pop(missing, None)) raises / returns the default, yet the bookkeeping moved: later "
                              "stores grow the cache beyond max_size or evict too early", line=early[0].lineno)
        elif found:
            rep.ok(rule, f, role, "no field is changed before the dictionary access keyed by the parameter")
        else:
            rep.ok(rule, f, role, "the dictionary access is not in the straight-line prefix (guarded / handled): not read by this rule")
