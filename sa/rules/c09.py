"""C09 — SortedSet / SortedMap stay sorted, duplicate-free and equivalent to set / dict (DESIGN.md §6)."""
from __future__ import annotations

import ast
from typing import Dict, List, Optional, Set, Tuple

from ..absint import Client, Ctx, Interp, RaiseExc
from ..flow import Flow
from ..model import AnalysisError, Cls, Func, Program, walk_own
from ..report import Report
from ..resolve import const_value, dotted
from ..util import before, calls_in, ext_name, returns_of, src
from .oneshot import oneshot_rule

SORTED_MOD = "windpyutils.structures.sorted"


class SortedFacts:
    def __init__(self, prog: Program):
        self.P = prog
        self.smap = prog.cls("SortedMap", SORTED_MOD)
        self.sset = prog.cls("SortedSet", SORTED_MOD)
        # storages: list fields initialised to [] in __init__; key storage = the one bisected
        self.storage: Dict[str, List[str]] = {}
        self.key_storage: Dict[str, str] = {}
        self.probe: Dict[str, Func] = {}
        for c in (self.smap, self.sset):
            init = prog.method(c, "__init__")
            flds = []
            iflow = Flow(init.node)
            for n in walk_own(init.node):
                v_ = iflow.expand(n.value) if isinstance(n, ast.Assign) and isinstance(n.value, ast.Name) else getattr(n, "value", None)
                if isinstance(n, ast.Assign) and isinstance(v_, ast.List) and not v_.elts:
                    for t in n.targets:
                        d = dotted(t)
                        if d and len(d) == 2 and d[0] == init.self_name and d[1] not in flds:
                            flds.append(d[1])
            self.storage[c.qual] = flds
            probe = None
            for f in c.methods.values():
                fflow = None
                for call in calls_in(f.node):
                    if (ext_name(prog, f, call) or "").startswith("bisect.bisect") and call.args:
                        a0 = call.args[0]
                        if isinstance(a0, ast.Name):
                            fflow = fflow or Flow(f.node)
                            a0 = fflow.expand(a0)                  # `values = self.values; bisect_left(values, x)`
                        d = dotted(a0)
                        if d and len(d) == 2 and d[0] == f.self_name and d[1] in flds:
                            self.key_storage[c.qual] = d[1]
                            probe = f
            if probe is None:
                raise AnalysisError(f"{c.short}: no method bisects one of the storage lists {flds}")
            self.probe[c.qual] = probe

    def value_storage(self, c: Cls) -> Optional[str]:
        rest = [f for f in self.storage[c.qual] if f != self.key_storage[c.qual]]
        return rest[0] if rest else None


def run(prog: Program, rep: Report):
    sf = SortedFacts(prog)
    rep.attempt(lambda: r1_empty(prog, rep, sf))
    rep.attempt(lambda: r2_dedup(prog, rep, sf))
    rep.attempt(lambda: r3_unorderable(prog, rep, sf))
    rep.attempt(lambda: r4_parallel(prog, rep, sf))
    rep.attempt(lambda: r5_provenance(prog, rep, sf))
    rep.attempt(lambda: r6_validation(prog, rep, sf))
    rep.attempt(lambda: r7_observers(prog, rep, sf))
    rep.attempt(lambda: r8_empty_methods(prog, rep, sf))
    from .memo import public_entry_points, rule_derived_state
    for c in (sf.sset, sf.smap):
        prim = {x for x in (sf.key_storage[c.qual], sf.value_storage(c)) if x}
        rule_derived_state(prog, rep, "C09.R10", c, prim, public_entry_points(prog, c),
                           what="a remembered search result or position must not survive add/discard/clear/delete", floor=2)
    # the constructor of the map orders the initial keys with generic.arg_sort: its correctness clause is part of this property
    uses_arg_sort = any(isinstance(n, ast.Call) and isinstance(n.func, ast.Name) and n.func.id == "arg_sort"
                        for n in ast.walk(prog.method(sf.smap, "__init__").node))
    if uses_arg_sort:
        from .c19 import r3_arg_sort
        r3_arg_sort(prog, rep, "C09.R12")
    from .ownership import rule_owned_storage
    from .ownership import rule_no_class_state
    rep.attempt(lambda: rule_no_class_state(prog, rep, "C09.R13", [sf.sset, sf.smap]))
    from .mixins import rule_fresh_iterator, rule_mixin_surface
    rep.attempt(lambda: rule_mixin_surface(prog, rep, "C09.R14", [sf.sset, sf.smap]))
    rep.attempt(lambda: rule_fresh_iterator(prog, rep, "C09.R15", [sf.sset, sf.smap]))
    rep.rule("C09.R11", "SortedSet / SortedMap own the arrays they mutate in place: every value stored into the key / value storage is "
             "created by the storing method (display, comprehension, list()/sorted()/copy/slice) or derived from such a value, "
             "never another object's field, a parameter or another field of the instance", floor=3)
    for c in (sf.sset, sf.smap):
        rule_owned_storage(prog, rep, "C09.R11", c, {x for x in (sf.key_storage[c.qual], sf.value_storage(c)) if x}, declare=False)
    rep.attempt(lambda: oneshot_rule(prog, rep, "C09.R9", [prog.method(sf.sset, "__init__"), prog.method(sf.smap, "__init__")],
                 "initial values given as a generator must all arrive in the storage"))


# ---------------------------------------------------------------------------------------------- R1
class _NonEmpty(Client):
    """state = frozenset of expression keys (source text of names / self fields) known to be non-empty"""

    def __init__(self, storages=()):
        self.bad: List[Tuple[int, str]] = []
        self.checked = 0
        self.unpacks: List[Tuple[int, str]] = []
        self.storages = set(storages)   # source text of the list fields (self.values, ...): a no-argument / constant pop is a fixed-position access

    def should_inline(self, func, call, ctx):
        return False

    @staticmethod
    def _len_of(e) -> Optional[str]:
        if isinstance(e, ast.Call) and isinstance(e.func, ast.Name) and e.func.id == "len" and len(e.args) == 1:
            return src(e.args[0])
        return None

    def refine(self, test, state, ctx):
        if isinstance(test, ast.UnaryOp) and isinstance(test.op, ast.Not):
            t, f = self.refine(test.operand, state, ctx)
            return f, t
        if isinstance(test, ast.Compare) and len(test.ops) == 1:
            op, a, b = test.ops[0], test.left, test.comparators[0]
            la, lb = self._len_of(a), self._len_of(b)
            ca, cb = const_value(a), const_value(b)
            key = None
            sense = None  # True: test true => non-empty
            if la and cb == 0:
                key = la
                sense = {ast.Gt: True, ast.NotEq: True, ast.Eq: False, ast.LtE: False}.get(type(op))
            elif la and cb == 1 and isinstance(op, ast.GtE):
                key, sense = la, True
            elif la and cb == 1 and isinstance(op, ast.Lt):
                key, sense = la, False
            elif lb and ca == 0:
                key = lb
                sense = {ast.Lt: True, ast.NotEq: True, ast.Eq: False, ast.GtE: False}.get(type(op))
            if key is not None and sense is not None:
                ne = state | {key}
                return ((ne,), (state,)) if sense else ((state,), (ne,))
        if isinstance(test, (ast.Name, ast.Attribute)):
            return (state | {src(test)},), (state,)
        return (state,), (state,)

    def event(self, kind, node, state, ctx: Ctx):
        if kind == "subscript" and isinstance(node, ast.Subscript) and isinstance(node.ctx, ast.Load):
            idx = const_value(node.slice, None)
            if isinstance(idx, int) and not isinstance(idx, bool):
                base = src(node.value)
                # tuple element access of a pair (x[0], x[1] of a loop variable over pairs) is not a collection probe
                self.checked += 1
                if base not in state and not _in_handler(node, ("IndexError", "LookupError", "Exception")):
                    self.bad.append((node.lineno, src(node)))
        if kind == "call" and isinstance(node, ast.Call) and isinstance(node.func, ast.Attribute) and node.func.attr == "pop" \
                and src(node.func.value) in self.storages and len(node.args) <= 1 and not node.keywords \
                and (not node.args or isinstance(const_value(node.args[0], None), int)):
            self.checked += 1
            base = src(node.func.value)
            if base not in state and not _in_handler(node, ("IndexError", "LookupError", "Exception")):
                self.bad.append((node.lineno, src(node)))
        if kind in ("call",) and isinstance(node, ast.Call) and isinstance(node.func, ast.Attribute) \
                and node.func.attr in ("append", "insert", "add"):
            return (state | {src(node.func.value)},)
        if kind == "store":
            st = getattr(node, "_parent", None)
            if isinstance(st, ast.For) and node is st.target:
                # the body is entered with an element of the iterable: `for v in X` / `for v in X[k:]` says X is not empty
                # (and so is every prefix copy `Y = X[:n]`, n >= 1, taken of it: the ties)
                it = st.iter
                if isinstance(it, ast.Subscript) and isinstance(it.slice, ast.Slice) and it.slice.step is None:
                    it = it.value
                if isinstance(it, (ast.Name, ast.Attribute)):
                    base = src(it)
                    state = frozenset(state | {base} | {t[1] for t in state if isinstance(t, tuple) and t[2] == base})
            if isinstance(node, (ast.Name, ast.Attribute)):
                key = src(node)
                state = frozenset(x for x in state if x != key and not (isinstance(x, tuple) and key in x[1:]))
                v = st.value if isinstance(st, ast.Assign) and len(st.targets) == 1 and st.targets[0] is node else None
                if isinstance(v, ast.Subscript) and isinstance(v.slice, ast.Slice) and v.slice.step is None \
                        and const_value(v.slice.lower, 0) in (0, None) and isinstance(const_value(v.slice.upper, None), int) \
                        and const_value(v.slice.upper, None) >= 1 and isinstance(v.value, (ast.Name, ast.Attribute)):
                    # Y = X[:n], n >= 1: Y is empty exactly when X is
                    base = src(v.value)
                    state = frozenset(state | {("tie", key, base)} | ({key} if base in state else set()))
                return (state,)
        if kind == "stmt" and isinstance(node, ast.Assign) and len(node.targets) == 1 \
                and isinstance(node.targets[0], (ast.Tuple, ast.List)):
            v = node.value
            if isinstance(v, ast.Call) and isinstance(v.func, ast.Name) and v.func.id == "zip" \
                    and any(isinstance(a, ast.Starred) for a in v.args) \
                    and not _in_handler(node, ("ValueError", "Exception")):
                self.unpacks.append((node.lineno, src(node)))
        return (state,)


def _in_handler(node, names) -> bool:
    p = getattr(node, "_parent", None)
    child = node
    while p is not None:
        if isinstance(p, ast.Try) and child in p.body:
            for h in p.handlers:
                if h.type is None:
                    return True
                ts = h.type.elts if isinstance(h.type, ast.Tuple) else [h.type]
                if any(src(t).split(".")[-1] in names for t in ts):
                    return True
        child, p = p, getattr(p, "_parent", None)
    return False


def r1_empty(prog, rep: Report, sf: SortedFacts):
    rep.rule("C09.R1", "constructors accept empty input: a fixed-position access (v[0], v[-1]) or a fixed-arity unpacking "
             "of zip(*p) on a collection derived from the caller's iterable needs a dominating emptiness test or a handler",
             floor=2)
    for c in (sf.sset, sf.smap):
        f = prog.method(c, "__init__")
        rep.fn(f)
        client = _NonEmpty()
        it = Interp(prog, client)
        it.run(f, {frozenset()}, c)
        rep.count("abstract_states", len(it.states_seen))
        if it.unrecognised:
            rep.unrec("C09.R1", f, "empty-input", "; ".join(it.unrecognised))
            continue
        if client.bad:
            ln, what = client.bad[0]
            rep.viol("C09.R1", f, "empty-input", f"`{what}` is evaluated without a dominating emptiness test",
                     scenario=f"{c.name}([]) raises IndexError", line=ln)
        elif client.unpacks:
            ln, what = client.unpacks[0]
            rep.viol("C09.R1", f, "empty-input", f"`{what}` unpacks zip(*p) into a fixed number of names: zip(*[]) is empty",
                     scenario=f"{c.name}([]) raises ValueError (not enough values to unpack)", line=ln)
        else:
            rep.ok("C09.R1", f, "empty-input", f"{client.checked} fixed-position accesses, all guarded; no fixed-arity "
                   "unpacking of zip(*p)")


def r8_empty_methods(prog, rep: Report, sf: SortedFacts):
    rep.rule("C09.R8", "operations on an empty structure report KeyError like set / dict: in every own method other than the "
             "constructor a fixed-position access of the storage lists (S[0], S[-1], S.pop(), S.pop(<const>)) needs a dominating "
             "non-emptiness test or an IndexError handler", floor=2)
    for c in (sf.sset, sf.smap):
        storages = {f"self.{x}" for x in (sf.key_storage[c.qual], sf.value_storage(c)) if x}
        n_m = 0
        bad_all = []
        checked = 0
        for name, f in sorted(c.methods.items()):
            if name == "__init__" or f.self_name is None:
                continue
            rep.fn(f)
            client = _NonEmpty({x.replace("self.", f.self_name + ".") for x in storages})
            it = Interp(prog, client)
            it.run(f, {frozenset()}, c)
            if it.unrecognised:
                rep.unrec("C09.R8", f, f"empty:{name}", "; ".join(it.unrecognised))
                continue
            n_m += 1
            checked += client.checked
            own = [(ln, w) for ln, w in client.bad if any(w.startswith(st.replace("self.", f.self_name + ".")) for st in storages)]
            for ln, w in own:
                bad_all.append((f, ln, w))
        if bad_all:
            f, ln, w = bad_all[0]
            rep.viol("C09.R8", f, f"empty:{c.name}", f"`{w}` in {f.qual} is evaluated without a dominating non-emptiness test or IndexError handler",
                     scenario=f"on an empty {c.name} the operation raises IndexError where the builtin raises KeyError; the inherited "
                              "clear() / -= / ^= drain with pop() until KeyError and now fail with IndexError", line=ln)
        else:
            rep.ok("C09.R8", c.methods.get("__len__") or next(iter(c.methods.values())), f"empty:{c.name}",
                   f"{n_m} methods, {checked} fixed-position accesses, all guarded")


# ---------------------------------------------------------------------------------------------- R2
DEDUP_CALLS = {"set", "frozenset", "dict", "dict.fromkeys"}


def _derives_via_dedup(e: ast.expr, flow: Flow, param: str, depth=0) -> Optional[bool]:
    """True: derived from the parameter through a de-duplicating step; False: derived without one; None: unrelated"""
    if depth > 8:
        return None
    if isinstance(e, ast.Name):
        if e.id == param:
            ds = flow.defs_of(e)
            if all(d.kind == "param" for d in ds):
                return False
        res = None
        for d in flow.defs_of(e):
            if d.kind == "param":
                r = False if d.name == param else None
            elif d.kind in ("assign",) and isinstance(d.value, ast.expr):
                r = _derives_via_dedup(d.value, flow, param, depth + 1)
            elif d.kind in ("unpack", "for", "comp") and isinstance(d.value, ast.expr):
                r = _derives_via_dedup(d.value, flow, param, depth + 1)
            else:
                r = None
            if r is False:
                return False
            if r is True:
                res = True
        return res
    if isinstance(e, ast.Call):
        name = src(e.func)
        args = list(e.args) + [k.value for k in e.keywords]
        inner = [_derives_via_dedup(a.value if isinstance(a, ast.Starred) else a, flow, param, depth + 1) for a in args]
        if isinstance(e.func, ast.Attribute):
            inner.append(_derives_via_dedup(e.func.value, flow, param, depth + 1))
        if name in DEDUP_CALLS:
            return True if any(i is not None for i in inner) else None
        if isinstance(e.func, ast.Attribute) and e.func.attr == "keys" and not e.args:
            # <x>.keys(): only mappings have it, and a mapping's keys are unique (a sequence of pairs raises AttributeError)
            return True if any(i is not None for i in inner) else None
        if any(i is False for i in inner):
            return False
        if any(i is True for i in inner):
            return True
        return None
    if isinstance(e, (ast.SetComp, ast.DictComp)):
        inner = _derives_via_dedup(e.generators[0].iter, flow, param, depth + 1)
        return True if inner is not None else None
    if isinstance(e, (ast.ListComp, ast.GeneratorExp)):
        parts = [_derives_via_dedup(e.generators[0].iter, flow, param, depth + 1)]
        for n in ast.walk(e.elt):
            if isinstance(n, ast.Name):
                parts.append(_derives_via_dedup(n, flow, param, depth + 1))
        if any(p is False for p in parts):
            return False
        return True if any(p is True for p in parts) else None
    parts = []
    for ch in ast.iter_child_nodes(e):
        if isinstance(ch, ast.expr):
            parts.append(_derives_via_dedup(ch, flow, param, depth + 1))
    if any(p is False for p in parts):
        return False
    return True if any(p is True for p in parts) else None


def r2_dedup(prog, rep: Report, sf: SortedFacts):
    rep.rule("C09.R2", "initial keys are de-duplicated: values flowing from the constructor argument into the sorted key "
             "storage pass a de-duplicating step (dict()/set()/Mapping keys/own add()/adjacent-inequality filter after "
             "sorting); for the map the step is last-wins", floor=2)
    # ---- SortedSet
    c = sf.sset
    f = prog.method_view(c, "__init__")      # private helpers of the class inlined (sa/inline.py)
    rep.fn(f)
    ks = sf.key_storage[c.qual]
    param = f.params[1] if len(f.params) > 1 else None
    flow = Flow(f.node)
    verdicts = []
    # locals that become the storage (`self.<ks> = <local>`): what is appended to them is appended to the storage
    alias_locals = {n.value.id for n in walk_own(f.node) if isinstance(n, ast.Assign) and isinstance(n.value, ast.Name)
                    and any(dotted(t) == (f.self_name, ks) for t in n.targets)}
    for n in walk_own(f.node):
        if isinstance(n, ast.Call) and isinstance(n.func, ast.Attribute) and n.func.attr in ("append", "extend", "insert") \
                and (dotted(n.func.value) == (f.self_name, ks) or (isinstance(n.func.value, ast.Name) and n.func.value.id in alias_locals)):
            arg = n.args[-1]
            guard = _enclosing_if(n)
            loop = _enclosing_loop(n)
            filt, filt_why = _adjacent_inequality(guard.test, arg, f, ks, loop, flow, storage_text=src(n.func.value)) \
                if guard is not None else (None, None)
            sorted_iter = loop is not None and _iter_is_sorted(loop, flow)
            seed = loop is None and isinstance(arg, ast.Subscript) and const_value(arg.slice) == 0 \
                and isinstance(arg.value, ast.Name) and isinstance(flow.expand(arg.value), ast.Call) \
                and src(flow.expand(arg.value).func) == "sorted"
            if filt and sorted_iter and not _skipped_values_seeded(loop, n.func.value, f):
                verdicts.append((None, f"`{src(n)}`: the loop runs over `{src(loop.iter)}`; that the values it skips are stored beforehand "
                                       "is not read", n))
            elif filt and sorted_iter:
                verdicts.append((True, "adjacent-inequality filter over a sorted iteration", n))
            elif filt is False and sorted_iter:
                verdicts.append((False, filt_why, n))
            elif filt and loop is not None and not sorted_iter:
                verdicts.append((False, f"`{src(n)}`: the adjacent-inequality filter runs over an iteration that is not sorted: equal values "
                                        "that are not neighbours are both kept", n))
            elif seed:
                verdicts.append((True, "first element of the sorted values seeds the storage", n))
            else:
                d = _derives_via_dedup(arg, flow, param)
                if d is True:
                    verdicts.append((True, "value derived through a de-duplicating call", n))
                else:
                    why = "not guarded by an inequality test against the previous kept value" if sorted_iter else \
                        "not appended from a sorted iteration with an adjacent-inequality filter"
                    # positively wrong: an append on every round of a plain loop over the values (no guard, no break);
                    # anything else (a peeled first round, a comparison against a remembered value) is another scheme
                    plain_every_round = guard is None and loop is not None and not any(isinstance(x, ast.Break) for x in ast.walk(loop))
                    verdicts.append((False if plain_every_round else None, f"`{src(n)}`: {why}", n))
        if isinstance(n, ast.Call) and isinstance(n.func, ast.Attribute) and n.func.attr in ("add",) \
                and isinstance(n.func.value, ast.Name) and n.func.value.id == f.self_name:
            verdicts.append((True, "own add() de-duplicates", n))
        if isinstance(n, ast.Assign) and any(dotted(t) == (f.self_name, ks) for t in n.targets) \
                and not (isinstance(n.value, ast.List) and not n.value.elts) \
                and not (isinstance(n.value, ast.Name) and n.value.id in alias_locals):
            if _same_class_storage(n, n.value, param, c.name, ks):
                verdicts.append((True, "storage of another instance of the same class (sorted and duplicate-free by this rule)", n))
                continue
            d = _derives_via_dedup(n.value, flow, param)
            sorted_ = any(isinstance(x, ast.Call) and src(x.func) == "sorted" for x in ast.walk(n.value))
            verdicts.append((d is True and sorted_, f"storage assigned from {src(n.value)}"
                             + ("" if d else " without a de-duplicating step") + ("" if sorted_ else " (not sorted)"), n))
    if not verdicts:
        rep.unrec("C09.R2", f, "set-dedup", "no write of initial values into the storage found")
    else:
        bad = [v for v in verdicts if v[0] is False]
        unknown = [v for v in verdicts if v[0] is None]
        if unknown and not bad:
            rep.unrec("C09.R2", f, "set-dedup", "; ".join(v[1] for v in unknown), unknown[0][2].lineno)
        else:
            rep.check("C09.R2", f, "set-dedup", not bad, "; ".join(v[1] for v in verdicts),
                      "; ".join(v[1] for v in bad), scenario="SortedSet([1, 1, 2]) has len 3 and iterates 1, 1, 2",
                      line=bad[0][2].lineno if bad else None)
    # ---- SortedMap
    c = sf.smap
    f = prog.method_view(c, "__init__")
    rep.fn(f)
    ks = sf.key_storage[c.qual]
    param = f.params[1] if len(f.params) > 1 else None
    flow = Flow(f.node)
    results = []
    unrelated = []
    from ..util import iter_stores
    for t_, val_, n in iter_stores(f.node):
        if dotted(t_) != (f.self_name, ks) or val_ is None or not isinstance(n, ast.Assign):
            continue

        nval = val_       # the value stored into the key storage (tuple targets are paired with a literal right-hand side)
        if isinstance(nval, ast.List) and not nval.elts:
            continue
        mapping_branch = _under_isinstance(n, param, "Mapping")
        if mapping_branch:
            results.append((True, "Mapping branch: keys of a mapping are unique", n))
            continue
        # permutation of already stored keys ([self.keys[i] for i in order]) keeps the multiset
        if _is_gather_of(nval, f, ks):
            results.append((True, "re-ordering of the key storage by a permutation", n))
            continue
        # [k for k, _ in sorted(zip(self.<keys>, values), key=..)]: the first components of the re-ordered (key, value) pairs
        def _sorted_zip_projection(v) -> bool:
            if not (isinstance(v, ast.ListComp) and len(v.generators) == 1 and not v.generators[0].ifs):
                return False
            g_ = v.generators[0]
            if not (isinstance(g_.target, ast.Tuple) and g_.target.elts and isinstance(v.elt, ast.Name)
                    and isinstance(g_.target.elts[0], ast.Name) and g_.target.elts[0].id == v.elt.id):
                return False
            it_ = flow.expand(g_.iter) if isinstance(g_.iter, ast.Name) else g_.iter
            if not (isinstance(it_, ast.Call) and src(it_.func) == "sorted" and it_.args):
                return False
            z = flow.expand(it_.args[0]) if isinstance(it_.args[0], ast.Name) else it_.args[0]
            return isinstance(z, ast.Call) and src(z.func) == "zip" and bool(z.args) and dotted(z.args[0]) == (f.self_name, ks)
        if _sorted_zip_projection(nval):
            results.append((True, "re-ordering of the key storage: first components of sorted(zip(keys, values))", n))
            continue
        if _same_class_storage(n, nval, param, c.name, ks):
            results.append((True, "key storage of another instance of the same class (unique by this rule)", n))
            continue
        d = _derives_via_dedup(nval, flow, param)
        if d is None:
            unrelated.append((n, f"key storage assigned from `{src(nval)}`: how this derives from the constructor argument is not read"))
            continue
        results.append((d is True, f"key storage assigned from `{src(nval)}`"
                        + (" through dict()" if d else ": no de-duplicating (last-wins) step between the pairs and the storage"), n))
    # keys appended under an adjacent-inequality filter over a (stable) sorted order: the earliest of equal keys comes first,
    # so "later pairs win" needs the value of a repeated key to be overwritten
    vs = sf.value_storage(c)
    for n in walk_own(f.node):
        if isinstance(n, ast.Call) and isinstance(n.func, ast.Attribute) and n.func.attr == "append" \
                and dotted(n.func.value) == (f.self_name, ks):
            guard = _enclosing_if(n)
            loop = _enclosing_loop(n)
            if guard is None or loop is None:
                results.append((False, f"`{src(n)}` appends initial keys without a de-duplicating test", n))
                continue
            filt = any(isinstance(x, ast.Compare) and isinstance(x.ops[0], ast.NotEq) and "[-1]" in src(x) for x in ast.walk(guard.test))
            overwrites = any(isinstance(x, ast.Assign) and isinstance(x.targets[0], ast.Subscript)
                             and dotted(x.targets[0].value) == (f.self_name, vs) and const_value(x.targets[0].slice) == -1
                             for st_ in guard.orelse for x in ast.walk(st_))
            if filt and not overwrites:
                results.append((False, f"repeated initial keys are skipped by `{src(guard.test)}` without storing the later value: "
                                       f"after a stable sort the earliest pair of a key comes first, so earlier pairs win", n))
            elif filt:
                results.append((True, "adjacent-inequality filter that overwrites the value of a repeated key (last wins)", n))
            else:
                results.append((False, f"`{src(n)}` appends initial keys under `{src(guard.test)}`, which is not a de-duplicating test", n))
    if not results and not unrelated:
        rep.unrec("C09.R2", f, "map-dedup", "no write of initial keys into the storage found")
    elif unrelated and not [r for r in results if not r[0]]:
        rep.unrec("C09.R2", f, "map-dedup", "; ".join(u[1] for u in unrelated), unrelated[0][0].lineno)
    else:
        bad = [r for r in results if not r[0]]
        rep.check("C09.R2", f, "map-dedup", not bad, "; ".join(r[1] for r in results), "; ".join(r[1] for r in bad),
                  scenario="SortedMap([(1,'a'),(1,'b')]) keeps both pairs: len 2, m[1] == 'a'",
                  line=bad[0][2].lineno if bad else None)


def _same_class_storage(stmt, value, param, clsname, ks) -> bool:
    """`<param>.<key storage>` (possibly copied: list(...), [:] , .copy()) under `isinstance(<param>, <this class>)`: what one
    instance holds is already sorted and duplicate-free, so is a copy of it (sharing it is the business of the ownership rule)"""
    v = value
    while True:
        if isinstance(v, ast.Call) and src(v.func) in ("list", "sorted") and len(v.args) == 1:
            v = v.args[0]
        elif isinstance(v, ast.Call) and isinstance(v.func, ast.Attribute) and v.func.attr == "copy" and not v.args:
            v = v.func.value
        elif isinstance(v, ast.Subscript) and isinstance(v.slice, ast.Slice) and v.slice.lower is None and v.slice.upper is None:
            v = v.value
        else:
            break
    return isinstance(v, ast.Attribute) and isinstance(v.value, ast.Name) and v.value.id == param and v.attr == ks \
        and _under_isinstance(stmt, param, clsname)


def _enclosing_if(n):
    p = getattr(n, "_parent", None)
    while p is not None and not isinstance(p, (ast.FunctionDef, ast.For, ast.While)):
        if isinstance(p, ast.If):
            return p
        p = getattr(p, "_parent", None)
    return None


def _enclosing_loop(n):
    p = getattr(n, "_parent", None)
    while p is not None and not isinstance(p, ast.FunctionDef):
        if isinstance(p, (ast.For, ast.While)):
            return p
        p = getattr(p, "_parent", None)
    return None


def _tail_slice(it) -> Optional[int]:
    """k for `X[k:]` (X a name, k a non-negative constant), else None"""
    if isinstance(it, ast.Subscript) and isinstance(it.slice, ast.Slice) and it.slice.upper is None and it.slice.step is None \
            and isinstance(it.value, ast.Name):
        k = const_value(it.slice.lower, 0)
        if isinstance(k, int) and not isinstance(k, bool) and k >= 0:
            return k
    return None


def _skipped_values_seeded(loop, storage: ast.expr, f: Func) -> bool:
    """the loop runs over `X[1:]`: the one value it skips has to be in the storage already (`S = X[:1]`, the only assignment of the
    local S before the loop)"""
    k = _tail_slice(loop.iter)
    if not k:
        return True
    if k != 1:
        return False
    # S.append(X[0]) in front of the loop (S the storage the loop appends to): the one skipped value is stored first
    for n in walk_own(f.node):
        if isinstance(n, ast.Expr) and isinstance(n.value, ast.Call) and isinstance(n.value.func, ast.Attribute) \
                and n.value.func.attr == "append" and src(n.value.func.value) == src(storage) and len(n.value.args) == 1 \
                and before(f.node, n, loop):
            a = n.value.args[0]
            if isinstance(a, ast.Subscript) and const_value(a.slice, None) == 0 and src(a.value) == src(loop.iter.value):
                return True
    if not isinstance(storage, ast.Name):
        return False
    seeds = [n for n in walk_own(f.node) if isinstance(n, ast.Assign) and any(isinstance(t, ast.Name) and t.id == storage.id for t in n.targets)]
    if len(seeds) != 1 or not before(f.node, seeds[0], loop):
        return False
    v = seeds[0].value
    return isinstance(v, ast.Subscript) and isinstance(v.slice, ast.Slice) and v.slice.step is None \
        and const_value(v.slice.lower, 0) == 0 and const_value(v.slice.upper, None) == 1 and src(v.value) == src(loop.iter.value)


def _iter_is_sorted(loop, flow: Flow) -> bool:
    if not isinstance(loop, ast.For):
        return False
    it = loop.iter
    if _tail_slice(it) is not None:            # for v in ordered[1:]: the tail of a sorted list is sorted
        it = it.value
    for _ in range(4):                         # it = iter(sorted(values)) / a named sorted list
        if isinstance(it, ast.Name):
            it = flow.expand(it)
        elif isinstance(it, ast.Call) and src(it.func) in ("iter", "list", "tuple") and len(it.args) == 1:
            it = it.args[0]
        else:
            break
    if isinstance(it, ast.Call) and src(it.func) == "sorted":
        return True
    if isinstance(it, ast.Name):
        e = flow.expand(it)
        return isinstance(e, ast.Call) and src(e.func) == "sorted"
    # index loop over a sorted local: for i in range(1, len(sorted_vals))
    if isinstance(it, ast.Call) and src(it.func) == "range":
        for a in ast.walk(it):
            if isinstance(a, ast.Name):
                e = flow.expand(a)
                if isinstance(e, ast.Call) and src(e.func) == "sorted":
                    return True
    return False


def _adjacent_inequality(test, arg, f: Func, ks: str, loop=None, flow: Optional[Flow] = None, storage_text: Optional[str] = None):
    """Truth-table check of a de-duplicating guard over a sorted iteration.

    The guard must be equivalent to  `first or cur != prev`  where cur is the appended value, prev the previously kept (or
    previously iterated) value and first = "nothing kept yet" (then prev does not exist and the guard must hold whatever the
    comparison would say).  Atoms:  N = a single `!=`/`==` between cur and prev;  E = an emptiness test of the storage
    (len(S) compared with a constant, truthiness of S or len(S)) or `prev is None` for a local initialised to None before the
    loop;  every other sub-expression (e.g. the truthiness of a stored value, `not last`) is a free atom that may be true or
    false independently.  Returns (True, None), (False, reason) or (None, reason) when no cur/prev comparison is present."""
    from itertools import product
    from ..orderings import NotAFormula, eval_order, eval_prop
    cur = src(arg)
    self_st = storage_text or f"{f.self_name}.{ks}"

    def is_prev(e) -> bool:
        t = src(e)
        if t == f"{self_st}[-1]":
            return True
        if isinstance(e, ast.Name) and flow is not None and loop is not None:
            # a local that, inside the loop, is only ever assigned the current value
            inside = [n for n in ast.walk(loop) if isinstance(n, ast.Assign) and any(isinstance(t_, ast.Name) and t_.id == e.id for t_ in n.targets)]
            return bool(inside) and all(src(n.value) == cur for n in inside)
        if isinstance(e, ast.Subscript) and isinstance(arg, ast.Subscript) and src(e.value) == src(arg.value):
            from .c15 import _linear, _norm_lin
            sym = lambda x: src(x) if isinstance(x, ast.Name) else None
            a, b = _linear(e.slice, sym), _linear(arg.slice, sym)
            if a is not None and b is not None:
                d = _norm_lin({k: a.get(k, 0) - b.get(k, 0) for k in set(a) | set(b)})
                return d == {"1": -1}
        return False

    def none_local(e) -> bool:
        if not (isinstance(e, ast.Name) and is_prev(e) and loop is not None):
            return False
        pre = [n for n in walk_own(f.node) if isinstance(n, ast.Assign) and before(f.node, n, loop)
               and any(isinstance(t_, ast.Name) and t_.id == e.id for t_ in n.targets)]
        return bool(pre) and all(isinstance(n.value, ast.Constant) and n.value.value is None for n in pre)

    has_n = [False]
    has_e = [False]
    free: List[str] = []

    def len_term(nonempty_len):
        def term(x):
            if src(x) == f"len({self_st})":
                return nonempty_len
            if isinstance(x, ast.Constant) and isinstance(x.value, int) and not isinstance(x.value, bool):
                return x.value
            return None
        return term

    def mk_atom(E: bool, N: bool, fr: Dict[str, bool]):
        def atom(x) -> Optional[bool]:
            t = src(x)
            if isinstance(x, ast.Compare) and len(x.ops) == 1 and isinstance(x.ops[0], (ast.NotEq, ast.Eq)):
                l, r = x.left, x.comparators[0]
                if (src(l) == cur and is_prev(r)) or (src(r) == cur and is_prev(l)):
                    has_n[0] = True
                    return N if isinstance(x.ops[0], ast.NotEq) else not N
            if isinstance(x, ast.Compare) and len(x.ops) == 1 and isinstance(x.ops[0], (ast.Is, ast.IsNot)) \
                    and isinstance(x.comparators[0], ast.Constant) and x.comparators[0].value is None and none_local(x.left):
                has_e[0] = True
                return E if isinstance(x.ops[0], ast.Is) else not E
            if t in (self_st, f"len({self_st})"):
                has_e[0] = True
                return not E
            if isinstance(x, ast.Compare) and f"len({self_st})" in t:
                try:
                    vals = {bool(eval_order(x, {}, len_term(k))) for k in ((0,) if E else (1, 2, 7))}
                except NotAFormula:
                    vals = set()
                if len(vals) == 1:
                    has_e[0] = True
                    return vals.pop()
            if isinstance(x, (ast.BoolOp,)) or (isinstance(x, ast.UnaryOp) and isinstance(x.op, ast.Not)):
                return None
            if isinstance(x, ast.Constant) and isinstance(x.value, bool):
                return None
            if t not in free:
                free.append(t)
            return fr.get(t, False)
        return atom

    # first pass discovers the atoms
    try:
        eval_prop(test, mk_atom(False, False, {}))
        eval_prop(test, mk_atom(True, True, {t: True for t in free}))
    except NotAFormula as e:
        return None, f"guard `{src(test)}` is not a propositional formula ({e})"
    if not has_n[0]:
        return None, "no comparison of the appended value with the previous one"
    e_values = (False, True) if (has_e[0]) else (False,)
    for E in e_values:
        for N in (False, True):
            for bits in product((False, True), repeat=len(free)):
                fr = dict(zip(free, bits))
                got = eval_prop(test, mk_atom(E, N, fr))
                want = True if E else N
                if got != want:
                    what = "nothing kept yet" if E else ("the value equals the previous one" if not N else "the value differs from the previous one")
                    extra = "".join(f", `{k}` is {"truthy" if v else "falsy (0, empty)"}" for k, v in fr.items())
                    return False, (f"the guard `{src(test)}` {'keeps' if got else 'drops'} the value when {what}{extra}"
                                   f" (it is not equivalent to `first or value != previous`)")
    return True, None


def _under_isinstance(n, param, clsname) -> bool:
    p = getattr(n, "_parent", None)
    child = n
    while p is not None and not isinstance(p, ast.FunctionDef):
        if isinstance(p, ast.If) and child in p.body:
            t = p.test
            if isinstance(t, ast.Call) and src(t.func) == "isinstance" and len(t.args) == 2 \
                    and src(t.args[0]) == param and clsname in src(t.args[1]):
                return True
        child, p = p, getattr(p, "_parent", None)
    return False


def _is_gather_of(e, f: Func, fld: str) -> bool:
    """[self.<fld>[i] for i in perm]  or a local list built as  L = []; for i in perm: L.append(self.<fld>[i]) ..."""
    if isinstance(e, ast.ListComp):
        base = e.elt.value if isinstance(e.elt, ast.Subscript) else None
        if isinstance(base, ast.Name):
            # unsorted_keys = self.<fld>  (the list the storage held before this assignment), gathered from by name
            base = Flow(f.node).expand(base)
        return isinstance(e.elt, ast.Subscript) and dotted(base) == (f.self_name, fld) \
            and isinstance(e.elt.slice, ast.Name) and isinstance(e.generators[0].target, ast.Name) \
            and e.elt.slice.id == e.generators[0].target.id
    if isinstance(e, ast.Name):
        inits, apps, other = [], [], []
        from ..util import iter_stores
        fl_ = Flow(f.node)
        for t_, v_, n in iter_stores(f.node):                    # also  a, b = [], []
            if isinstance(t_, ast.Name) and t_.id == e.id:
                (inits if isinstance(v_, ast.List) and not v_.elts else other).append(n)
        for n in walk_own(f.node):
            if isinstance(n, ast.Call) and isinstance(n.func, ast.Attribute) and isinstance(n.func.value, ast.Name) and n.func.value.id == e.id:
                if n.func.attr == "append" and len(n.args) == 1:
                    apps.append(n)
                else:
                    other.append(n)
        if not inits or not apps or other:
            return False
        for a in apps:
            v = a.args[0]
            loop = _enclosing_loop(a)
            base_ = fl_.expand(v.value) if isinstance(v, ast.Subscript) and isinstance(v.value, ast.Name) else getattr(v, "value", None)
            if not (isinstance(v, ast.Subscript) and dotted(base_) == (f.self_name, fld) and isinstance(v.slice, ast.Name)
                    and isinstance(loop, ast.For) and isinstance(loop.target, ast.Name) and loop.target.id == v.slice.id
                    and _enclosing_if(a) is None):
                return False
        return True
    return False


# ---------------------------------------------------------------------------------------------- R3
class _TypeErrorEscape(Client):
    """state = (is the probed value orderable against the content?, constant returned by the last inlined call,
                is the storage empty?  None = not tested yet)

    The first comparison site forks: either the value is orderable (no comparison of this probe raises) or it is
    not (every comparison raises TypeError).  Constant return values (``return False`` in a handler) refine the
    membership test that inlined the callee, so `if value not in self: raise KeyError` is followed precisely.
    A test of the storage's emptiness (`not self.values`, `len(self.values) == 0`) is remembered along the path (until the storage
    is changed): an empty storage is bisected without a single comparison, so no TypeError arises there.
    """

    def __init__(self, prog, storages=()):
        self.P = prog
        self.sites = 0
        self.storages = set(storages)

    def should_inline(self, func, call, ctx):
        return True

    def classify(self, call, ctx: Ctx):
        if (self.P.external_name(ctx.func.mod, call.func) or "").startswith("bisect."):
            return "bisect"
        return None

    def _empty_test(self, test, ctx):
        """True: `test` holds iff the storage is empty; False: iff it is non-empty; None: something else"""
        t = test
        if isinstance(t, ast.Attribute) and ctx.scope.is_self(t.value) and t.attr in self.storages:
            return False
        if isinstance(t, ast.Compare) and len(t.ops) == 1 and isinstance(t.left, ast.Call) and src(t.left.func) == "len" and t.left.args \
                and isinstance(t.left.args[0], ast.Attribute) and ctx.scope.is_self(t.left.args[0].value) \
                and t.left.args[0].attr in self.storages and const_value(t.comparators[0], None) == 0:
            if isinstance(t.ops[0], (ast.Eq, ast.LtE)):
                return True
            if isinstance(t.ops[0], (ast.NotEq, ast.Gt)):
                return False
        return None

    def refine(self, test, state, ctx):
        orderable, ret, empty = state
        if isinstance(test, ast.UnaryOp) and isinstance(test.op, ast.Not):
            t, f = self.refine(test.operand, state, ctx)
            return f, t
        if isinstance(test, ast.Compare) and len(test.ops) == 1 and isinstance(test.ops[0], (ast.In, ast.NotIn)) \
                and isinstance(ret, bool) and ctx.scope.is_self(test.comparators[0]):
            truth = ret if isinstance(test.ops[0], ast.In) else not ret
            return ((state,), ()) if truth else ((), (state,))
        et = self._empty_test(test, ctx)
        if et is not None:
            if empty is None:
                yes, no = (orderable, ret, et), (orderable, ret, not et)       # test true <=> empty == et
                return (yes,), (no,)
            return ((state,), ()) if empty == et else ((), (state,))
        return (state,), (state,)

    def event(self, kind, node, state, ctx):
        orderable, ret, empty = state
        if kind == "stmt":
            return ((orderable, None, empty),)
        if kind == "return":
            v = node.value
            return ((orderable, v.value if isinstance(v, ast.Constant) and isinstance(v.value, bool) else None, empty),)
        if kind in ("call", "store", "del", "aug") and empty is not None:
            # the storage changes: what was known about its emptiness is gone
            tgt = node.func.value if kind == "call" and isinstance(node, ast.Call) and isinstance(node.func, ast.Attribute) else node
            while isinstance(tgt, ast.Subscript):
                tgt = tgt.value
            if isinstance(tgt, ast.Attribute) and ctx.scope.is_self(tgt.value) and tgt.attr in self.storages \
                    and (kind != "call" or node.func.attr in ("insert", "append", "pop", "remove", "clear", "extend", "sort")):
                return ((orderable, ret, None),)
        if kind == "bisect":
            self.sites += 1
            if empty is True:
                return (state,)                    # no element to compare with: no comparison, no TypeError
            if orderable is None:
                return (("yes", ret, empty), RaiseExc(("no", ret, empty), "TypeError"))
            if orderable == "no":
                return (RaiseExc(state, "TypeError"),)
        return (state,)


def r3_unorderable(prog, rep: Report, sf: SortedFacts):
    rep.rule("C09.R3", "unorderable probe reports absent: a TypeError raised at the comparison site (bisect) cannot escape "
             "the probing entry points (in, lookup, del, remove, pop, get): it meets a handler that turns it into "
             "False / KeyError", floor=6)
    probes = {sf.sset: ["__contains__", "remove"],
              sf.smap: ["__getitem__", "__delitem__", "__contains__", "get", "pop"]}
    for c, names in probes.items():
        for name in names:
            f = prog.resolve(c, name)
            if f is None:
                rep.unrec("C09.R3", (c.relpath, c.short, c.node.lineno), f"probe:{name}", "entry point not resolvable")
                continue
            rep.fn(f)
            client = _TypeErrorEscape(prog, {x for x in (sf.key_storage[c.qual], sf.value_storage(c)) if x})
            it = Interp(prog, client)
            ex = it.run(f, {(None, None, None)}, c)
            where = (c.relpath, f"{c.short}.{name}", f.node.lineno if not f.cls.is_external else c.node.lineno)
            if client.sites == 0:
                rep.unrec("C09.R3", where, f"probe:{name}", "the entry point never reaches the bisect comparison site")
                continue
            escapes = [n for (_, n) in ex.exc if n == "TypeError"]
            if not escapes and name in ("get", "pop", "__contains__"):
                # with a default (get / pop) or for `in`, an unorderable probe must come back normally
                finals_no = [s_ for s_ in (ex.normal | ex.ret) if s_[0] == "no"]
                if not finals_no:
                    rep.viol("C09.R3", where, f"probe:{name}",
                             f"an unorderable probe can leave {c.name}.{name} only through an exception: the absent key is not "
                             f"reported through the default / False",
                             scenario=f"{c.name}({{1: 'a'}}).{name}(None, 'dflt') raises KeyError instead of returning 'dflt' like dict"
                             if name != "__contains__" else f"`None in {c.name}(...)` raises instead of answering False")
                    continue
            rep.check("C09.R3", where, f"probe:{name}", not escapes,
                      f"TypeError of the comparison is handled on the call chain ({client.sites} site(s) reached)",
                      f"a TypeError raised by the comparison escapes {c.name}.{name}",
                      scenario=f"probing a {c.name} of numbers with 'a' raises TypeError instead of reporting absent")


# ---------------------------------------------------------------------------------------------- R4 / R5
class _Parallel(Client):
    """state = (present?, pending ops on the key array not yet mirrored on the value array)"""

    def __init__(self, sf: SortedFacts, c: Cls, f: Func):
        self.sf, self.c, self.f = sf, c, f
        self.ks = sf.key_storage[c.qual]
        self.vs = sf.value_storage(c)
        self.key_param = f.params[1] if len(f.params) > 1 else None
        self.flow = Flow(f.node)
        self.problems: List[Tuple[int, str]] = []
        self.ops = 0
        self.flag_names: Set[str] = set()
        self.index_names: Set[str] = set()
        probe = sf.probe[c.qual]
        for n in walk_own(f.node):
            if isinstance(n, ast.Assign) and len(n.targets) == 1 and isinstance(n.value, ast.Call) \
                    and isinstance(n.value.func, ast.Attribute) and n.value.func.attr == probe.name \
                    and isinstance(n.value.func.value, ast.Name) and n.value.func.value.id == f.self_name:
                arg_ok = len(n.value.args) == 1 and isinstance(n.value.args[0], ast.Name) and n.value.args[0].id == self.key_param
                t = n.targets[0]
                if isinstance(t, ast.Tuple) and len(t.elts) == 2 and all(isinstance(e, ast.Name) for e in t.elts):
                    if arg_ok:
                        self.index_names.add(t.elts[0].id)
                        self.flag_names.add(t.elts[1].id)
                    else:
                        self.problems.append((n.lineno, f"`{src(n)}` probes with something other than the key parameter"))

    def should_inline(self, func, call, ctx):
        return False

    def refine(self, test, state, ctx):
        present, pend = state
        if isinstance(test, ast.UnaryOp) and isinstance(test.op, ast.Not):
            t, f = self.refine(test.operand, state, ctx)
            return f, t
        if isinstance(test, ast.Name) and test.id in self.flag_names:
            return ((True, pend),), ((False, pend),)
        # append fast path: relation of the key to the last stored key / emptiness of the storage
        if isinstance(test, ast.Compare) and len(test.ops) == 1:
            l, r, op = test.left, test.comparators[0], test.ops[0]

            def is_last(e):
                return isinstance(e, ast.Subscript) and self._arr(e.value) == "k" and const_value(e.slice) == -1

            def is_key(e):
                return isinstance(e, ast.Name) and e.id == self.key_param
            if (is_key(l) and is_last(r)) or (is_last(l) and is_key(r)):
                T, F = [], []
                for rel, (kv, lv) in (("gt", (1, 0)), ("eq", (0, 0)), ("lt", (0, 1))):
                    a, b = (kv, lv) if is_key(l) else (lv, kv)
                    res = {ast.Lt: a < b, ast.LtE: a <= b, ast.Gt: a > b, ast.GtE: a >= b, ast.Eq: a == b, ast.NotEq: a != b}.get(type(op))
                    if res is None:
                        return (state,), (state,)
                    st2 = (present, pend + (("rel", rel),))
                    (T if res else F).append(st2)
                return T, F
            if isinstance(l, ast.Call) and src(l.func) == "len" and l.args and self._arr(l.args[0]) == "k" and const_value(r, None) == 0 \
                    and isinstance(op, (ast.Eq, ast.NotEq, ast.Gt)):
                e = (present, pend + (("rel", "empty"),))
                return ((e,), (state,)) if isinstance(op, ast.Eq) else ((state,), (e,))
        return (state,), (state,)

    def _arr(self, e) -> Optional[str]:
        d = dotted(e)
        if d and len(d) == 2 and d[0] == self.f.self_name:
            if d[1] == self.ks:
                return "k"
            if d[1] == self.vs:
                return "v"
        return None

    def _op(self, arr, kind, idx, lineno, state):
        present, pend = state
        self.ops += 1
        idx_s = src(idx)
        if not (isinstance(idx, ast.Name) and idx.id in self.index_names):
            self.problems.append((lineno, f"index `{idx_s}` of the {kind} is not the index returned by the probe for the key"))
        if kind == "insert" and present is not False:
            self.problems.append((lineno, f"insert into the storage on a path where the key is not known to be absent"))
        if kind in ("delete", "store") and present is not True:
            self.problems.append((lineno, f"{kind} in the storage on a path where the key is not known to be present"))
        item = (kind, idx_s)
        if arr == "k":
            if self.vs is None:
                return state  # a set has no value array to mirror
            return (present, pend + (item,))
        # value array: must mirror a pending key op, except overwriting the value of a present key
        if item in pend:
            lst = list(pend)
            lst.remove(item)
            return (present, tuple(lst))
        if kind == "store":
            return state
        return (present, pend + (("unmirrored-" + kind, idx_s),))

    def event(self, kind, node, state, ctx):
        if kind == "call" and isinstance(node, ast.Call) and isinstance(node.func, ast.Attribute):
            arr = self._arr(node.func.value)
            if arr and node.func.attr == "insert" and len(node.args) == 2:
                return (self._op(arr, "insert", node.args[0], node.lineno, state),)
            if arr == "k" and node.func.attr == "append" and len(node.args) == 1 and isinstance(node.args[0], ast.Name) \
                    and node.args[0].id == self.key_param and self.vs is None:
                present, pend = state
                rels = {p[1] for p in pend if p[0] == "rel"}
                self.ops += 1
                if not rels or not rels <= {"gt", "empty"}:
                    self.problems.append((node.lineno, f"`{src(node)}` appends the key on a path where it is not known to be greater "
                                                       f"than the last stored key (relation: {sorted(rels) or 'unknown'}): an equal key is "
                                                       f"stored twice / a smaller one breaks the order"))
                return ((present, tuple(p for p in pend if p[0] != "rel")),)
            if arr and node.func.attr in ("append", "pop", "remove", "extend", "clear", "sort", "reverse"):
                self.problems.append((node.lineno, f"`{src(node)}`: operation on one of the parallel arrays that is not "
                                                   f"index-aligned"))
        if kind == "del" and isinstance(node, ast.Subscript):
            arr = self._arr(node.value)
            if arr:
                return (self._op(arr, "delete", node.slice, node.lineno, state),)
        if kind == "store" and isinstance(node, ast.Subscript):
            arr = self._arr(node.value)
            if arr:
                return (self._op(arr, "store", node.slice, node.lineno, state),)
        return (state,)


def r4_parallel(prog, rep: Report, sf: SortedFacts):
    rep.rule("C09.R4", "parallel arrays and index provenance: every insert/delete/overwrite in the key and value storage "
             "uses the index returned by insertions_index(<the key>), insertion only on the not-present branch, "
             "deletion/overwrite only on the present branch, and both arrays are changed together at the same index",
             floor=5)
    # read off the path summaries (sa/paths.py): private helpers are followed, the probe is a leaf whose result is
    # (index, present); named intermediate values and the arrangement of the branches do not matter
    from ..paths import strip_versions, subterms, summaries, show
    for c, names in ((sf.smap, ["__setitem__", "__delitem__", "__getitem__"]), (sf.sset, ["add", "discard"])):
        probe_name = sf.probe[c.qual].name
        KS = ("attr", ("self",), sf.key_storage[c.qual])
        VS = ("attr", ("self",), sf.value_storage(c)) if c is sf.smap else None
        for name in names:
            f = prog.method(c, name)
            rep.fn(f)
            key = ("p", f.params[1])

            def inline(func, call, ctx, _pn=probe_name):
                return func.name != _pn and func.cls is not None and not func.cls.is_external
            ps, un = summaries(prog, f, c, inline=inline)
            if un:
                rep.unrec("C09.R4", f, "index", "; ".join(un))
                continue

            def is_probe(t):
                return isinstance(t, tuple) and t[0] in ("eff", "mcall") and t[1] == probe_name and t[2] == ("self",) \
                    and (t[3] if t[0] == "eff" else t[3]) == (key,)

            def is_index(t):
                t = strip_versions(t)
                return isinstance(t, tuple) and t[0] == "sub" and is_probe(t[1]) and t[2] == ("c", 0)

            def is_present(t):
                t = strip_versions(t)
                return isinstance(t, tuple) and t[0] == "sub" and is_probe(t[1]) and t[2] == ("c", 1)
            probed = any(e[0] == "call" and e[1] == probe_name for p_ in ps for e in p_.events)
            if not probed:
                rep.unrec("C09.R4", f, "index", f"no call of self.{probe_name}(key) on any path")
                continue
            problems, n_ops = [], 0
            lookup_ok = None
            for p_ in ps:
                present = None
                for d, o in p_.decisions:
                    t, neg = d, False
                    while isinstance(t, tuple) and t and t[0] == "not":
                        t, neg = t[1], not neg
                    if is_present(t):
                        present = (o != neg)
                ops = {"K": [], "V": []}
                for e in p_.events:
                    kind = idx = arr = None
                    if e[0] == "call" and e[1] in ("insert", "pop", "append", "remove", "clear", "extend", "sort", "reverse") and e[2] is not None:
                        base = strip_versions(e[2])
                        arr = "K" if base == KS else "V" if VS is not None and base == VS else None
                        if arr:
                            kind = {"insert": "insert", "pop": "remove"}.get(e[1], e[1])
                            idx = e[3][0] if e[3] else None
                            val = e[3][1] if len(e[3]) > 1 else None
                    elif e[0] == "delitem":
                        base = strip_versions(e[1])
                        arr = "K" if base == KS else "V" if VS is not None and base == VS else None
                        kind, idx, val = "remove", e[2], None
                    elif e[0] == "setitem":
                        base = strip_versions(e[1])
                        arr = "K" if base == KS else "V" if VS is not None and base == VS else None
                        kind, idx, val = "overwrite", e[2], e[3]
                        sl = strip_versions(idx)
                        if isinstance(sl, tuple) and sl[0] == "slice" and sl[1] == sl[2] and sl[3] == ("c", None):
                            # lst[i:i] = [v]: insertion of v at i
                            vv = strip_versions(val) if val is not None else None
                            kind, idx = "insert", e[2][1]
                            val = vv[1] if isinstance(vv, tuple) and vv[0] == "list" and len(vv) == 2 else None
                    if not arr:
                        continue
                    n_ops += 1
                    if kind not in ("insert", "remove", "overwrite"):
                        problems.append(f"`{kind}` on one of the storage arrays is not an index-aligned operation")
                        continue
                    if idx is None or not is_index(idx):
                        problems.append(f"a storage {kind} uses the index `{show(idx) if idx is not None else '?'}`, not the index the probe "
                                        "returned for the key")
                    if kind == "insert" and present is not False:
                        problems.append("an insertion happens on a path where the probe did not report the key absent")
                    if kind in ("remove", "overwrite") and present is not True:
                        problems.append(f"a {kind} happens on a path where the probe did not report the key present")
                    if kind == "insert" and arr == "K" and val is not None and val != key:
                        problems.append("the value inserted into the key storage is not the key")
                    ops[arr].append((kind, strip_versions(idx) if idx is not None else None))
                if VS is not None:
                    k_struct = sorted(o_ for o_ in ops["K"] if o_[0] != "overwrite")
                    v_struct = sorted(o_ for o_ in ops["V"] if o_[0] != "overwrite")
                    if k_struct != v_struct:
                        problems.append("operations on one array without the mirror operation on the other: "
                                        f"keys {[o_[0] for o_ in k_struct]}, values {[o_[0] for o_ in v_struct]}")
                    if any(o_[0] == "overwrite" for o_ in ops["K"]):
                        problems.append("a key is overwritten in place")
                if name == "__getitem__" and p_.exit == "return":
                    v = strip_versions(p_.value)
                    good = isinstance(v, tuple) and v[0] == "sub" and v[1] == VS and is_index(v[2]) and present is True
                    lookup_ok = good if lookup_ok is None else (lookup_ok and good)
            if name == "__getitem__":
                rep.check("C09.R4", f, "lookup", bool(lookup_ok) and not problems,
                          "lookup returns value_storage[index of the probe] on the present branch",
                          "lookup does not return value_storage[<index returned by the probe for the key>] on the present branch"
                          + "".join(f"; {m}" for m in sorted(set(problems))),
                          scenario="m[k] returns the value of a neighbouring key")
                continue
            rep.check("C09.R4", f, "aligned", not problems and n_ops > 0,
                      f"{n_ops} storage operations over {len(ps)} paths, index-aligned and on the right branch",
                      "; ".join(sorted(set(problems))) or "no storage operation found",
                      scenario="keys and values drift apart: m[k] returns another key's value; or a present key is inserted "
                               "twice / an absent key deletes its neighbour")


def r5_provenance(prog, rep: Report, sf: SortedFacts):
    rep.rule("C09.R5", "probe shape: insertions_index bisects the key storage with bisect_left for the probed value, guards "
             "the equality probe storage[i] against i == len, and reports present only under the equality test", floor=2)
    from ..absint import RaiseExc
    from ..paths import strip_versions
    from ..symenv import SymClient, run_sym
    for c in (sf.smap, sf.sset):
        f = sf.probe[c.qual]
        rep.fn(f)
        ks = sf.key_storage[c.qual]
        x = f.params[1]
        KS = ("attr", ("self",), ks)
        X = ("p", x)

        class _Probe(SymClient):
            """insertions_index in one world: the bisect index equals len / the key there equals x / differs from x"""

            def __init__(s_, world):
                super().__init__()
                s_.world = world
                s_.bisects = set()
                s_.undecided = []
                s_._ver = 0

            def should_inline(s_, func, call, ctx):
                if func.cls is None:
                    return func.name.startswith("_") and func.mod is f.mod          # a private function of the module
                return not func.cls.is_external and func.name.startswith("_") and not func.name.startswith("__")

            def refine(s_, test, state, ctx):
                s_._ver = state[1]
                return super().refine(test, state, ctx)

            def handler_entry(s_, handler, trace_states, ctx):
                names = {n_.id if isinstance(n_, ast.Name) else n_.attr for n_ in ast.walk(handler.type)
                         if isinstance(n_, (ast.Name, ast.Attribute))} if handler.type is not None else {"BaseException"}
                if names <= {"IndexError", "LookupError"} and s_.world in ("equal", "other"):
                    return set()                  # the index is inside the storage in these worlds: no IndexError can arise
                if names & {"TypeError"}:
                    # an unorderable probe (the business of C09.R3): outside the three worlds
                    return {(st_[0], st_[1], "typeerror") for st_ in trace_states}
                return trace_states

            def _is_I(s_, t):
                return isinstance(t, tuple) and t[0] == "call" and t[1].startswith("bisect") and len(t[2]) >= 2 and t[2][0] == KS and t[2][1] == X

            def _role(s_, t):
                t = strip_versions(t)
                if s_._is_I(t):
                    return "I"
                if t == ("call", "len", (KS,)) or t == ("call", "len", (("self",),)):
                    return "LEN"
                if isinstance(t, tuple) and t[0] == "sub" and t[1] == KS and s_._is_I(t[2]):
                    return "AT"
                if t == X:
                    return "X"
                return None

            def decide(s_, term, node, env, user, ctx):
                if s_.world is None:
                    return None
                t = term
                neg = False
                while t[0] == "not":
                    t, neg = t[1], not neg
                r = None
                if t[0] == "cmp":
                    a, b = s_._role(t[2]), s_._role(t[3])
                    if {a, b} == {"I", "LEN"}:
                        o = 0 if s_.world == "end" else -1          # I - LEN
                        if a == "LEN":
                            o = -o
                        r = {"Lt": o < 0, "LtE": o <= 0, "Gt": o > 0, "GtE": o >= 0, "Eq": o == 0, "NotEq": o != 0}.get(t[1])
                    elif {a, b} == {"AT", "X"} and t[1] in ("Eq", "NotEq") and s_.world in ("equal", "other"):
                        r = (s_.world == "equal") == (t[1] == "Eq")
                if r is None:
                    s_.undecided.append(src(node))
                    flagged = s_.pack(env, s_._ver, "undecided")
                    return ((flagged,), (flagged,))
                return r != neg

            def on(s_, kind, node, env, ver, user, ctx):
                if kind == "call" and isinstance(node, ast.Call):
                    nm = ext_name(prog, ctx.func, node) or ""
                    if nm.startswith("bisect."):
                        s_.bisects.add((nm, tuple(strip_versions(s_.sym(a, env, ver, ctx)) for a in node.args), bool(node.keywords)))
                if s_.world == "end" and kind == "subscript" and isinstance(node, ast.Subscript):
                    if s_._role(s_.sym(node, env, ver, ctx)) == "AT":
                        return RaiseExc(s_.pack(env, ver, user), "IndexError")
                return None
        disc = _Probe(None)
        it0, _ = run_sym(prog, disc, f, c)
        if it0.unrecognised or len(disc.bisects) != 1:
            rep.unrec("C09.R5", f, "probe", "; ".join(it0.unrecognised) or f"expected one bisect call, found {len(disc.bisects)}")
            continue
        nm, bargs, kw = next(iter(disc.bisects))
        left = nm == "bisect.bisect_left" and bargs == (KS, X) and not kw
        rep.check("C09.R5", f, "bisect-left", left, f"insertion index = bisect_left(self.{ks}, {x})",
                  f"the insertion index is not bisect.bisect_left(self.{ks}, {x})",
                  scenario="with bisect_right a present key is never found (the probe looks one past it): duplicates are inserted")
        if not (bargs == (KS, X) and not kw):
            rep.unrec("C09.R5", f, "probe", "the bisect call is not over the key storage and the probed value")
            continue
        I = ("call", nm, (KS, X))
        want = {"end": ("tuple", I, ("c", False)), "equal": ("tuple", I, ("c", True)), "other": ("tuple", I, ("c", False))}
        res = {}
        for world in ("end", "equal", "other"):
            cl = _Probe(world)
            it_, ex_ = run_sym(prog, cl, f, c)
            if it_.unrecognised:
                res[world] = ("unrec", "; ".join(it_.unrecognised))
                continue
            outs = {(("ret", strip_versions(cl.returned(st_))), st_[2] == "undecided") for st_ in ex_.ret | ex_.normal
                    if st_[2] != "typeerror"} | \
                   {(("exc", nm_), st_[2] == "undecided") for st_, nm_ in ex_.exc if st_[2] != "typeerror"}
            wrong = [(o, u) for o, u in outs if o != ("ret", want[world])]
            if not wrong:
                res[world] = ("ok", "")
            elif all(u for _, u in wrong):
                res[world] = ("unrec", f"the outcome depends on a test that is not about the index, len or the probed key: {cl.undecided[:1]}")
            else:
                o = [o for o, u in wrong if not u][0]
                res[world] = ("viol", "IndexError" if o == ("exc", "IndexError") else
                              (f"raises {o[1]}" if o[0] == "exc" else "returns " + ("(i, True)" if o[1][-1:] == (("c", True),) else "something else")))
        k_end, m_end = res["end"]
        if k_end == "unrec":
            rep.unrec("C09.R5", f, "probe-guarded", m_end)
        else:
            rep.check("C09.R5", f, "probe-guarded", k_end == "ok", "storage[i] probe guarded against i == len",
                      f"when the insertion index equals the length the probe {m_end}: the equality probe storage[i] is neither inside an "
                      "IndexError handler nor guarded by i < len",
                      scenario="probing with a value greater than every stored key raises IndexError")
        bad = [(w, m) for w, (k, m) in res.items() if w != "end" and k == "viol"]
        un = [(w, m) for w, (k, m) in res.items() if w != "end" and k == "unrec"]
        if bad:
            rep.viol("C09.R5", f, "present-iff-equal", f"when the key at the insertion index is {'equal to' if bad[0][0] == 'equal' else 'different from'} "
                     f"the probed value the probe {bad[0][1]}: present must be reported exactly under `storage[i] == x`",
                     scenario="absent keys are reported present: add() drops new values / lookup returns a neighbour's value")
        elif un:
            rep.unrec("C09.R5", f, "present-iff-equal", un[0][1])
        else:
            rep.ok("C09.R5", f, "present-iff-equal", "(i, True) exactly when storage[i] == x, (i, False) otherwise (three worlds, every path)")


def _guarded_by_len(n, idx_name) -> bool:
    p = getattr(n, "_parent", None)
    while p is not None and not isinstance(p, ast.FunctionDef):
        if isinstance(p, (ast.If, ast.IfExp, ast.BoolOp)):
            t = p.test if not isinstance(p, ast.BoolOp) else p
            for sub in ast.walk(t):
                if isinstance(sub, ast.Compare) and any(isinstance(x, ast.Name) and x.id == idx_name for x in ast.walk(sub)) \
                        and any(isinstance(x, ast.Call) and src(x.func) == "len" for x in ast.walk(sub)):
                    return True
        p = getattr(p, "_parent", None)
    return False


# ---------------------------------------------------------------------------------------------- R6
def r6_validation(prog, rep: Report, sf: SortedFacts):
    rep.rule("C09.R6", "key validation: SortedMap.__setitem__ rejects keys that are not int/float or are NaN before touching "
             "the storage (truth table over isinstance(key, int), isinstance(key, float), key != key)", floor=1)
    f = prog.method(sf.smap, "__setitem__")
    rep.fn(f)
    key = f.params[1]
    # one run per row of the truth table; what matters is what __setitem__ *does* for such a key (raise before touching the
    # storage, or go on), not how the tests are arranged or named
    from ..paths import strip_versions, summaries
    K = ("p", key)
    probe_name = sf.probe[sf.smap.qual].name

    def assume_row(env):
        def a(term):
            t, neg = term, False
            while isinstance(t, tuple) and t and t[0] == "not":
                t, neg = t[1], not neg
            t = strip_versions(t)
            r = None
            if t[0] == "call" and t[1] == "isinstance" and len(t[2]) == 2 and t[2][0] == K:
                ty = t[2][1]
                names = [x[1] for x in (ty[1:] if ty[0] == "tuple" else (ty,)) if isinstance(x, tuple) and x[0] == "free"]
                if names and set(names) <= {"int", "float"} and len(names) == (len(ty) - 1 if ty[0] == "tuple" else 1):
                    r = any(env[n] for n in names)
            elif t[0] == "cmp" and t[2] == K and t[3] == K and t[1] in ("NotEq", "Eq"):
                r = env["nan"] if t[1] == "NotEq" else not env["nan"]
            elif t[0] == "call" and t[1] in ("math.isnan", "isnan") and t[2] == (K,):
                r = env["nan"]
            if r is None:
                return None
            return r != neg
        return a
    rows = []
    bad, undecided = [], []
    for i in (False, True):
        for fl in (False, True):
            for nan in (False, True):
                if (nan and not fl) or (i and fl):
                    continue                       # NaN is a float; a value has one type
                env = {"int": i, "float": fl, "nan": nan}
                want = (not (i or fl)) or nan

                def inline(func, call, ctx):
                    return func.name != probe_name and func.cls is not None and not func.cls.is_external
                ps, un = summaries(prog, f, sf.smap, assume=assume_row(env), inline=inline)
                if un:
                    rep.unrec("C09.R6", f, "validation", "; ".join(un))
                    return
                got = set()
                for p_ in ps:
                    touched = any(e[0] in ("setitem", "delitem") or (e[0] == "call" and e[1] in (probe_name, "insert", "append", "pop"))
                                  for e in p_.events)
                    rejected = p_.exit == "raise:TypeError" and not touched
                    # tests that are not about the key's type (present / absent) do not matter as long as both arms agree
                    got.add(rejected)
                rows.append({"int": i, "float": fl, "nan": nan, "raises": sorted(got), "expected": want})
                if got != {want}:
                    (bad if len(got) == 1 else undecided).append(env)
    rep.count("truth_table_rows", len(rows))
    if bad:
        rep.viol("C09.R6", f, "validation", f"for a key with {bad[0]} __setitem__ does not " +
                 ("reject it with TypeError before touching the storage" if ((not (bad[0]['int'] or bad[0]['float'])) or bad[0]['nan']) else "accept it") +
                 ": the validation does not reject exactly the non-numeric and NaN keys", witness=rows,
                 scenario="m[float('nan')] = 1 is accepted: NaN compares unequal to itself, is never found "
                          "again and breaks the order; or m[1.5] = x is rejected")
    elif undecided:
        rep.unrec("C09.R6", f, "validation", f"for a key with {undecided[0]} the outcome depends on a test that is not about the key's type")
    else:
        rep.ok("C09.R6", f, "validation", f"rejects exactly non-numeric and NaN keys, before the storage is touched ({len(rows)} rows, every path)")


# ---------------------------------------------------------------------------------------------- R7
def r7_observers(prog, rep: Report, sf: SortedFacts):
    rep.rule("C09.R7", "observers delegate to the key storage: len is len(storage) and iteration walks the storage in "
             "order (sortedness is then the storage's, by R4/R5 and bisect)", floor=4)
    for c in (sf.smap, sf.sset):
        ks = sf.key_storage[c.qual]
        f = prog.method(c, "__len__")
        rep.fn(f)
        ok = any(isinstance(r.value, ast.Call) and src(r.value.func) == "len" and r.value.args
                 and dotted(r.value.args[0]) == (f.self_name, ks) for r in returns_of(f.node))
        rep.check("C09.R7", f, "len", ok, f"len(self.{ks})", f"__len__ does not return len(self.{ks})",
                  scenario="len(s) differs from the number of stored keys")
        g = prog.method(c, "__iter__")
        rep.fn(g)
        exprs = [r.value for r in returns_of(g.node) if r.value is not None] + \
                [n.value for n in walk_own(g.node) if isinstance(n, ast.YieldFrom)]
        loops = [n.iter for n in walk_own(g.node) if isinstance(n, ast.For)]
        ok = False
        for e in exprs + loops:
            inner = e.args[0] if isinstance(e, ast.Call) and src(e.func) == "iter" and e.args else e
            if dotted(inner) == (g.self_name, ks):
                ok = True
            if any(isinstance(x, ast.Call) and src(x.func) in ("reversed", "sorted", "set") for x in ast.walk(e)):
                ok = False
        rep.check("C09.R7", g, "iter", ok, f"iterates self.{ks} in storage order",
                  f"__iter__ does not walk self.{ks} front to back",
                  scenario="iteration is not ascending / lists values instead of keys")
