"""Derived state is refreshed whenever the state it was derived from changes (shared by several properties).

A class keeps its *primary* state in a few fields that the property's other rules know by role (the cache's dict and list, the
sorted key/value arrays, the line table and the file handle ...).  Any *other* instance field that
  * is assigned outside the constructor, or updated in place outside the constructor (``self.m[k] = v``), or assigned in the
    constructor from an expression that mentions a primary field (a bound method of it, a snapshot of it), and
  * is read somewhere in the class,
is derived state: a memo, a snapshot, a cursor, a remembered node.  The rule is an all-paths typestate over every public entry
point of the class (inherited mixin methods included, own helpers inlined):

    CLEAN --(primary state mutated)--> STALE --(derived field re-assigned / cleared)--> CLEAN

and a normal exit in STALE is reported: the next use of the derived field answers from before the mutation.  The pairing is per
path, not per order (an invalidation may precede the mutation it is meant for), a path that itself *reads* the derived field counts
as aware of it (it validates what it read or is the operation that maintains it), and implicit exceptions enter handlers only
from before a mutation.  These three relaxations were made after repaired twins of seeded changes (correct memos) were reported.  "Mutated" is a
store / delete / augmented assignment to a primary field or through it (``self.cache[k] = n``, ``del self.values[i]``) or a
call of a method on a primary field that is not in the read-only table below.  What the derived value *is* does not matter to
the rule, so it holds for fields that do not exist yet.
"""
from __future__ import annotations

import ast
from typing import Dict, Iterable, List, Optional, Set, Tuple

from ..absint import Client, Ctx, Interp
from ..model import Cls, Func, Program, walk_own
from ..report import Report
from ..resolve import dotted
from ..util import src

READ_ONLY_CALLS = {"get", "keys", "values", "items", "index", "count", "copy", "__len__", "__iter__", "__contains__", "__getitem__",
                   "tell", "fileno", "readable", "seekable", "isatty", "find", "rfind", "startswith", "endswith", "is_set",
                   "qsize", "empty", "full"}


MUTATOR_CALLS = {"append", "appendleft", "insert", "pop", "popleft", "popitem", "remove", "clear", "extend", "sort", "reverse", "update",
                 "add", "discard", "setdefault", "__setitem__", "__delitem__", "move_to_end"}


def own_methods(c: Cls) -> List[Func]:
    """the repository's methods an instance of ``c`` can run: first definition along the MRO wins (shadowed ones are left out,
    unless something reaches them through super(), which the inlining of the entry points covers)"""
    out = []
    seen: Set[str] = set()
    for k in c.repo_mro():
        for name, f in k.methods.items():
            if name in seen:
                continue
            seen.add(name)
            if k.is_external:
                continue
            if f.self_name is not None and not f.is_abstract:
                out.append(f)
    return out


def field_uses(c: Cls):
    """(stores, inplace, loads): field -> list of (func, node) for plain stores, in-place updates and reads of self.<field>"""
    stores: Dict[str, List[Tuple[Func, ast.AST]]] = {}
    inplace: Dict[str, List[Tuple[Func, ast.AST]]] = {}
    loads: Dict[str, List[Tuple[Func, ast.AST]]] = {}
    for f in own_methods(c):
        me = f.self_name
        for n in walk_own(f.node):
            if isinstance(n, ast.Attribute) and isinstance(n.value, ast.Name) and n.value.id == me:
                par = getattr(n, "_parent", None)
                if isinstance(n.ctx, (ast.Store, ast.Del)):
                    stores.setdefault(n.attr, []).append((f, n))
                elif isinstance(par, ast.Subscript) and par.value is n and isinstance(par.ctx, (ast.Store, ast.Del)):
                    inplace.setdefault(n.attr, []).append((f, n))
                elif isinstance(par, ast.AugAssign) and par.target is n:
                    stores.setdefault(n.attr, []).append((f, n))
                else:
                    loads.setdefault(n.attr, []).append((f, n))
                    if isinstance(par, ast.Attribute) and isinstance(getattr(par, "_parent", None), ast.Call) \
                            and par._parent.func is par and par.attr in MUTATOR_CALLS:
                        inplace.setdefault(n.attr, []).append((f, n))
    return stores, inplace, loads


def _only_reported(uses, fld: str) -> bool:
    """every read of the field is in an accessor that just returns it (`return self.f`, a property), in __repr__/__str__, or is the
    read half of `self.f += <const>` written as `self.f = self.f + 1`: the value is reported, never used to decide or compute
    anything the operations do (hit / miss / eviction counters)"""
    for f, n in uses:
        if f.name in ("__repr__", "__str__"):
            continue
        body = [s for s in f.node.body if not (isinstance(s, ast.Expr) and isinstance(s.value, ast.Constant))]
        if len(body) == 1 and isinstance(body[0], ast.Return) and body[0].value is n:
            continue
        st = n
        while st is not None and not isinstance(st, ast.stmt):
            st = getattr(st, "_parent", None)
        if isinstance(st, ast.Assign) and len(st.targets) == 1 and dotted(st.targets[0]) == (f.self_name, fld) \
                and isinstance(st.value, ast.BinOp) and st.value.left is n and isinstance(st.value.right, ast.Constant):
            continue
        return False
    return True


def derived_fields(c: Cls, primary: Set[str], config: Set[str] = frozenset()) -> Dict[str, Tuple[str, str]]:
    """field -> (why it counts as derived state, 'content' | 'identity')"""
    stores, inplace, loads = field_uses(c)
    out: Dict[str, str] = {}
    for fld in sorted(set(stores) | set(inplace)):
        if fld in primary or fld in config:
            continue
        if fld not in loads:
            continue                      # written but never read: cannot influence behaviour
        if _only_reported(loads[fld], fld):
            continue                      # a statistic: read only to be handed out (accessor / __repr__), it steers nothing
        why = None
        for f, n in stores.get(fld, []) + inplace.get(fld, []):
            if f.name != "__init__":
                why = f"written in {f.name}"
                break
        kind = "content"
        if why is None:
            for f, n in stores.get(fld, []):
                st = n
                while st is not None and not isinstance(st, ast.stmt):
                    st = getattr(st, "_parent", None)
                val = getattr(st, "value", None)
                if val is not None and any(isinstance(x, ast.Attribute) and isinstance(x.value, ast.Name) and x.value.id == f.self_name
                                           and x.attr in primary for x in ast.walk(val)):
                    why = f"initialised from primary state (`{src(val)[:50]}`)"
                    # an alias or a bound method of the primary object follows its in-place changes; only a re-assignment of
                    # the primary field leaves it behind
                    d = dotted(val)
                    if d and d[0] == f.self_name and d[1] in primary:
                        kind = "identity"
        if why:
            out[fld] = (why, kind)
    return out


class _Stale(Client):
    """state = frozenset of ('m', field) = primary state changed in a way that matters to the field, ('r', field) = field
    re-assigned / cleared, both 'somewhere on this path' (an invalidation may precede the mutation it is meant for)"""

    def __init__(self, c: Cls, primary: Set[str], derived: Dict[str, str]):
        self.c, self.primary, self.derived = c, primary, derived     # derived: field -> kind
        self.first_mut: Dict[str, int] = {}

    def should_inline(self, func, call, ctx):
        return func.cls is not None and not func.cls.is_external and func.cls in self.c.repo_mro() and not func.is_generator

    def _prim(self, e, ctx) -> Optional[str]:
        d = dotted(e)
        if d and len(d) >= 2 and ctx.scope.is_self(ast.Name(id=d[0], ctx=ast.Load())) and d[1] in self.primary:
            return d[1]
        return None

    def handler_entry(self, handler, trace_states, ctx):
        # implicit exceptions: a handler is entered from the points of the try body *before* a mutation (the failed look-up of
        # `try: self[k] except KeyError`), not from the middle of a mutate-then-refresh sequence; what a fault between the two
        # leaves behind is outside this rule (explicit raises are followed exactly)
        return {s for s in trace_states if not any(("m", d) in s and ("r", d) not in s for d in self.derived)}

    def _mutated(self, state, line, reassign: bool):
        add = set()
        for d, kind in self.derived.items():
            if kind == "identity" and not reassign:
                continue
            add.add(("m", d))
            if ctx_repo_line(line):
                self.first_mut.setdefault(d, line)
        return (state | add,)

    def event(self, kind, node, state, ctx: Ctx):
        if kind in ("store", "del", "aug"):
            tgt = node
            if isinstance(tgt, ast.Attribute) and ctx.scope.is_self(tgt.value):
                if tgt.attr in self.derived:
                    return (state | {("r", tgt.attr)},)
                if tgt.attr in self.primary:
                    return self._mutated(state, tgt.lineno if not ctx.func.cls.is_external else 0, True)
            if isinstance(tgt, ast.Subscript) and self._prim(tgt.value, ctx):
                return self._mutated(state, tgt.lineno if not ctx.func.cls.is_external else 0, False)
        if kind == "load" and isinstance(node, ast.Attribute) and ctx.scope.is_self(node.value) and node.attr in self.derived:
            # a path that consults the derived field works with it knowingly (it validates what it read, or it is the very
            # operation that maintains it); the obligation is aimed at the operations that change the source *without looking*
            return (state | {("r", node.attr)},)
        if kind == "call" and isinstance(node, ast.Call) and isinstance(node.func, ast.Attribute):
            recv = node.func.value
            if self._prim(recv, ctx) and node.func.attr not in READ_ONLY_CALLS:
                return self._mutated(state, node.lineno if not ctx.func.cls.is_external else 0, False)
            d = dotted(recv)
            if d and len(d) == 2 and ctx.scope.is_self(ast.Name(id=d[0], ctx=ast.Load())) and d[1] in self.derived \
                    and node.func.attr == "clear":
                return (state | {("r", d[1])},)
        return (state,)


def ctx_repo_line(line: int) -> bool:
    return bool(line)


def rule_derived_state(prog: Program, rep: Report, rule: str, c: Cls, primary: Iterable[str], entry_points: List[Func],
                       config: Iterable[str] = (), what: str = "", floor: int = 1, declare: bool = True):
    primary = set(primary)
    if declare:
        rep.rule(rule, f"derived state of {c.name} is refreshed with its source: any field other than the primary state "
                 f"({', '.join(sorted(primary))}) that is written outside the constructor (or built from primary state) and read "
                 "somewhere is re-assigned or cleared, on every path of every public operation that mutates the primary "
                 "state" + (f"; {what}" if what else ""), floor=floor)
    derived = derived_fields(c, primary, set(config))
    anchor = prog.resolve(c, "__init__") or (entry_points[0] if entry_points else None)
    if not derived:
        rep.ok(rule, anchor, f"derived:{c.name}", f"no derived fields: every field besides {sorted(primary)} is constructor-only configuration "
               "or never read")
        return
    bad: Dict[str, Tuple[Func, int]] = {}
    n_ep = 0
    kinds = {d: k for d, (w, k) in derived.items()}
    # own methods first, so that a finding is attributed to the repository's code rather than to an inherited mixin method
    eps = sorted([f for f in entry_points if f.name != "__init__"], key=lambda f: (f.cls is None or f.cls.is_external, f.name))
    for f in eps:
        client = _Stale(c, primary, kinds)
        it = Interp(prog, client)
        ex = it.run(f, {frozenset()}, c)
        if it.unrecognised:
            rep.unrec(rule, f, f"derived:{c.name}:{f.name}", "; ".join(it.unrecognised))
            continue
        n_ep += 1
        for st in ex.normal | ex.ret:
            for d in kinds:
                if ("m", d) in st and ("r", d) not in st:
                    bad.setdefault(d, (f, client.first_mut.get(d) or f.node.lineno))
    for d, (why, kind) in sorted(derived.items()):
        role = f"derived:{c.name}.{d}"
        if d in bad:
            f, ln = bad[d]
            how = "re-assigning the primary field" if kind == "identity" else "mutating the primary state"
            rep.viol(rule, f, role, f"self.{d} is derived state ({why}) and a path of {f.name} returns after {how} "
                     f"(line {ln}) without re-assigning or clearing self.{d} anywhere on that path",
                     scenario=f"the next operation that consults self.{d} answers from before {f.name}: stale hit, stale order, "
                              "stale position", line=ln)
        else:
            rep.ok(rule, anchor, role, f"self.{d} ({why}; {kind}-derived) is refreshed on every mutating path of {n_ep} entry points")


def public_entry_points(prog: Program, c: Cls, include_mixins: bool = True) -> List[Func]:
    """public API of the concrete class as resolved along its MRO (dunder and non-underscore methods)"""
    names: Set[str] = set()
    for k in c.repo_mro():
        if k.is_external and not include_mixins:
            continue
        for m in k.methods:
            if m in ("__init__", "__class_getitem__", "__subclasshook__", "__new__", "__init_subclass__"):
                continue
            if (m.startswith("__") and m.endswith("__")) or not m.startswith("_"):
                names.add(m)
    out = []
    for m in sorted(names):
        f = prog.resolve(c, m)
        if f is None or f.is_abstract or f.is_static or f.is_classmethod or f.self_name is None:
            continue
        out.append(f)
    return out
