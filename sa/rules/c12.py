"""C12 — mutable line files act as a list of lines; save writes it; source untouched (DESIGN.md §6)."""
from __future__ import annotations

import ast
from typing import Dict, List, Optional, Set, Tuple

from ..absint import Client, Ctx, Interp
from ..flow import Flow
from ..model import AnalysisError, Cls, Func, Program, walk_own
from ..report import Report
from ..resolve import const_value, dotted, kwarg
from ..util import assigned_value, calls_in, ext_name, open_mode, returns_of, src
from .c11 import _lines_field, data_path_field
from .filefam import FILES_MOD, Family


def run(prog: Program, rep: Report):
    fam = Family(prog)
    lines = _lines_field(prog, fam)
    mut = prog.cls("BaseMutableRandomLineAccessFile", FILES_MOD)
    rec = prog.cls("BaseMutableRecordFile", FILES_MOD)
    rep.attempt(lambda: r1_delegation(prog, rep, fam, mut, lines))
    rep.attempt(lambda: r2_tagged(prog, rep, fam, mut, rec, lines))
    rep.attempt(lambda: r3_dirty(prog, rep, fam, mut, rec))
    rep.attempt(lambda: r4_save(prog, rep, fam, mut, rec, lines))
    rep.attempt(lambda: r5_readonly(prog, rep, fam))
    rep.attempt(lambda: r6_table_kind(prog, rep, fam, mut, lines))
    rep.attempt(lambda: r7_derived_and_owned(prog, rep, fam, mut, lines))
    from .mixins import MIXIN_METHODS, rule_mixin_surface
    muts = [c for c in fam.line_classes if mut in c.repo_mro()]
    rep.attempt(lambda: rule_mixin_surface(prog, rep, "C12.R9", muts, analysed={(fam.base.name, "__iter__")}))
    # "a list of strings that started as the file's lines": the offset index the lines are read through is part of this property
    from .c11 import r5_index
    rep.attempt(lambda: r5_index(prog, rep, fam, rule="C12.R10", only_binary=True))
    # ... and so is the way an entry that is still an offset is read: the raw line reader and its terminator removal (C11.R3)
    from .c11 import r3_terminator, r3b_raw_reader
    rep.attempt(lambda: r3_terminator(prog, rep, fam, rule="C12.R11"))
    rep.attempt(lambda: r3b_raw_reader(prog, rep, fam, rule="C12.R11"))


def r1_delegation(prog, rep: Report, fam: Family, mut: Cls, lines: str):
    rep.rule("C12.R1", "list semantics by delegation: __setitem__, __delitem__, insert apply exactly the corresponding list "
             "operation to the offset/content table with the unmodified index parameter; the read path returns the table entry "
             "when it is a str and otherwise reads through the recorded offset", floor=4)
    for name, kind in (("__setitem__", "store"), ("__delitem__", "delete"), ("insert", "insert")):
        f = prog.method(mut, name)
        rep.fn(f)
        idx = f.params[1]
        val = f.params[2] if len(f.params) > 2 else None
        flow = Flow(f.node)
        ops = []
        for n in walk_own(f.node):
            if kind == "store" and isinstance(n, ast.Assign) and isinstance(n.targets[0], ast.Subscript) \
                    and dotted(n.targets[0].value) == (f.self_name, lines):
                ops.append((n.targets[0].slice, n.value, n))
            if kind == "delete" and isinstance(n, ast.Delete):
                for t in n.targets:
                    if isinstance(t, ast.Subscript) and dotted(t.value) == (f.self_name, lines):
                        ops.append((t.slice, None, n))
            if kind == "insert" and isinstance(n, ast.Call) and isinstance(n.func, ast.Attribute) and n.func.attr == "insert" \
                    and dotted(n.func.value) == (f.self_name, lines) and len(n.args) == 2:
                ops.append((n.args[0], n.args[1], n))
        other = [c for c in calls_in(f.node) if isinstance(c.func, ast.Attribute) and dotted(c.func.value) == (f.self_name, lines)
                 and c.func.attr in ("append", "extend", "pop", "remove", "clear", "sort", "reverse") + (() if kind == "insert" else ("insert",))]
        if len(ops) != 1 or other:
            rep.viol("C12.R1", f, f"delegates:{kind}", f"{name} does not apply exactly one list {kind} to self.{lines} "
                     f"({len(ops)} found, other list operations: {[src(o) for o in other]})",
                     scenario=f"f.{name}(...) and the same operation on list(f) give different sequences")
            continue
        i_e, v_e, node = ops[0]
        good_i = isinstance(i_e, ast.Name) and flow.origin_is_param(i_e, idx)
        good_v = v_e is None or (isinstance(v_e, ast.Name) and flow.origin_is_param(v_e, val))
        rep.check("C12.R1", f, f"delegates:{kind}", good_i and good_v,
                  f"`{src(node)}`: index and value parameters passed through unmodified",
                  f"`{src(node)}` does not use the unmodified index/value parameters ({idx!r}, {val!r})",
                  scenario="negative indices, insert beyond the end and IndexError must be Python's list semantics: a transformed "
                           "index edits another line", line=node.lineno)
    g = prog.method(mut, fam.item_getter)
    rep.fn(g)
    n = g.params[1]
    flow = Flow(g.node)
    entry = None
    for st in walk_own(g.node):
        if isinstance(st, ast.Assign) and isinstance(st.value, ast.Subscript) and dotted(st.value.value) == (g.self_name, lines) \
                and isinstance(st.targets[0], ast.Name) and isinstance(st.value.slice, ast.Name) and flow.origin_is_param(st.value.slice, n):
            entry = st.targets[0].id
    ok = False
    if entry:
        # path analysis: on the paths where the entry is known to be a str it is returned as it is, on the others the line is read
        # through the raw reader with the same index (however the isinstance test is oriented or nested)
        class _RP(Client):
            rets: List[Tuple[str, str]] = []

            def should_inline(s_, func, call, ctx):
                return False

            def refine(s_, test, state, ctx):
                cur = state[1] if len(state) > 1 else "entry"
                if isinstance(test, ast.Call) and src(test.func) == "isinstance" and len(test.args) == 2 and src(test.args[0]) == entry:
                    t_ = src(test.args[1])
                    if t_ == "str":
                        return (("str", cur),), (("off", cur),)
                    if t_ == "int":
                        return (("off", cur),), (("str", cur),)
                return (state,), (state,)

            def event(s_, kind, node, state, ctx):
                cur = state[1] if len(state) > 1 else "entry"
                if kind == "store" and isinstance(node, ast.Name) and node.id == entry:
                    # the local that held the table entry is re-bound (`line = self._read_line(n)` on the offset branch)
                    av = assigned_value(node)
                    is_read = isinstance(av, ast.Call) and isinstance(av.func, ast.Attribute) and av.func.attr == fam.raw_reader \
                        and [src(a) for a in av.args] == [n]
                    is_entry = isinstance(av, ast.Subscript) and dotted(av.value) == (g.self_name, lines)
                    return ((state[0], "read" if is_read else "entry" if is_entry else "other"),)
                if kind == "return" and node.value is not None:
                    v = node.value
                    if src(v) == entry and cur != "entry":
                        s_.rets.append((state[0], cur))
                        return (state,)
                    what = "entry" if src(v) == entry else \
                        "read" if (isinstance(v, ast.Call) and isinstance(v.func, ast.Attribute) and v.func.attr == fam.raw_reader
                                   and [src(a) for a in v.args] == [n]) else "other"
                    if what == "other" and isinstance(v, ast.Call) and isinstance(v.func, ast.Attribute) and v.func.attr == fam.next_reader \
                            and not v.args and fam.seek_helper:
                        # the raw reader inlined (it is a one-implementation helper): seek to the n-th offset, read the next line
                        par = getattr(node, "_parent", None)
                        for fld in ("body", "orelse", "finalbody"):
                            lst = getattr(par, fld, None)
                            if isinstance(lst, list) and node in lst and lst.index(node) > 0:
                                prev = lst[lst.index(node) - 1]
                                if isinstance(prev, ast.Expr) and isinstance(prev.value, ast.Call) and isinstance(prev.value.func, ast.Attribute) \
                                        and prev.value.func.attr == fam.seek_helper and len(prev.value.args) == 1 \
                                        and src(prev.value.args[0]) in (f"{g.self_name}.{lines}[{n}]", entry):
                                    what = "read"
                    s_.rets.append((state[0], what))
                return (state,)
        rp = _RP()
        rp.rets = []
        Interp(prog, rp).run(g, {("?",)}, mut)
        got = set(rp.rets)
        ok = ("str", "entry") in got and ("off", "read") in got and all(x in (("str", "entry"), ("off", "read")) for x in got)
    index_guards(prog, rep, mut, "C12.R1")
    rep.check("C12.R1", g, "read-path", ok, f"returns self.{lines}[n] when it is a str, else reads line n through its offset",
              "the mutable read path does not discriminate `isinstance(entry, str)` between in-memory content and a file offset",
              scenario="f[1] = 'x'; f[1] seeks to the offset 'x' (TypeError) or f[2] returns the raw offset number")


class _Guarded(Client):
    """state = frozenset of names proven to satisfy their isinstance test"""

    def __init__(self):
        self.stores: List[Tuple[int, str, bool]] = []
        self.calls: List[Tuple[int, str, bool]] = []

    def should_inline(self, func, call, ctx):
        return False

    def refine(self, test, state, ctx):
        if isinstance(test, ast.UnaryOp) and isinstance(test.op, ast.Not):
            t, f = self.refine(test.operand, state, ctx)
            return f, t
        if isinstance(test, ast.Call) and src(test.func) == "isinstance" and len(test.args) == 2 and isinstance(test.args[0], ast.Name):
            return (state | {(test.args[0].id, src(test.args[1]))},), (state,)
        return (state,), (state,)


def r2_tagged(prog, rep: Report, fam: Family, mut: Cls, rec: Cls, lines: str):
    rep.rule("C12.R2", "tagged union discipline: every store of a caller-supplied value into the table is dominated by an "
             "isinstance(value, str) test that raises otherwise; record variants reach the store only through "
             "super().<op>(..., r.save()) after an isinstance(r, record_class) test", floor=4)
    from ..symenv import SymClient, run_sym
    from ..paths import strip_versions

    class _Facts(SymClient):
        """user state = frozenset of (term, type term) facts established by isinstance tests on this path; private helpers are
        followed, so a guard that lives in `_require_str(value)` counts where it is called"""

        def __init__(s_):
            super().__init__()
            s_.stores, s_.calls = [], []
            s_._ver = 0

        def should_inline(s_, func, call, ctx):
            return func.cls is not None and not func.cls.is_external and func.name.startswith("_") and not func.name.startswith("__")

        def refine(s_, test, state, ctx):
            s_._ver = state[1]
            return super().refine(test, state, ctx)

        def decide(s_, term, node, env, user, ctx):
            if term[0] == "call" and term[1] == "isinstance" and len(term[2]) == 2:
                fact = (strip_versions(term[2][0]), strip_versions(term[2][1]))
                yes = s_.pack(env, s_._ver, frozenset(user or ()) | {fact})
                return ((yes,), (s_.pack(env, s_._ver, user),))
            return None

    for name in ("__setitem__", "insert"):
        f = prog.method(mut, name)
        rep.fn(f)
        val = f.params[2]

        class C(_Facts):
            def on(s, kind, node, env, ver, user, ctx):
                facts = user or frozenset()

                def is_str(t):
                    return any(ft == strip_versions(t) and ty in (("free", "str"), ("c", "str")) for ft, ty in facts)
                if kind == "store" and isinstance(node, ast.Subscript):
                    base = strip_versions(s.sym(node.value, env, ver, ctx))
                    if base == ("attr", ("self",), lines):
                        from ..util import assigned_value
                        v = assigned_value(node)
                        vt = s.sym(v, env, ver, ctx) if v is not None else None
                        if vt == ("p", val):
                            s.stores.append((node.lineno, src(node), is_str(vt)))
                if kind == "call" and isinstance(node, ast.Call) and isinstance(node.func, ast.Attribute) \
                        and node.func.attr in ("insert", "append") and node.args:
                    base = strip_versions(s.sym(node.func.value, env, ver, ctx))
                    vt = s.sym(node.args[-1], env, ver, ctx)
                    if base == ("attr", ("self",), lines) and vt == ("p", val):
                        s.stores.append((node.lineno, src(node), is_str(vt)))
                return None
        client = C()
        it, ex = run_sym(prog, client, f, mut, user=frozenset())
        if it.unrecognised:
            rep.unrec("C12.R2", f, "str-only", "; ".join(it.unrecognised))
            continue
        bad = [s for s in client.stores if not s[2]]
        raises = bool(ex.exc)
        if not client.stores:
            rep.unrec("C12.R2", f, "str-only", "no store of the caller's value into the table found")
            continue
        rep.check("C12.R2", f, "str-only", not bad and raises, f"`{client.stores[0][1]}` dominated by isinstance({val}, str)",
                  f"`{(bad or client.stores)[0][1]}` stores the caller's value without a dominating isinstance({val}, str) test that raises",
                  scenario="f[0] = 5 stores an int: the reader takes it for a byte offset and returns whatever line starts there",
                  line=(bad or client.stores)[0][0])
    for name in ("__setitem__", "insert"):
        f = prog.method(rec, name)
        rep.fn(f)
        r = f.params[2]

        class D(_Facts):
            def on(s, kind, node, env, ver, user, ctx):
                facts = user or frozenset()
                if kind == "call" and isinstance(node, ast.Call) and isinstance(node.func, ast.Attribute) and node.func.attr == name \
                        and isinstance(node.func.value, ast.Call) and src(node.func.value.func) == "super":
                    guarded = any(ft == ("p", r) and "record_class" in repr(ty) for ft, ty in facts)
                    payload = s.sym(node.args[-1], env, ver, ctx) if node.args else None
                    saved = isinstance(payload, tuple) and payload[0] in ("eff", "mcall") and payload[1] == "save" and payload[2] == ("p", r) \
                        and not payload[3]
                    idx_ok = len(node.args) == 2 and s.sym(node.args[0], env, ver, ctx) == ("p", f.params[1])
                    s.calls.append((node.lineno, src(node), guarded and saved and idx_ok))
                return None
        client = D()
        it, ex = run_sym(prog, client, f, rec, user=frozenset())
        if it.unrecognised:
            rep.unrec("C12.R2", f, "record-only", "; ".join(it.unrecognised))
            continue
        if not client.calls:
            rep.viol("C12.R2", f, "record-only", f"{name} of the record file does not delegate to super().{name}(index, record.save())",
                     scenario="a record is stored as an object instead of its one-line string: save() writes its repr")
            continue
        bad = [c for c in client.calls if not c[2]]
        rep.check("C12.R2", f, "record-only", not bad, f"`{client.calls[0][1]}` after isinstance({r}, self.record_class)",
                  f"`{(bad or client.calls)[0][1]}` is not dominated by isinstance({r}, self.record_class) / does not pass "
                  f"(index, {r}.save())",
                  scenario="a foreign object reaches the table: saving writes a line the record class cannot load",
                  line=(bad or client.calls)[0][0])


class _DirtyWritten(Client):
    def __init__(self, fld):
        self.fld = fld

    def should_inline(self, func, call, ctx):
        return True

    def event(self, kind, node, state, ctx):
        if kind == "store" and isinstance(node, ast.Attribute) and node.attr == self.fld and ctx.scope.is_self(node.value):
            av = assigned_value(node)
            v = const_value(av, None) if av is not None else None
            return (True,) if v is True else (False,) if v is False else (state,)
        return (state,)


class _DirtyMut(Client):
    """state = (table edited on this path, last constant written to the dirty flag)"""
    TABLE_MUT = {"insert", "append", "pop", "remove", "extend", "clear", "reverse", "sort"}

    def __init__(self, fld, lines_f):
        self.fld, self.lines = fld, lines_f

    def should_inline(self, func, call, ctx):
        return True

    def event(self, kind, node, state, ctx):
        edited, dirty = state
        sn = ctx.func.self_name
        if kind == "store" and isinstance(node, ast.Attribute) and node.attr == self.fld and ctx.scope.is_self(node.value):
            av = assigned_value(node)
            v = const_value(av, None) if av is not None else None
            return ((edited, v if isinstance(v, bool) else dirty),)
        if kind in ("store", "del") and isinstance(node, ast.Subscript) and dotted(node.value) == (sn, self.lines) \
                and ctx.scope.obj == ("self",):
            return ((True, dirty),)
        if kind == "call" and isinstance(node, ast.Call) and isinstance(node.func, ast.Attribute) and node.func.attr in self.TABLE_MUT \
                and dotted(node.func.value) == (sn, self.lines) and ctx.scope.obj == ("self",):
            return ((True, dirty),)
        return (state,)


def r3_dirty(prog, rep: Report, fam: Family, mut: Cls, rec: Cls):
    rep.rule("C12.R3", "dirty flag: every mutator writes dirty = True on every normal path; the plain base initialises it False, "
             "only the record base initialises it True; nothing resets it", floor=5)
    fld = fam.dirty_field()
    concrete_plain = [c for c in fam.line_classes if mut in (c.mro or []) and rec not in (c.mro or [])]
    concrete_rec = [c for c in fam.line_classes if rec in (c.mro or [])]
    seen = set()
    for c in concrete_plain + concrete_rec:
        for name in ("__setitem__", "__delitem__", "insert"):
            f = prog.resolve(c, name)
            if f is None or (f, ) in seen:
                continue
            key = (f, c in concrete_rec)
            if key in seen:
                continue
            seen.add(key)
            rep.fn(f)
            it = Interp(prog, _DirtyWritten(fld))
            ex = it.run(f, {False}, c)
            finals = ex.normal | ex.ret
            rep.check("C12.R3", f, f"sets-dirty:{'record' if c in concrete_rec else 'plain'}", bool(finals) and finals == {True},
                      f"every normal path of {name} leaves self.{fld} = True",
                      f"a normal path of {name} does not set self.{fld} = True",
                      scenario="f.insert(0, 'x'); f.dirty is still False although the content differs from the file")
    for c in fam.line_classes:
        vals = fam.dirty_values(c)
        init_vals = vals  # possible values: init + later writes
        is_rec = any(k.name == "BaseRecordFile" for k in c.repo_mro())
    base_plain = [c for c in fam.line_classes if not any(k.name == "BaseRecordFile" for k in c.repo_mro())]
    for c in base_plain:
        init = prog.resolve(c, "__init__")
        it = Interp(prog, _DirtyWritten(fld))
        ex = it.run(init, {None}, c)
        finals = ex.normal | ex.ret
        rep.fn(init)
        rep.check("C12.R3", (c.relpath, f"{c.short}.__init__", c.node.lineno), "initially-clean", finals == {False},
                  f"{c.short}() starts with {fld} = False", f"{c.short}() starts with {fld} in {sorted(map(str, finals))}",
                  scenario="a freshly opened, unmodified plain line file reports dirty=True")
    # every public operation (mixin methods included, helpers inlined) that edits the table must leave the flag True
    lines_f = "_lines"
    try:
        from .c11 import _lines_field
        lines_f = _lines_field(prog, fam)
    except Exception:
        pass
    seen_ep = set()
    for c in [x for x in fam.line_classes if mut in (x.mro or [])]:
        for f in fam.entry_points(c, include_mixins=True):
            if (f, c in concrete_rec) in seen_ep or f.name in ("open", "close", "save"):
                continue
            seen_ep.add((f, c in concrete_rec))
            client = _DirtyMut(fld, lines_f)
            it = Interp(prog, client)
            ex = it.run(f, {(False, None)}, c)
            finals = ex.normal | ex.ret
            if not any(s_[0] for s_ in finals):
                continue
            rep.fn(f)
            bad = [s_ for s_ in finals if s_[0] and s_[1] is not True]
            rep.check("C12.R3", f, f"edit-sets-dirty:{'record' if c in concrete_rec else 'plain'}", not bad,
                      f"every path of {f.name} that edits the table leaves self.{fld} = True",
                      f"{f.name} can edit self.{lines_f} and return without self.{fld} = True",
                      scenario=f"f.{f.name}(...) as the first modification of a plain line file: the content changed but f.dirty is "
                               f"still False")
    resets = []
    for c in fam.line_classes:
        for k in c.repo_mro():
            for f in k.methods.values():
                if f.name == "__init__" or f.self_name is None:
                    continue
                for n in walk_own(f.node):
                    if isinstance(n, ast.Assign) and any(dotted(t) == (f.self_name, fld) for t in n.targets) \
                            and const_value(n.value, None) is not True:
                        resets.append((f, n))
    if resets:
        f, n = resets[0]
        rep.viol("C12.R3", f, "never-reset", f"`{src(n)}` resets the dirty flag outside __init__",
                 scenario="edit, then some operation clears the flag: dirty=False although the content differs", line=n.lineno)
    else:
        rep.ok("C12.R3", (mut.relpath, mut.short, mut.node.lineno), "never-reset", "no method writes a value other than True")


def record_save_check(prog, rep: Report, rule: str, rec: Cls, w: Func, lines: str, fam: Optional[Family] = None):
    """what the record file hands to the writer.  OK: an index-aligned walk of the table (offset entries through the raw line reader
    at their index, str entries as they are).  VIOLATION: the walk reads an offset entry with the *next-line* reader without a
    seek in front of it (entries adjacent in the table need not be adjacent in the file), reads through the record layer, passes
    something else than (out, line_ending) on, or is the recognised walk with a wrong arm.  Anything else: UNRECOGNISED."""
    rs = prog.method_raw(rec, "save")
    rep.fn(rs)
    calls = [c for c in calls_in(rs.node) if isinstance(c.func, ast.Attribute) and c.func.attr == w.name]
    scenario = ("after f.insert(0, r) the saved file pairs line numbers with shifted offsets, or re-serialises records "
                "through load/save and changes their text")
    if not (len(calls) == 1 and len(calls[0].args) == 3):
        rep.unrec(rule, rs, "record-save", "record save does not call the writer once with three positional arguments")
        return
    g0 = calls[0].args[0]
    from ..util import as_comprehension
    g = as_comprehension(prog, rec, rs, g0) or g0        # a local, or a generator helper whose body is the same walk
    why = f"`{src(g)}` is not an index-aligned walk of self.{lines} (offset entries read through the raw reader, str entries as they are)"
    verdict = None
    if isinstance(g, (ast.GeneratorExp, ast.ListComp)) and len(g.generators) == 1 and not g.generators[0].ifs:
        gen = g.generators[0]
        if isinstance(gen.iter, ast.Call) and src(gen.iter.func) == "enumerate" and dotted(gen.iter.args[0]) == (rs.self_name, lines) \
                and isinstance(gen.target, ast.Tuple) and len(gen.target.elts) == 2:
            i, x = (src(t) for t in gen.target.elts)
            e = g.elt
            if isinstance(e, ast.IfExp):
                t = e.test
                if isinstance(t, ast.UnaryOp) and isinstance(t.op, ast.Not):
                    t, e = t.operand, ast.IfExp(test=t.operand, body=e.orelse, orelse=e.body)
                int_test = isinstance(t, ast.Call) and src(t.func) == "isinstance" and src(t.args[0]) == x
                is_int = int_test and src(t.args[1]) == "int"
                is_str = int_test and src(t.args[1]) == "str"
                raw, mem = (e.body, e.orelse) if is_int else (e.orelse, e.body)
                raw_ok = isinstance(raw, ast.Call) and isinstance(raw.func, ast.Attribute) and [src(a) for a in raw.args][-1:] == [i] \
                    and raw.func.attr in {m_ for k_ in rec.repo_mro() for m_ in k_.methods} and "load" not in raw.func.attr \
                    and "Record" not in src(raw.func).split(".")[0].replace("RandomLineAccessFile", "")
                if is_int or is_str:
                    verdict = bool(raw_ok and src(mem) == x)
    if verdict is None:
        # not the recognised walk: look for the one thing that is wrong whatever the rest does - an offset entry read with the
        # next-line reader (no position of its own) without a seek to that entry directly in front of it
        code = []
        if isinstance(g0, ast.Call):
            tgt = None
            if isinstance(g0.func, ast.Name) and g0.func.id in getattr(rs, "nested", {}):
                tgt = rs.nested[g0.func.id]
            elif isinstance(g0.func, ast.Attribute) and isinstance(g0.func.value, ast.Name) and g0.func.value.id == rs.self_name:
                tgt = prog.resolve(rec, g0.func.attr)
            if tgt is not None:
                code = [tgt.node]
        if not code:
            code = [g]
        nxt = fam.next_reader if fam is not None else "_read_next_line"
        seek = fam.seek_helper if fam is not None else "_file_seek"
        for root in code:
            for n in ast.walk(root):
                if isinstance(n, ast.Call) and isinstance(n.func, ast.Attribute) and n.func.attr in (nxt, "readline"):
                    st = n
                    while st is not None and not isinstance(st, ast.stmt):
                        st = getattr(st, "_parent", None)
                    blk = None
                    par = getattr(st, "_parent", None)
                    for fld in ("body", "orelse", "finalbody"):
                        b_ = getattr(par, fld, None)
                        if isinstance(b_, list) and st in b_:
                            blk = b_
                    prev = blk[blk.index(st) - 1] if blk and blk.index(st) > 0 else None
                    seeks = isinstance(prev, ast.Expr) and isinstance(prev.value, ast.Call) and isinstance(prev.value.func, ast.Attribute) \
                        and prev.value.func.attr in (seek, "seek")
                    if not seeks:
                        rep.viol(rule, rs, "record-save", f"`{src(n)}` reads the line that follows the last one read, without a seek to the "
                                 f"offset of the entry being saved: entries that are neighbours in self.{lines} need not be neighbours in "
                                 "the file (after an insert, a delete or a re-ordered index)", scenario=scenario, line=n.lineno)
                        return
        rep.unrec(rule, rs, "record-save", why)
        return
    ok = verdict and [src(a) for a in calls[0].args[1:]] == [rs.params[1], rs.params[2]]
    rep.check(rule, rs, "record-save", ok, "walks the table by index: offsets through the raw line reader, strings as stored", why,
              scenario=scenario)


def r4_save(prog, rep: Report, fam: Family, mut: Cls, rec: Cls, lines: str):
    rep.rule("C12.R4", "save writes the current view: save passes the object's own iteration (plain) or an index-aligned walk of "
             "the table resolving offsets through the raw reader (record) to the writer, which writes each line once with "
             "end=<line_ending> to the output, opened 'w' only when it is a path", floor=3)
    sv = prog.method_raw(mut, "save")
    w = writer_method(prog, mut)
    rep.fn(sv, w)
    out, le = sv.params[1], sv.params[2]
    calls = [c for c in calls_in(sv.node) if isinstance(c.func, ast.Attribute) and c.func.attr == w.name]
    ok = len(calls) == 1 and [src(a) for a in calls[0].args] == [sv.self_name, out, le] and not calls[0].keywords
    rep.check("C12.R4", sv, "plain-save", ok, f"_save_from_iter(self, {out}, {le})",
              "save does not hand the object's own iteration, the output and the line ending to the writer",
              scenario="save writes another sequence than list(f), or ignores the chosen line ending")
    record_save_check(prog, rep, "C12.R4", rec, w, lines, fam)
    # the line ending reaches the writer from every caller that has one: a call of the writer made from a function with a
    # `line_ending` parameter of its own (save, or the writer calling itself on the file it opened) passes that parameter on
    le_name = w.params[2] if len(w.params) > 2 else None
    if le_name:
        for k_ in {id(k): k for c_ in fam.line_classes for k in c_.repo_mro() if not k.is_external}.values():
            for g in k_.methods.values():
                if le_name not in g.params:
                    continue
                for c in calls_in(g.node):
                    if not (isinstance(c.func, ast.Attribute) and c.func.attr == w.name):
                        continue
                    given = kwarg(c, le_name, 2)
                    if given is None and any(isinstance(a_, ast.Starred) for a_ in c.args) or any(k2.arg is None for k2 in c.keywords):
                        continue
                    if given is None or src(given) != le_name:
                        rep.fn(g)
                        rep.viol("C12.R4", g, f"line-ending-forwarded:{k_.name}.{g.name}",
                                 f"`{src(c)[:90]}` does not hand `{le_name}` on to the writer: the lines are written with the default ending",
                                 scenario="save(path, line_ending='\\r\\n') writes '\\n' endings (only for a path / only for a stream): the "
                                          "saved file differs from the one requested", line=c.lineno)
    # writer (read with the class's private helpers inlined: the print loop may live in a helper of its own)
    from ..inline import inline_view
    w_raw = w
    w = inline_view(prog, mut, w)
    lines_p, out_p, le_p = w.params[0], w.params[1], w.params[2]
    loops = [n for n in walk_own(w.node) if isinstance(n, ast.For) and src(n.iter) == lines_p]
    if not loops and any(isinstance(c, ast.Call) and isinstance(c.func, ast.Attribute) and c.func.attr.startswith("_")
                         and any(src(a) == lines_p for a in c.args) for c in calls_in(w.node)):
        rep.unrec("C12.R4", w, "writer", f"`{lines_p}` is handed to a helper that was not inlined: the print loop is not in view")
        loops = None
    skip_writer = loops is None
    loops = loops or []
    ok, why = False, f"no loop over `{lines_p}`"

    def exclusive(ls) -> bool:
        """the loops sit in different arms of one if (a path takes exactly one of them)"""
        if len(ls) != 2:
            return False
        for n_ in walk_own(w.node):
            if isinstance(n_, ast.If):
                in_body = [any(x is l for b in n_.body for x in ast.walk(b)) for l in ls]
                in_else = [any(x is l for b in n_.orelse for x in ast.walk(b)) for l in ls]
                if (in_body[0] and in_else[1]) or (in_body[1] and in_else[0]):
                    return True
                # guard-clause form: one loop in an arm that ends with return / raise, the other after the if
                for arm, other_in in ((n_.body, in_body), (n_.orelse, in_else)):
                    if arm and isinstance(arm[-1], (ast.Return, ast.Raise)):
                        inside = [any(x is l for b in arm for x in ast.walk(b)) for l in ls]
                        anywhere = [any(x is l for x in ast.walk(n_)) for l in ls]
                        if (inside[0] and not anywhere[1]) or (inside[1] and not anywhere[0]):
                            return True
        return False
    if len(loops) == 1 or exclusive(loops):
        oks = []
        for lp in loops:
            one = False
            prints = [c for c in ast.walk(lp) if isinstance(c, ast.Call) and src(c.func) in ("print",) or
                      (isinstance(c, ast.Call) and isinstance(c.func, ast.Attribute) and c.func.attr == "write")]
            why = f"the loop body does not write each line exactly once with end={le_p}"
            if len(prints) == 1 and not any(isinstance(x, (ast.If, ast.Break, ast.Continue)) for x in ast.walk(lp)):
                p = prints[0]
                if src(p.func) == "print":
                    end = kwarg(p, "end")
                    file = kwarg(p, "file")
                    line_arg = p.args[0] if p.args else None
                    if line_arg is not None:
                        from ..util import expand_all
                        line_arg = expand_all(line_arg, Flow(w.node), keep={src(lp.target)})     # content = line.rstrip("\n"); print(content, ..)
                    uses_line = line_arg is not None and any(isinstance(x, ast.Name) and x.id == src(lp.target) for x in ast.walk(line_arg))
                    one = end is not None and src(end) == le_p and file is not None and uses_line and len(p.args) == 1
                else:
                    one = le_p in src(p) and src(lp.target) in src(p)
            oks.append(one)
        ok = all(oks)
    content_ok = True
    content_why = ""
    if len(loops) == 1 or exclusive(loops):
        for lp_ in loops:
            for c in ast.walk(lp_):
                if isinstance(c, ast.Call) and src(c.func) == "print" and c.args:
                    c_ok, c_why = writer_content_ok(c.args[0], src(lp_.target), Flow(w.node))
                    if c_ok is False or (c_ok is None and content_ok is True):
                        content_ok, content_why = c_ok, c_why
    if content_ok is None:
        rep.unrec("C12.R4", w, "writer-content", content_why, loops[0].lineno if loops else None)
    else:
        rep.check("C12.R4", w, "writer-content", content_ok, "the line is written unmodified (only a trailing '\\n' may be stripped)",
                  content_why, scenario="a line ending in blanks or a tab (e.g. a TSV record whose last field is empty) is saved without "
                                        "them: the reopened file differs from the list", line=loops[0].lineno if loops else None)
    if not skip_writer:
      rep.check("C12.R4", w, "writer", ok, f"each line written once, followed by {le_p}", why,
              scenario="save(out, line_ending='\\r\\n') writes '\\n', skips lines or writes them twice", line=loops[0].lineno if loops else None)
    opens = [c for c in calls_in(w.node) if ext_name(prog, w, c) == "open"]
    ok = len(opens) == 1 and src(opens[0].args[0]) == out_p and (open_mode(opens[0]) or "") in ("w", "wt") \
        and any(isinstance(n, ast.Call) and src(n.func) == "isinstance" and src(n.args[0]) == out_p and src(n.args[1]) == "str"
                for n in ast.walk(w.node))
    rep.check("C12.R4", w, "output", ok, f"open({out_p}, 'w') only when {out_p} is a path",
              "the writer does not open the output for writing exactly when it is a path (append mode keeps old content)",
              scenario="saving twice to the same path appends the lines again: reopening gives twice the list")


def writer_content_ok(arg: ast.expr, line_var: str, flow=None):
    """the printed expression is the line itself, possibly with exactly a trailing newline removed.
    (True, ""), (False, why) for a positively different content, (None, why) when the expression is not read"""
    e = arg
    for _ in range(12):
        if isinstance(e, ast.Name) and e.id != line_var and flow is not None:
            ex = flow.expand(e)                      # content = line.rstrip("\n"); print(content, ...)
            if ex is e:
                break
            e = ex
            continue
        if not (isinstance(e, ast.Call) and isinstance(e.func, ast.Attribute)):
            break
        name = e.func.attr
        if name in ("rstrip", "removesuffix"):
            a = const_value(e.args[0], None) if len(e.args) == 1 else None
            if a != "\n":
                return False, f"`{src(arg)}` strips more than a trailing newline from the line before writing it"
        elif name in ("strip", "lstrip", "replace", "lower", "upper", "expandtabs", "title", "format"):
            return False, f"`{src(arg)}` alters the line before writing it"
        else:
            return None, f"`{src(arg)}`: unclassified transformation .{name}() of the line"
        e = e.func.value
    if isinstance(e, ast.Name) and e.id == line_var:
        return True, ""
    if isinstance(e, (ast.Constant, ast.Name)):
        return False, f"`{src(arg)}` is not the line being saved"
    return None, f"`{src(arg)}`: how this derives from the line being saved is not read"


def index_guards(prog, rep: Report, mut: Cls, rule: str):
    """explicit index validation in the mutators must agree with list semantics: IndexError iff n < -len or n >= len"""
    from ..orderings import NotAFormula, eval_order, weak_orderings
    for name in ("__setitem__", "__delitem__", "insert"):
        f = prog.method(mut, name)
        idx = f.params[1]
        # the mutator itself and the helpers it calls with the index
        targets = [(f, idx)]
        for c in calls_in(f.node):
            if isinstance(c.func, ast.Attribute) and isinstance(c.func.value, ast.Name) and c.func.value.id == f.self_name:
                h = prog.resolve(mut, c.func.attr)
                if h is not None and not h.cls.is_external:
                    for i, a in enumerate(c.args):
                        if isinstance(a, ast.Name) and a.id == idx and len(h.params) > i + 1:
                            targets.append((h, h.params[i + 1]))
        for g, p in targets:
            for n in walk_own(g.node):
                if not isinstance(n, ast.If):
                    continue
                raises = [x for x in n.body if isinstance(x, ast.Raise)]
                if not raises or not any(isinstance(x, ast.Name) and x.id == p for x in ast.walk(n.test)):
                    continue
                exc = raises[0].exc
                excn = src(exc.func if isinstance(exc, ast.Call) else exc) if exc is not None else ""
                if excn != "IndexError":
                    continue
                rep.fn(g)

                def term(x):
                    t = src(x).replace(" ", "")
                    if t in (f"len({g.self_name})", f"len({g.self_name}._lines)"):
                        return env["len"]
                    if t in (f"-len({g.self_name})", f"-len({g.self_name}._lines)"):
                        return env["neglen"]
                    if const_value(x, None) == 0:
                        return env["zero"]
                    return None
                class _IsInt(ast.NodeTransformer):
                    def visit_Call(s_, c):
                        if src(c.func) == "isinstance" and len(c.args) == 2 and src(c.args[0]) == p and src(c.args[1]) == "int":
                            return ast.copy_location(ast.Constant(value=True), c)
                        return c
                import copy as _copy
                test_int = _IsInt().visit(_copy.deepcopy(n.test))
                try:
                    bad = []
                    W = [w for w in weak_orderings([p, "neglen", "zero", "len"]) if w["neglen"] <= w["zero"] <= w["len"]
                         and (w["neglen"] == w["zero"]) == (w["zero"] == w["len"])]
                    for env in W:
                        want = env[p] < env["neglen"] or env[p] >= env["len"]
                        if name == "insert":
                            want = False
                        if eval_order(test_int, env, term) != want:
                            bad.append(env)
                    rep.count("orderings_evaluated", len(W))
                    rep.check(rule, g, f"index-guard:{name}", not bad,
                              f"`{src(n.test)}` raises IndexError exactly for n < -len or n >= len",
                              f"explicit index validation `{src(n.test)}` disagrees with list semantics for {bad[:2]}",
                              scenario="f[-len(f)] = x (or `del f[-len(f)]`, pop() of the only line) raises IndexError although a "
                                       "list accepts the index", line=n.lineno)
                except NotAFormula as e:
                    rep.unrec(rule, g, f"index-guard:{name}", f"index validation `{src(n.test)}` not evaluable: {e}", n.lineno)


def writer_method(prog, mut: Cls) -> Func:
    """the method save() hands (self, out, line_ending) to"""
    sv = prog.method_raw(mut, "save")
    for c in calls_in(sv.node):
        if isinstance(c.func, ast.Attribute) and isinstance(c.func.value, ast.Name) and c.func.value.id == sv.self_name \
                and len(c.args) == 3 and src(c.args[0]) == sv.self_name:
            m = prog.resolve(mut, c.func.attr)
            if m is not None:
                return m
    raise AnalysisError("save() of the mutable line files does not hand (self, out, line_ending) to a writer method")


def r5_readonly(prog, rep: Report, fam: Family):
    rep.rule("C12.R5", "source is read-only (who-may-write): every open of the data file in the family has mode r/rb and every "
             "mmap is ACCESS_READ; the only write-mode open is the writer's output", floor=3)
    path_field = data_path_field(prog, fam)
    seen = set()
    n = 0
    for c in fam.line_classes:
        for k in c.repo_mro():
            if k.is_external:
                continue
            for f in k.methods.values():
                if f in seen:
                    continue
                seen.add(f)
                for call in calls_in(f.node):
                    name = ext_name(prog, f, call)
                    if name == "open" and call.args:
                        d = dotted(call.args[0])
                        mode = open_mode(call)
                        if d and f.self_name and d == (f.self_name, path_field):
                            n += 1
                            rep.fn(f)
                            rep.check("C12.R5", f, f"open:{mode}", mode is not None and set(mode) <= set("rbt"),
                                      f"data file opened read-only ({mode})", f"`{src(call)}` opens the data file with mode {mode!r}",
                                      scenario="opening a mutable line file truncates or modifies the original file", line=call.lineno)
                        elif mode is None or set(mode) & set("wax+"):
                            is_param = isinstance(call.args[0], ast.Name) and call.args[0].id in f.params
                            rep.fn(f)
                            n += 1
                            rep.check("C12.R5", f, "open:write", is_param and f.is_static,
                                      f"write-mode open of the caller's output `{src(call.args[0])}`",
                                      f"`{src(call)}`: write-mode open of something other than the save() output parameter",
                                      scenario="an edit or save writes into the source file", line=call.lineno)
                    if name == "mmap.mmap":
                        acc = kwarg(call, "access", 3)
                        n += 1
                        rep.fn(f)
                        rep.check("C12.R5", f, "mmap", acc is not None and src(acc).endswith("ACCESS_READ"),
                                  "memory map is ACCESS_READ", f"`{src(call)}` maps the data file writable",
                                  scenario="a write through the map changes the original file's bytes", line=call.lineno)
    rep.count("open_sites", n)


# ---------------------------------------------------------------------------------------------- R6
LIST_MAKERS = {"list", "sorted"}
TYPED_CONTAINERS = {"array.array", "array", "tuple", "range", "bytes", "bytearray", "frozenset", "set", "memoryview",
                    "numpy.array", "numpy.asarray", "numpy.fromiter", "numpy.loadtxt", "collections.deque", "map", "filter", "iter"}


def _container_kind(prog: Program, f: Func, e: ast.expr, depth=0) -> Tuple[str, str]:
    """('list' | 'param' | 'bad' | 'unknown', description) for an expression stored into the table"""
    from ..resolve import Scope
    if isinstance(e, (ast.List, ast.ListComp)):
        return "list", "list display"
    if isinstance(e, ast.BinOp) and isinstance(e.op, (ast.Add, ast.Mult)):
        for side in (e.left, e.right):
            k = _container_kind(prog, f, side, depth + 1)
            if k[0] in ("list", "bad"):
                return k
        return "unknown", src(e)
    if isinstance(e, ast.IfExp):
        ks = [_container_kind(prog, f, e.body, depth + 1), _container_kind(prog, f, e.orelse, depth + 1)]
        for want in ("bad", "unknown", "param", "list"):
            for k in ks:
                if k[0] == want:
                    return k
    if isinstance(e, ast.Name):
        if e.id in f.params:
            return "param", f"caller's `{e.id}`"
        d = Flow(f.node).expand(e)
        if d is not e and depth < 4:
            return _container_kind(prog, f, d, depth + 1)
        return "unknown", src(e)
    if isinstance(e, (ast.Tuple, ast.Set, ast.SetComp, ast.GeneratorExp, ast.Dict, ast.DictComp)):
        return "bad", f"`{src(e)[:60]}` is a {type(e).__name__}, not a list"
    if isinstance(e, ast.Call):
        name = ext_name(prog, f, e) or src(e.func)
        if name in LIST_MAKERS or (isinstance(e.func, ast.Attribute) and e.func.attr == "copy"
                                   and _container_kind(prog, f, e.func.value, depth + 1)[0] == "list"):
            return "list", f"{name}(...)"
        if name in TYPED_CONTAINERS or name.split(".")[-1] in ("array", "tuple", "deque"):
            return "bad", f"`{src(e)[:70]}` builds a {name}, which cannot hold the str entries that editing stores into the table"
        callee = Scope(prog, f, f.cls).resolve_call(e) if depth < 4 else None
        if isinstance(callee, Func):
            rets = [r for r in returns_of(callee.node) if r.value is not None]
            if rets:
                ks = [_container_kind(prog, callee, r.value, depth + 1) for r in rets]
                for want in ("bad", "unknown", "param", "list"):
                    for k in ks:
                        if k[0] == want:
                            return (k[0], f"{callee.name}() returns {k[1]}")
        return "unknown", src(e)[:80]
    return "unknown", src(e)[:80]


def r6_table_kind(prog, rep: Report, fam: Family, mut: Cls, lines: str):
    rep.rule("C12.R6", "the offset/content table is a list: every value the classes themselves store into the table field (literals, "
             "the index builder, the index-file reader) is a `list`, so that editing can replace an offset by a string and "
             "insert/delete entries; a typed or immutable container (array, tuple, range) accepts the reads and fails on the "
             "first edit", floor=3)
    seen = 0
    owners = {k.qual: k for c in fam.line_classes for k in c.repo_mro()}
    for k in sorted(owners.values(), key=lambda k: k.node.lineno):
        for name, f in k.methods.items():
            if f.self_name is None:
                continue
            for n in walk_own(f.node):
                tgt = None
                if isinstance(n, ast.Assign):
                    for t in n.targets:
                        if dotted(t) == (f.self_name, lines):
                            tgt = n.value
                elif isinstance(n, ast.AnnAssign) and n.value is not None and dotted(n.target) == (f.self_name, lines):
                    tgt = n.value
                if tgt is None:
                    continue
                seen += 1
                rep.fn(f)
                kind, why = _container_kind(prog, f, tgt)
                role = f"table-kind:{name}:{seen}"
                if kind in ("list", "param"):
                    rep.ok("C12.R6", f, role, f"self.{lines} = {why}")
                elif kind == "bad":
                    rep.viol("C12.R6", f, role, f"self.{lines} is assigned a container that is not a list: {why}",
                             scenario="a mutable line file built this way reads correctly and raises TypeError on the first "
                                      "f[i] = ..., insert, append or extend", line=n.lineno)
                else:
                    rep.unrec("C12.R6", f, role, f"cannot tell what kind of container `{why}` is", line=n.lineno)


# ---------------------------------------------------------------------------------------------- R7 / R8
def r7_derived_and_owned(prog, rep: Report, fam: Family, mut: Cls, lines: str):
    from .c11 import data_path_field
    from .memo import rule_derived_state
    from .ownership import freshness
    muts = [c for c in fam.line_classes if mut in c.repo_mro()]
    rep.rule("C12.R7", "derived state of the mutable line files is refreshed with its source: the offset/content table and the handle are "
             "the primary state; any other field written outside the constructor and read somewhere (a remembered line, a cached "
             "position) is re-assigned or cleared on every path of every public operation that edits the table (set, delete, insert, "
             "and the inherited pop/remove/reverse/append/extend/clear/+=)", floor=len(muts))
    known = {fam.dirty_field(), data_path_field(prog, fam)}
    for c in muts:
        rule_derived_state(prog, rep, "C12.R7", c, {lines} | set(fam.handles[c.qual]), fam.entry_points(c, True),
                           config=known | {fam.pid_field[c.qual]}, declare=False)
    rep.rule("C12.R8", "the table of a mutable line file belongs to that object: what the classes themselves put into the table field is "
             "created for this object (a display, the index builder's list, a fresh list read from the index file) or is the caller's "
             "own sequence; it is never an object handed out to several callers (a memoised helper's result, a class-level list)",
             floor=3)
    from ..util import iter_stores
    n = 0
    seen = set()
    for c in fam.line_classes:
        for k in c.repo_mro():
            if k.is_external:
                continue
            for f in k.methods.values():
                if f.self_name is None or f.qual in seen:
                    continue
                seen.add(f.qual)
                for t, v, st in iter_stores(f.node):
                    if dotted(t) != (f.self_name, lines) or v is None:
                        continue
                    n += 1
                    rep.fn(f)
                    kind, why = freshness(prog, f, v)
                    role = f"owned:{f.name}:{n}"
                    if kind == "fresh" or (kind == "alias" and "parameter" in why):
                        rep.ok("C12.R8", f, role, f"self.{lines} = {why}")
                    elif kind == "alias":
                        rep.viol("C12.R8", f, role, f"self.{lines} is assigned {why}: several objects edit one table",
                                 scenario="two mutable files built from the same index file: unsaved edits of one appear in the other "
                                          "although its dirty flag is False", line=st.lineno)
                    else:
                        rep.unrec("C12.R8", f, role, f"cannot tell whether `{src(v)[:60]}` is a fresh list ({why})", line=st.lineno)
