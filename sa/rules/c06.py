"""C06 — LRUCache is a bounded mapping that evicts exactly the least recently used key (DESIGN.md §6)."""
from __future__ import annotations

import ast
from typing import List, Optional, Set

from ..absint import Client, Ctx, Interp
from ..flow import Flow
from ..model import Func, Program, walk_own
from ..report import Report
from ..resolve import dotted
from ..util import returns_of, src
from .cachefam import (CacheFacts, rule_coherence_capacity, rule_invalidation, rule_list_ops, rule_lookup_source, rule_value_stored)


def run(prog: Program, rep: Report):
    cf = CacheFacts(prog, "LRUCache")
    rep.attempt(lambda: rule_invalidation(prog, rep, cf, "C06.R1"))
    rep.attempt(lambda: rule_coherence_capacity(prog, rep, cf, "C06.R2", "C06.R3"))
    rep.attempt(lambda: r4_ends(prog, rep, cf))
    rep.attempt(lambda: rule_value_stored(prog, rep, cf, "C06.R5"))
    rep.attempt(lambda: r6_payload_layout(prog, rep, cf))
    rep.attempt(lambda: rule_list_ops(prog, rep, cf, "C06.R7"))
    rep.attempt(lambda: rule_lookup_source(prog, rep, cf, "C06.R8"))
    from .memo import public_entry_points, rule_derived_state
    rep.attempt(lambda: rule_derived_state(prog, rep, "C06.R9", cf.cls, {cf.dict_field, cf.list_field}, public_entry_points(prog, cf.cls), config={cf.cap_field},
                       what="a snapshot of the order, a remembered node or a bound method of the list must not survive a store, delete, "
                            "eviction or clear"))
    from .ownership import rule_no_class_state
    rep.attempt(lambda: rule_no_class_state(prog, rep, "C06.R10", [cf.cls, cf.lf.lst]))
    from .mixins import rule_mixin_surface
    rep.attempt(lambda: rule_mixin_surface(prog, rep, "C06.R11", [cf.cls]))
    from .cachefam import rule_accepts_capacity
    rep.attempt(lambda: rule_accepts_capacity(prog, rep, cf, "C06.R14"))
    from .cachefam import rule_failed_lookup_noop
    rep.attempt(lambda: rule_failed_lookup_noop(prog, rep, cf, "C06.R15"))
    from .cachefam import rule_value_parametric

    def is_value(e, f, flow):
        # <node>.data[1]: the value position of the (key, value) payload
        return isinstance(e, ast.Subscript) and isinstance(e.slice, ast.Constant) and e.slice.value == 1 \
            and isinstance(e.value, ast.Attribute) and e.value.attr == cf.lf.payload
    rep.attempt(lambda: rule_value_parametric(prog, rep, cf, "C06.R13", is_value, "<node>.data[1]"))
    from .mixins import rule_fresh_iterator
    rep.attempt(lambda: rule_fresh_iterator(prog, rep, "C06.R12", [cf.cls]))


class _UseMoves(Client):
    """state = frozenset of list ends targeted by list operations on this path"""

    def __init__(self, cf: CacheFacts):
        self.cf = cf
        self.unknown_ops: List[str] = []

    def should_inline(self, func, call, ctx):
        return func.cls is self.cf.cls

    def classify(self, call, ctx: Ctx):
        if isinstance(call.func, ast.Attribute) and self.cf.is_list(call.func.value, ctx.func) \
                and ctx.func.cls is self.cf.cls:
            return "listop"
        return None

    def refine(self, test, state, ctx: Ctx):
        # `node is self.<list>.<end>`: on the true branch the node already stands at that end (moving it there is a no-op)
        neg = False
        t = test
        while isinstance(t, ast.UnaryOp) and isinstance(t.op, ast.Not):
            t, neg = t.operand, not neg
        if isinstance(t, ast.Compare) and len(t.ops) == 1 and isinstance(t.ops[0], (ast.Is, ast.IsNot)) and ctx.func.cls is self.cf.cls:
            for a, b in ((t.left, t.comparators[0]), (t.comparators[0], t.left)):
                d = dotted(b)
                if isinstance(a, ast.Name) and d and len(d) == 3 and d[0] == ctx.func.self_name and d[1] == self.cf.list_field \
                        and d[2] in self.cf.lf.ends:
                    at_end = (state | {d[2]},)
                    same = isinstance(t.ops[0], ast.Is) != neg
                    return (at_end, (state,)) if same else ((state,), at_end)
        return (state,), (state,)

    def event(self, kind, node, state, ctx: Ctx):
        if kind == "listop":
            name = node.func.attr
            if self.cf.list_delta.get(name) == -1:
                return (state,)  # removal: not a use
            end = self.cf.list_target_end.get(name)
            if end is None:
                self.unknown_ops.append(name)
                return (state,)
            return (state | {end},)
        return (state,)


def r4_ends(prog, rep: Report, cf: CacheFacts):
    rep.rule("C06.R4", "victim end opposite the use end: every use path (lookup, store) moves/inserts the node at one "
             "end of the recency list, the overflow branch takes its victim from the other end, and iteration walks "
             "forward from the use end (most recent first)", floor=4)
    lf = cf.lf
    use_ends: Set[str] = set()
    for f in (cf.getitem, cf.setitem):
        rep.fn(f)
        client = _UseMoves(cf)
        it = Interp(prog, client)
        ex = it.run(f, {frozenset()}, cf.cls)
        finals = ex.normal | ex.ret
        if client.unknown_ops or it.unrecognised:
            rep.unrec("C06.R4", f, "use-moves", f"list operations without a recognisable target end: "
                      f"{sorted(set(client.unknown_ops))} {it.unrecognised}")
            continue
        unmoved = [s for s in finals if not s]
        ends = set().union(*finals) if finals else set()
        use_ends |= ends
        rep.check("C06.R4", f, "use-moves", not unmoved and len(ends) == 1,
                  f"every path moves/inserts the node at the {sorted(ends)} end",
                  ("a path uses an entry without moving its node to the use end" if unmoved else
                   f"paths target different ends {sorted(ends)}"),
                  scenario="c[1],c[2],c[3] stored in cache(3); c[1] looked up; c[4] stored: the victim must be 2, but a "
                           "lookup/store that does not refresh recency makes 1 the victim")
    # victim end
    f = cf.setitem_v
    victims = []
    for n in walk_own(f.node):
        if isinstance(n, ast.Assign) and len(n.targets) == 1 and isinstance(n.targets[0], ast.Name):
            d = dotted(n.value)
            if d and len(d) == 3 and d[:2] == (f.self_name, cf.list_field) and d[2] in lf.ends:
                victims.append((d[2], n))
    if len(victims) != 1:
        rep.unrec("C06.R4", f, "victim-end", f"expected one victim selection `x = self.{cf.list_field}.<end>`, found {len(victims)}")
    elif len(use_ends) == 1:
        v, node = victims[0]
        u = next(iter(use_ends))
        rep.check("C06.R4", f, "victim-end", v != u, f"victim taken from {v}, uses go to {u}",
                  f"the victim is taken from the {v} end, which is the end that uses move nodes to: the most recently "
                  f"used entry is evicted",
                  scenario="cache(2): c[1]=1; c[2]=2; c[3]=3 evicts key 2 (most recent) instead of key 1", line=node.lineno)
        # iteration direction: forward traversal starts at lf.head, so the use end must be the head
        rep.fn(cf.iter)
        iterates_list = any(cf.is_list(n, cf.iter) for n in ast.walk(cf.iter.node))
        rev = any(isinstance(n, ast.Call) and src(n.func) == "reversed" for n in ast.walk(cf.iter.node))
        if not iterates_list:
            rep.unrec("C06.R4", cf.iter, "iter-direction", "__iter__ does not iterate the recency list")
        else:
            good = (u == lf.head) != rev
            rep.check("C06.R4", cf.iter, "iter-direction", good,
                      f"iteration walks the list forward from {lf.head}; uses go to {u}",
                      f"iteration starts at the {'tail' if rev else lf.head} end but uses move nodes to {u}: keys are "
                      f"listed least recent first", scenario="list(cache) must list the most recently used key first")


def r6_payload_layout(prog, rep: Report, cf: CacheFacts):
    rep.rule("C06.R6", "payload layout agreement: writers store (key, value) tuples; the lookup returns the value "
             "position, iteration and the eviction read the key position", floor=3)
    f = cf.setitem
    k, v = f.params[1], f.params[2]
    layouts = set()
    for n in walk_own(f.node):
        if isinstance(n, ast.Tuple) and isinstance(n.ctx, ast.Load):
            names = [e.id if isinstance(e, ast.Name) else None for e in n.elts]
            if k in names and v in names:
                layouts.add((names.index(k), names.index(v)))
    if len(layouts) != 1:
        rep.unrec("C06.R6", f, "writer", f"payload tuples with inconsistent or unrecognised layout: {sorted(layouts)}")
        return
    kpos, vpos = layouts.pop()
    rep.fn(f)
    rep.ok("C06.R6", f, "writer", f"payload is a tuple with key at [{kpos}] and value at [{vpos}]")
    payload = cf.lf.payload

    def payload_index(e, flow=None) -> Optional[int]:
        # <node>.data[i]  or  d[i] where d iterates the list payloads; or a name bound by unpacking a payload:
        #   key, value = node.data        for key, value in self.list
        if isinstance(e, ast.Subscript) and isinstance(e.slice, ast.Constant) and isinstance(e.slice.value, int):
            return e.slice.value
        if isinstance(e, ast.Name) and flow is not None:
            ex_ = flow.expand(e)                   # lru_key = node.data[0]
            if ex_ is not e and isinstance(ex_, ast.Subscript) and isinstance(ex_.slice, ast.Constant) and isinstance(ex_.slice.value, int):
                return ex_.slice.value
            idx = set()
            for d in flow.defs_of(e):
                if d.index is not None and len(d.index) == 1 and isinstance(d.index[0], int) and isinstance(d.value, ast.expr) \
                        and (src(d.value).endswith("." + payload) or cf.is_list(d.value, cf.iter) or cf.is_list(d.value, cf.getitem)
                             or cf.is_list(d.value, cf.setitem)):
                    idx.add(d.index[0])
                else:
                    return None
            if len(idx) == 1:
                return idx.pop()
        return None

    g = cf.getitem
    rep.fn(g)
    rets = returns_of(g.node)
    from ..flow import Flow
    gflow = Flow(g.node)
    idx = [payload_index(r.value, gflow) for r in rets if r.value is not None]
    if not idx or None in idx:
        rep.unrec("C06.R6", g, "lookup-returns-value", "lookup does not return <payload>[const]")
    else:
        rep.check("C06.R6", g, "lookup-returns-value", set(idx) == {vpos}, f"lookup returns payload[{vpos}]",
                  f"lookup returns payload[{idx[0]}], but the value is stored at position {vpos}",
                  scenario="c['a'] = 1; c['a'] returns 'a'")
    # eviction key
    for n in walk_own(f.node):
        if isinstance(n, ast.Delete):
            for t in n.targets:
                if isinstance(t, ast.Subscript) and cf.is_dict(t.value, f) and not (isinstance(t.slice, ast.Name) and t.slice.id == k):
                    i = payload_index(t.slice, Flow(f.node))
                    if i is None:
                        rep.unrec("C06.R6", f, "evicts-victim-key", f"evicted key expression {src(t.slice)} unrecognised")
                    else:
                        rep.check("C06.R6", f, "evicts-victim-key", i == kpos, f"evicts payload[{kpos}] of the victim node",
                                  f"evicts dict key payload[{i}] (the value position) of the victim node",
                                  scenario="eviction raises KeyError or removes an unrelated key", line=n.lineno)
    it = cf.iter
    idxs = [payload_index(n) for n in ast.walk(it.node) if isinstance(n, ast.Subscript) and isinstance(n.ctx, ast.Load)]
    idxs = [i for i in idxs if i is not None]
    if not idxs:
        # for key, _value in self.list: ... key ...   (unpacking instead of subscripting)
        iflow = Flow(it.node)
        for n in ast.walk(it.node):
            if isinstance(n, ast.Name) and isinstance(n.ctx, ast.Load):
                i = payload_index(n, iflow)
                if i is not None:
                    idxs.append(i)
    if not idxs:
        rep.unrec("C06.R6", it, "iter-yields-key", "__iter__ does not read payload[const]")
    else:
        rep.check("C06.R6", it, "iter-yields-key", set(idxs) == {kpos}, f"iteration yields payload[{kpos}]",
                  f"iteration yields payload[{idxs[0]}] (values) instead of keys",
                  scenario="list(cache) lists values; keys()/items()/== are wrong")
