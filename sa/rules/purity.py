"""Results do not depend on the history of earlier calls (shared by the properties about functions defined by their inputs).

``int_2_roman(4)``, ``load(line)``, ``min_combinations_in_interval_iter_sorted(...)`` are specified as functions of their arguments.
Two constructs make them functions of the process history instead:

  (M) a memoising decorator (``functools.lru_cache`` / ``cache``) on a function whose result is a mutable object: every caller gets
      the *same* object, and what one caller does to it (or to what was built from its parts) is seen by the next;
  (C) a module-level container that functions write at run time and a function in scope answers from.

For (C) the rule recognises three ways in which the remembered answer is positively not the computed one:
  c1  another function stores one of *its own parameters* into the container (the answer is what a caller of that function passed);
  c2  the look-up key leaves out a parameter the computation uses (two calls that differ only in it get one answer);
  c3  the stored object is a mutable container that is also handed out (callers share, and can edit, one object).
Any other answer from run-time module state is UNRECOGNISED (whether it equals the computed value is a value-level question); a
container that no function writes (a constant table) is not state.
"""
from __future__ import annotations

import ast
from typing import Dict, Iterable, List, Optional, Set, Tuple

from ..flow import Flow
from ..model import Func, Program, walk_own
from ..report import Report
from ..util import src
from .memo import MUTATOR_CALLS

MEMO_DECORATORS = {"lru_cache", "functools.lru_cache", "cache", "functools.cache", "cached", "memoize", "functools.cached_property",
                   "cached_property"}
MUTABLE_MAKERS = {"json.loads", "json.load", "list", "dict", "set", "bytearray", "collections.defaultdict", "defaultdict",
                  "collections.OrderedDict", "OrderedDict", "collections.deque", "deque", "sorted", "copy.copy", "copy.deepcopy",
                  "pickle.loads", "ast.literal_eval", "yaml.safe_load"}
DEEP_MUTABLE = {"json.loads", "json.load", "pickle.loads", "ast.literal_eval", "yaml.safe_load"}     # the parts may be mutable too
MODULE_CONTAINER_CALLS = {"dict", "list", "set", "collections.defaultdict", "defaultdict", "collections.OrderedDict", "OrderedDict",
                          "collections.deque", "deque", "weakref.WeakValueDictionary", "WeakValueDictionary"}


def _is_memoised(f: Func) -> Optional[str]:
    for d in f.decorators:
        if d in MEMO_DECORATORS:
            return d
    return None


def _mutable_kind(e: ast.expr, flow: Flow, depth=0) -> Optional[str]:
    """'deep' (a parsed structure whose parts may be mutable), 'shallow' (a fresh list/dict/set), None (not known to be mutable)"""
    if isinstance(e, ast.Name) and depth < 4:
        kinds = set()
        for d in flow.defs_of(e):
            v = getattr(d, "value", None)
            if isinstance(v, ast.expr) and d.index is None:
                kinds.add(_mutable_kind(v, flow, depth + 1))
            else:
                kinds.add(None)
        if kinds and None not in kinds:
            return "deep" if "deep" in kinds else "shallow"
        return None
    if isinstance(e, (ast.List, ast.Dict, ast.Set, ast.ListComp, ast.DictComp, ast.SetComp)):
        return "shallow"
    if isinstance(e, ast.Call):
        fn = src(e.func)
        if fn in DEEP_MUTABLE:
            return "deep"
        if fn in MUTABLE_MAKERS:
            return "shallow"
    return None


def _module_containers(mod) -> Dict[str, ast.AST]:
    out = {}
    for st in mod.tree.body:
        tgt = val = None
        if isinstance(st, ast.Assign) and len(st.targets) == 1 and isinstance(st.targets[0], ast.Name):
            tgt, val = st.targets[0].id, st.value
        elif isinstance(st, ast.AnnAssign) and isinstance(st.target, ast.Name) and st.value is not None:
            tgt, val = st.target.id, st.value
        if tgt is None:
            continue
        if isinstance(val, (ast.Dict, ast.List, ast.Set, ast.DictComp, ast.ListComp, ast.SetComp)) or \
                (isinstance(val, ast.Call) and src(val.func) in MODULE_CONTAINER_CALLS):
            out[tgt] = st
    return out


def _local_names(f: Func) -> Set[str]:
    names = set(f.params) | {a.arg for a in f.node.args.kwonlyargs}
    if f.node.args.vararg:
        names.add(f.node.args.vararg.arg)
    if f.node.args.kwarg:
        names.add(f.node.args.kwarg.arg)
    glob = set()
    for n in walk_own(f.node):
        if isinstance(n, ast.Global):
            glob |= set(n.names)
        if isinstance(n, ast.Name) and isinstance(n.ctx, ast.Store):
            names.add(n.id)
    return names - glob


def _uses(f: Func, cname: str):
    """(writes, reads) of the module container in f: writes = [(node, key expr or None, value expr or None)], reads = [node]"""
    if cname in _local_names(f):
        return [], []
    writes, reads = [], []
    for n in ast.walk(f.node):
        if isinstance(n, ast.Subscript) and isinstance(n.value, ast.Name) and n.value.id == cname:
            if isinstance(n.ctx, ast.Store):
                st = n
                while st is not None and not isinstance(st, ast.stmt):
                    st = getattr(st, "_parent", None)
                writes.append((n, n.slice, getattr(st, "value", None)))
            elif isinstance(n.ctx, ast.Del):
                writes.append((n, n.slice, None))
            else:
                reads.append(n)
        elif isinstance(n, ast.Call) and isinstance(n.func, ast.Attribute) and isinstance(n.func.value, ast.Name) \
                and n.func.value.id == cname:
            if n.func.attr in MUTATOR_CALLS:
                key = n.args[0] if n.args else None
                val = n.args[1] if len(n.args) > 1 else (n.args[0] if n.func.attr in ("append", "add", "extend", "update") and n.args else None)
                writes.append((n, key, val))
                if n.func.attr in ("setdefault", "pop"):
                    reads.append(n)
            elif n.func.attr in ("get", "__getitem__", "copy", "items", "values"):
                reads.append(n)
    return writes, reads


def rule_history_free(prog: Program, rep: Report, rule: str, funcs: List[Func], declare: bool = True, what: str = ""):
    """one instance per function in ``funcs``"""
    if declare:
        rep.rule(rule, "results do not depend on earlier calls: no function in scope (or helper it calls) is memoised by a decorator "
                 "while returning a mutable object that reaches the caller's result, and no function answers from a module-level "
                 "container that is written at run time where (c1) another function stores its own parameter there, (c2) the key "
                 "leaves out a parameter the computation uses, or (c3) the stored mutable object is handed out; any other answer from "
                 "run-time module state is unrecognised" + (f"; {what}" if what else ""), floor=len(funcs))
    mods = {}
    for f in funcs:
        mods.setdefault(f.mod.name, f.mod)
    containers = {m: _module_containers(mod) for m, mod in mods.items()}
    all_funcs = [g for g in prog.functions.values() if g.mod.name in mods]
    writers: Dict[Tuple[str, str], List[Tuple[Func, ast.AST, Optional[ast.expr], Optional[ast.expr]]]] = {}
    for g in all_funcs:
        for cname in containers[g.mod.name]:
            ws, _ = _uses(g, cname)
            for n, k, v in ws:
                writers.setdefault((g.mod.name, cname), []).append((g, n, k, v))
    for f in funcs:
        rep.fn(f)
        role = f"history-free:{f.qual.split('.', 2)[-1] if f.cls else f.name}"
        flow = Flow(f.node)
        # ---- (M) memoising decorators: on f itself or on a helper it calls
        verdict = None
        cands = [(f, None)]
        for c in ast.walk(f.node):
            if isinstance(c, ast.Call):
                tgt = None
                if isinstance(c.func, ast.Name):
                    tgt = prog.functions.get(f"{f.mod.name}.{c.func.id}")
                elif isinstance(c.func, ast.Attribute) and isinstance(c.func.value, ast.Name) and f.cls is not None \
                        and c.func.value.id in ((f.params[0] if f.params else None), f.cls.name, "cls", "self"):
                    tgt = prog.resolve(f.cls, c.func.attr)
                    if tgt is None:
                        for sub in prog.classes.values():
                            if not sub.is_external and f.cls in (sub.mro or []) and c.func.attr in sub.methods:
                                tgt = sub.methods[c.func.attr]
                if tgt is not None and not getattr(getattr(tgt, "cls", None), "is_external", False):
                    cands.append((tgt, c))
        for g, call in cands:
            dec = _is_memoised(g)
            if not dec:
                continue
            gflow = Flow(g.node)
            kinds = [_mutable_kind(r.value, gflow) for r in ast.walk(g.node) if isinstance(r, ast.Return) and r.value is not None]
            if not kinds:
                continue
            if any(k is not None for k in kinds):
                deep = "deep" in kinds
                copied = False
                if call is not None:
                    par = getattr(call, "_parent", None)
                    copied = isinstance(par, ast.Call) and src(par.func) in ("copy.deepcopy", "deepcopy")
                if copied:
                    continue
                if g is f or deep:
                    verdict = ("V", getattr(call, "lineno", g.node.lineno),
                               f"`{g.name}` is memoised by @{dec} and returns a mutable object"
                               + (" (a parsed structure with mutable parts)" if deep else "") +
                               (f"; `{f.name}` builds its result from it without a deep copy" if g is not f else "") +
                               ": every caller shares one object per argument, so an edit through one result shows up in the next")
                else:
                    verdict = ("U", getattr(call, "lineno", g.node.lineno),
                               f"`{g.name}` is memoised by @{dec} and returns a fresh container: whether `{f.name}` lets it (or a "
                               "mutable part of it) escape is not decided")
                break
            else:
                # result kind unknown: fine for scalars, not decidable in general
                verdict = verdict or ("U", getattr(call, "lineno", g.node.lineno),
                                      f"`{g.name}` is memoised by @{dec}: cannot tell whether its result is immutable")
        # ---- (C) module-level containers written at run time
        if verdict is None or verdict[0] != "V":
            for cname in containers[f.mod.name]:
                ws_all = writers.get((f.mod.name, cname), [])
                if not ws_all:
                    continue                                   # a constant table
                ws, reads = _uses(f, cname)
                if not reads:
                    continue
                # does a read reach a return?
                returned = []
                for r in ast.walk(f.node):
                    if not (isinstance(r, ast.Return) and r.value is not None):
                        continue
                    ex = r.value
                    names = [n for n in ast.walk(ex) if isinstance(n, ast.Name) and isinstance(n.ctx, ast.Load)]
                    direct = any(x in reads for x in ast.walk(ex))
                    via = False
                    for n in names:
                        for d in flow.defs_of(n):
                            v = getattr(d, "value", None)
                            if isinstance(v, ast.AST) and any(x in reads for x in ast.walk(v)):
                                via = True
                            # res = C[key] = []  (chained assignment: the name and the entry are one object)
                            st = getattr(d, "node", None)
                            if isinstance(st, ast.Assign) and any(isinstance(t, ast.Subscript) and isinstance(t.value, ast.Name)
                                                                  and t.value.id == cname for t in st.targets):
                                via = True
                    if direct or via:
                        returned.append(r)
                if not returned:
                    continue
                ln = returned[0].lineno
                # c1: another function stores its own parameter
                c1 = [(g, n, v) for g, n, k, v in ws_all if g is not f and isinstance(v, ast.Name) and v.id in g.params]
                if c1:
                    g, n, v = c1[0]
                    verdict = ("V", ln, f"`{f.name}` answers from the module-level `{cname}`, into which `{g.name}` stores its own "
                                        f"parameter `{v.id}` (line {n.lineno}): the answer is whatever a caller of `{g.name}` passed, "
                                        "not what this function computes")
                    break
                # c2: the key leaves out a parameter the computation uses
                keys = []
                for n in reads:
                    k = n.slice if isinstance(n, ast.Subscript) else (n.args[0] if getattr(n, "args", None) else None)
                    if k is not None:
                        keys.append(flow.expand(k) if isinstance(k, ast.Name) else k)
                key_names = {x.id for k in keys for x in ast.walk(k) if isinstance(x, ast.Name)}
                key_nodes = {id(x) for k in keys for x in ast.walk(k)}
                for st in ast.walk(f.node):          # the statement that defines a named key
                    if isinstance(st, ast.Assign) and any(isinstance(t, ast.Name) and any(
                            isinstance(k0, ast.Name) and k0.id == t.id for k0 in
                            [(n.slice if isinstance(n, ast.Subscript) else (n.args[0] if getattr(n, "args", None) else None)) for n in reads])
                            for t in st.targets):
                        key_nodes |= {id(x) for x in ast.walk(st)}
                used = {x.id for x in ast.walk(f.node) if isinstance(x, ast.Name) and isinstance(x.ctx, ast.Load)
                        and id(x) not in key_nodes and x.id in f.params}
                missing = sorted(p for p in used if p not in key_names and p != f.self_name)
                if keys and missing:
                    verdict = ("V", ln, f"`{f.name}` answers from the module-level `{cname}` under the key `{src(keys[0])[:60]}`, which leaves "
                                        f"out the parameter `{missing[0]}` that the computation uses: two calls that differ only in it get "
                                        "the first call's answer")
                    break
                # c3: a mutable stored object is handed out
                c3 = None
                for g, n, k, v in ws_all:
                    if g is f and v is not None and _mutable_kind(v, flow) is not None:
                        c3 = (n, v)
                if c3:
                    verdict = ("V", ln, f"`{f.name}` stores a mutable object in the module-level `{cname}` (line {c3[0].lineno}) and hands "
                                        "the same object to its callers: an edit of one result changes what later calls return")
                    break
                verdict = ("U", ln, f"`{f.name}` can answer from the module-level `{cname}`, which is written at run time: whether the "
                                    "remembered answer equals the computed one is a value-level question")
        if verdict is None:
            rep.ok(rule, f, role, "no memoised mutable result, no answer from run-time module state")
        elif verdict[0] == "V":
            rep.viol(rule, f, role, verdict[2], scenario="call the function twice in one process (the second time after the first "
                     "result was edited, or after a related call with other arguments): the second answer differs from what a fresh "
                     "process computes", line=verdict[1])
        else:
            rep.unrec(rule, f, role, verdict[2], line=verdict[1])
