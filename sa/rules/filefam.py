"""Shared facts about the line-file family of windpyutils/files.py (used by C11, C12, C13, C18).

Slots are discovered by role: *handles* are the fields assigned from ``open(...)``/``mmap.mmap(...)`` in
an ``open`` method, the *pid field* is the field assigned from ``os.getpid()`` next to them, the
*re-open helper* is the method that compares that field with ``os.getpid()`` and closes+opens.
"""
from __future__ import annotations

import ast
from typing import Dict, List, Optional, Set, Tuple

from ..absint import Client, Ctx, Interp
from ..model import AnalysisError, Cls, Func, Program, walk_own
from ..resolve import Scope, dotted
from ..util import calls_in, assigned_value

FILES_MOD = "windpyutils.files"


def is_call_to(prog: Program, f: Func, e: ast.expr, name: str, _depth: int = 0) -> bool:
    """a call of the external function ``name``, directly or through a repository wrapper all of whose returns are such a call"""
    if not isinstance(e, ast.Call):
        return False
    if prog.external_name(f.mod, e.func) == name:
        return True
    if _depth < 3 and isinstance(e.func, ast.Name) and not e.args and not e.keywords:
        g = prog.functions.get(f"{f.mod.name}.{e.func.id}")
        if g is not None and g.cls is None:
            rets = [r for r in walk_own(g.node) if isinstance(r, ast.Return)]
            return bool(rets) and all(r.value is not None and is_call_to(prog, g, r.value, name, _depth + 1) for r in rets)
    return False


class Family:
    def __init__(self, prog: Program):
        self.P = prog
        self.base = prog.cls("BaseRandomLineAccessFile", FILES_MOD)
        self.map_file = prog.cls("MapAccessFile", FILES_MOD)
        self.line_classes: List[Cls] = []
        # roles of the private reader methods, discovered from the abstract base: the item getter is what __getitem__
        # calls with its selector, the raw reader is what the base item getter returns, the next-line reader and the seek
        # helper are the remaining abstract one-/zero-argument methods called by __iter__ / the raw readers
        gi = self.base.methods.get("__getitem__")
        if gi is not None:
            gi = prog.resolve_view(self.base, "__getitem__") or gi      # private helpers of the base class inlined (sa/inline.py)
        self.item_getter = self.raw_reader = self.next_reader = self.seek_helper = None
        if gi is not None and len(gi.params) >= 2:
            for n in walk_own(gi.node):
                if isinstance(n, ast.Return) and isinstance(n.value, ast.Call) and isinstance(n.value.func, ast.Attribute) \
                        and isinstance(n.value.func.value, ast.Name) and n.value.func.value.id == gi.self_name \
                        and len(n.value.args) == 1 and isinstance(n.value.args[0], ast.Name) and n.value.args[0].id == gi.params[1]:
                    self.item_getter = n.value.func.attr
        ig = self.base.methods.get(self.item_getter) if self.item_getter else None
        if ig is not None:
            for n in walk_own(ig.node):
                if isinstance(n, ast.Return) and isinstance(n.value, ast.Call) and isinstance(n.value.func, ast.Attribute) \
                        and isinstance(n.value.func.value, ast.Name) and n.value.func.value.id == ig.self_name:
                    self.raw_reader = n.value.func.attr
        for name, m in self.base.methods.items():
            if m.is_abstract and not m.is_property and name not in ("open", "close", self.raw_reader):
                if len(m.params) == 1:
                    self.next_reader = name
                elif len(m.params) == 2:
                    self.seek_helper = name
        if None in (self.item_getter, self.raw_reader, self.next_reader, self.seek_helper):
            raise AnalysisError(f"line-file family: reader roles not discoverable (item getter {self.item_getter}, raw reader "
                                f"{self.raw_reader}, next-line reader {self.next_reader}, seek helper {self.seek_helper})")
        for c in prog.classes.values():
            if c.mod.name != FILES_MOD or self.base not in (c.mro or []):
                continue
            rl = prog.resolve(c, self.raw_reader)
            op = prog.resolve(c, "open")
            if rl is not None and not rl.is_abstract and op is not None and not op.is_abstract:
                self.line_classes.append(c)
        self.line_classes.sort(key=lambda c: c.node.lineno)
        if len(self.line_classes) < 8:
            raise AnalysisError(f"line-file family: only {len(self.line_classes)} concrete classes found (floor 8)")
        self.handles: Dict[str, Set[str]] = {}
        self.pid_field: Dict[str, str] = {}
        self.reopen: Dict[str, Func] = {}
        for c in self.line_classes + [self.map_file]:
            self._discover(c)

    def _discover(self, c: Cls):
        P = self.P
        handles, pid = set(), None
        for k in c.repo_mro():
            f = k.methods.get("open")
            if f is None or f.is_abstract or f.self_name is None:
                continue
            for n in walk_own(f.node):
                if isinstance(n, ast.Assign) and len(n.targets) == 1:
                    d = dotted(n.targets[0])
                    if d and len(d) == 2 and d[0] == f.self_name:
                        ext = P.external_name(f.mod, n.value.func) if isinstance(n.value, ast.Call) else None
                        if ext in ("open", "mmap.mmap", "io.open"):
                            handles.add(d[1])
                        elif ext == "os.getpid" or is_call_to(P, f, n.value, "os.getpid"):
                            pid = d[1]
        self.foreign_identity = getattr(self, "foreign_identity", {})
        if handles and pid is None:
            # the owner is recorded, but not as os.getpid(): the field that close() resets to None together with the handle and that
            # open() assigns from a call
            for k in c.repo_mro():
                f = k.methods.get("open")
                cl = k.methods.get("close")
                if f is None or cl is None or f.is_abstract or f.self_name is None:
                    continue
                cleared = {dotted(t)[1] for n in walk_own(cl.node) if isinstance(n, ast.Assign) and isinstance(n.value, ast.Constant)
                           and n.value.value is None for t in n.targets if dotted(t) and len(dotted(t)) == 2 and dotted(t)[0] == cl.self_name}
                for n in walk_own(f.node):
                    if isinstance(n, ast.Assign) and len(n.targets) == 1 and isinstance(n.value, ast.Call):
                        d = dotted(n.targets[0])
                        if d and len(d) == 2 and d[0] == f.self_name and d[1] in cleared and d[1] not in handles:
                            pid = d[1]
                            self.foreign_identity[c.qual] = (f, n)
        if not handles or pid is None:
            raise AnalysisError(f"{c.short}: handle/pid fields not discoverable from open() (handles={handles}, pid={pid})")
        self.handles[c.qual] = handles
        self.pid_field[c.qual] = pid
        # re-open helper: compares the pid field with os.getpid()
        helper = None
        cands = []
        for k in c.repo_mro():
            for f0 in k.methods.values():
                if f0.self_name is None or P.resolve(c, f0.name) is not f0:
                    continue
                # read with the class's private helpers inlined (sa/inline.py): the test and the close/open pair may live in helpers
                f = P.resolve_view(c, f0.name) or f0
                from ..flow import Flow
                fl = None
                for n in walk_own(f.node):
                    if isinstance(n, ast.Compare):
                        parts = [n.left] + list(n.comparators)
                        if fl is None:
                            fl = Flow(f.node)
                        # a local that names the current pid / the recorded owner stands for it
                        parts = [fl.expand(x) if isinstance(x, ast.Name) else x for x in parts]
                        has_pid = any(is_call_to(P, f, x, "os.getpid") for x in parts)
                        has_fld = any(dotted(x) == (f.self_name, pid) for x in parts)
                        if has_pid and has_fld:
                            reopens = any(isinstance(cl.func, ast.Attribute) and cl.func.attr in ("open", "close") for cl in calls_in(f.node))
                            cands.append((reopens, f0, f))
        # the helper is the method that also closes and opens (a bare predicate that only compares is one of its parts)
        self.reopen_view = getattr(self, "reopen_view", {})
        for reopens, f0, f in cands:
            if reopens:
                helper = f0
                self.reopen_view[c.qual] = f
                break
        if helper is None and cands:
            helper = cands[0][1]
            self.reopen_view[c.qual] = cands[0][2]
        self.reopen_foreign_compare = getattr(self, "reopen_foreign_compare", {})
        if helper is None and c.qual in self.foreign_identity:
            for k in c.repo_mro():
                for f in k.methods.values():
                    if f.self_name is None or P.resolve(c, f.name) is not f:
                        continue
                    if any(isinstance(n, ast.Compare) and any(dotted(x) == (f.self_name, pid) for x in [n.left] + list(n.comparators))
                           and not any(isinstance(x, ast.Constant) and x.value is None for x in [n.left] + list(n.comparators))
                           for n in walk_own(f.node)):
                        helper = f
        if helper is None:
            # a method that compares the pid field with something that is *not* os.getpid() (and not None) and calls close/open:
            # still the re-open helper, but its test is wrong; C18.R2 reports the operand
            for k in c.repo_mro():
                for f in k.methods.values():
                    if f.self_name is None or P.resolve(c, f.name) is not f:
                        continue
                    fl_ = None
                    for n in walk_own(f.node):
                        if isinstance(n, ast.Compare) and len(n.ops) == 1 and isinstance(n.ops[0], (ast.Eq, ast.NotEq, ast.Is, ast.IsNot)):
                            if fl_ is None:
                                from ..flow import Flow as _Flow
                                fl_ = _Flow(f.node)
                            # opened_in = self.<pid field>; if opened_in != os.getppid(): a local that names the field reads as the field
                            parts = [fl_.expand(x) if isinstance(x, ast.Name) else x for x in (n.left, n.comparators[0])]
                            other = [x for x in parts if dotted(x) != (f.self_name, pid)]
                            if len(other) == 1 and not (isinstance(other[0], ast.Constant) and other[0].value is None) \
                                    and any(isinstance(cl.func, ast.Attribute) and cl.func.attr in ("open", "close") for cl in calls_in(f.node)):
                                helper = f
                                self.reopen_foreign_compare[c.qual] = (n, other[0])
                if helper:
                    break
        if helper is None:
            raise AnalysisError(f"{c.short}: no method compares self.{pid} with os.getpid() (re-open helper vanished)")
        self.reopen[c.qual] = helper

    # ------------------------------------------------------------------ entry points
    def entry_points(self, c: Cls, include_mixins: bool = True) -> List[Func]:
        """public API of the concrete class as resolved along its MRO"""
        names: Set[str] = set()
        for k in c.repo_mro():
            if k.is_external and not include_mixins:
                continue
            for m, f in k.methods.items():
                if m in ("__init__", "__class_getitem__", "__subclasshook__", "__new__", "__init_subclass__"):
                    continue
                if (m.startswith("__") and m.endswith("__")) or not m.startswith("_"):
                    names.add(m)
        out = []
        for m in sorted(names):
            f = self.P.resolve(c, m)
            if f is None or f.is_abstract or f.is_static or f.is_classmethod or f.self_name is None:
                continue
            out.append(f)
        return out

    # ------------------------------------------------------------------ per-class constant of the dirty flag
    def dirty_values(self, c: Cls) -> Set[object]:
        """possible values of the dirty flag field of an instance of ``c`` (init value(s) + later writes)"""
        fld = self.dirty_field()
        init = self.P.resolve(c, "__init__")
        vals: Set[object] = set()
        if init is None:
            return {"?"}
        client = _ConstField(fld)
        it = Interp(self.P, client)
        ex = it.run(init, {("unset",)}, c)
        for s in ex.normal | ex.ret:
            vals.add(s[0])
        for k in c.repo_mro():
            for f in k.methods.values():
                if f.name == "__init__" or f.self_name is None:
                    continue
                for n in walk_own(f.node):
                    if isinstance(n, (ast.Assign, ast.AugAssign)):
                        tg = n.targets if isinstance(n, ast.Assign) else [n.target]
                        for t in tg:
                            if dotted(t) == (f.self_name, fld):
                                v = n.value
                                vals.add(v.value if isinstance(n, ast.Assign) and isinstance(v, ast.Constant) else "?")
        return vals

    def dirty_field(self) -> str:
        """field returned by the ``dirty`` property"""
        f = self.base.methods.get("dirty")
        if f is not None:
            for n in walk_own(f.node):
                if isinstance(n, ast.Return) and n.value is not None:
                    d = dotted(n.value)
                    if d and len(d) == 2:
                        return d[1]
                    # bool(self._dirty) and the like: the one field of the object the returned expression reads
                    flds = {x.attr for x in ast.walk(n.value) if isinstance(x, ast.Attribute) and isinstance(x.value, ast.Name)
                            and x.value.id == f.self_name}
                    if len(flds) == 1:
                        return next(iter(flds))
        raise AnalysisError("dirty property of BaseRandomLineAccessFile not found")


class _ConstField(Client):
    """tracks the constant last stored into one self field"""

    def __init__(self, fld):
        self.fld = fld

    def event(self, kind, node, state, ctx: Ctx):
        if kind == "store" and isinstance(node, ast.Attribute) and node.attr == self.fld and ctx.scope.is_self(node.value):
            v = assigned_value(node)
            val = v.value if isinstance(v, ast.Constant) else "?"
            return [(val,)]
        return (state,)


# ---------------------------------------------------------------------- C11.R2 / C18.R1 product typestate
U, OWNED, POS, LOST = "UNKNOWN", "OWNED", "POSITIONED", "LOST-BY-REOPEN"


class HandleTypestate(Client):
    """owner in {UNKNOWN, OWNED} x cursor in {UNKNOWN, POSITIONED}; see DESIGN.md appendix C"""

    def __init__(self, fam: Family, cls: Cls, dirty_const: Optional[bool]):
        self.fam, self.cls = fam, cls
        self.handles = fam.handles[cls.qual]
        self.helper = fam.reopen[cls.qual]
        self.dirty_field = fam.dirty_field() if cls is not fam.map_file else None
        self.dirty_const = dirty_const
        self.findings: Dict[Tuple[str, str, str, int], dict] = {}
        self.sites: Set[Tuple[str, int]] = set()
        self.stale_alias: Set[Tuple[str, int]] = set()

    def should_inline(self, func: Func, call, ctx: Ctx) -> bool:
        return func is not self.helper

    def _handle_call(self, call: ast.Call, ctx: Ctx) -> Optional[str]:
        f = call.func
        if isinstance(f, ast.Name) and not ctx.scope.is_self(f):
            # a bound method of the handle kept in a local (`seek, readline = self.file.seek, self.file.readline`): calling the
            # local is the same access to the handle it was taken from
            from ..flow import Flow
            fl = getattr(ctx.func.node, "_flow", None)
            if fl is None:
                fl = ctx.func.node._flow = Flow(ctx.func.node)
            try:
                df = fl.single_def(f)
            except Exception:
                df = None
            v = getattr(df, "value", None) if df is not None else None
            idx = getattr(df, "index", None) if df is not None else None
            if isinstance(v, (ast.Tuple, ast.List)) and idx and len(idx) == 1 and isinstance(idx[0], int) and idx[0] < len(v.elts):
                v = v.elts[idx[0]]
            elif idx:
                v = None
            if isinstance(v, ast.Attribute):
                d0 = dotted(v.value)
                if d0 and len(d0) == 2 and ctx.scope.is_self(ast.Name(id=d0[0], ctx=ast.Load())) and d0[1] in self.handles \
                        and ctx.scope.cls is self.cls:
                    if v.attr == "seek":
                        return "seek"
                    if v.attr in ("readline", "read", "readlines", "__next__", "read_byte"):
                        return "read"
            return None
        if not isinstance(f, ast.Attribute):
            return None
        d = dotted(f.value)

        def accessor(e):
            """<accessor>(): a method of the object all of whose returns hand out one of its handles (the re-open check it may
            contain has been followed by the engine when the call was evaluated)"""
            try:
                acc = ctx.scope.resolve_call(e)
            except Exception:
                return None
            if acc is not None and getattr(acc, "self_name", None) is not None and hasattr(acc, "node"):
                from ..util import returns_of
                rets = [dotted(r.value) for r in returns_of(acc.node) if r.value is not None]
                if rets and all(r and len(r) == 2 and r[0] == acc.self_name and r[1] in self.handles for r in rets) and len({r[1] for r in rets}) == 1:
                    return (ctx.func.self_name, rets[0][1])
            return None
        if isinstance(f.value, ast.Call):
            d = accessor(f.value) or d
        if isinstance(f.value, ast.Name) and not ctx.scope.is_self(f.value):
            # a local alias of the handle (`handle = self.file`): the same access, provided the alias is not older than a
            # re-open check that stands between its definition and this use (then it names the handle of the other process)
            from ..flow import Flow
            from ..util import before
            fl = getattr(ctx.func.node, "_flow", None)
            if fl is None:
                fl = ctx.func.node._flow = Flow(ctx.func.node)
            df = fl.single_def(f.value)
            if df is not None and df.kind == "assign" and isinstance(df.value, ast.expr):
                ex2 = fl.expand(f.value)
                d2 = accessor(ex2) if isinstance(ex2, ast.Call) else dotted(ex2)
                if isinstance(ex2, ast.Call) and d2:
                    d = d2           # handle = self._active_handle(): taken after the check the accessor makes
                    d2 = None
                if d2 and len(d2) == 2 and ctx.scope.is_self(ast.Name(id=d2[0], ctx=ast.Load())) and d2[1] in self.handles:
                    stale = any(ctx.scope.resolve_call(cl) is self.helper and before(ctx.func.node, df.value, cl)
                                and before(ctx.func.node, cl, call) for cl in calls_in(ctx.func.node))
                    if stale:
                        self.stale_alias.add((ctx.func.short, call.lineno))
                    d = d2
        if d and len(d) == 2 and ctx.scope.is_self(ast.Name(id=d[0], ctx=ast.Load())) and d[1] in self.handles \
                and ctx.scope.cls is self.cls:
            if f.attr == "seek":
                return "seek"
            if f.attr in ("readline", "read", "readlines", "__next__", "read_byte"):
                return "read"
        return None

    def classify(self, call: ast.Call, ctx: Ctx) -> Optional[str]:
        tgt = ctx.scope.resolve_call(call)
        if tgt is self.helper:
            return "reopen"
        return self._handle_call(call, ctx)

    def refine(self, test, state, ctx: Ctx):
        # `self.<handle>.tell() == <offset>`: on the true branch the handle stands where a seek(<offset>) would put it
        if isinstance(test, ast.Compare) and len(test.ops) == 1 and isinstance(test.ops[0], (ast.Eq, ast.NotEq)):
            for a in (test.left, test.comparators[0]):
                if isinstance(a, ast.Call) and isinstance(a.func, ast.Attribute) and a.func.attr == "tell" and not a.args:
                    d = dotted(a.func.value)
                    if d and len(d) == 1 and not ctx.scope.is_self(a.func.value):
                        from ..flow import Flow
                        fl = getattr(ctx.func.node, "_flow", None)
                        if fl is None:
                            fl = ctx.func.node._flow = Flow(ctx.func.node)
                        d = dotted(fl.expand(a.func.value)) or d          # mm = self.mm
                    if d and len(d) == 2 and d[1] in self.handles and ctx.scope.is_self(ast.Name(id=d[0], ctx=ast.Load())):
                        owner, cursor = state
                        pos = ((owner, POS),)
                        return (pos, (state,)) if isinstance(test.ops[0], ast.Eq) else ((state,), pos)
        # if self._dirty: refined by the per-class constant
        if self.dirty_const is not None and self.dirty_field is not None:
            d = dotted(test)
            if d and len(d) == 2 and d[1] == self.dirty_field and ctx.scope.is_self(ast.Name(id=d[0], ctx=ast.Load())):
                return ((state,), ()) if self.dirty_const else ((), (state,))
        return (state,), (state,)

    def event(self, kind, node, state, ctx: Ctx):
        owner, cursor = state
        if kind == "yield":
            return ((U, U),)
        if kind == "reopen":
            # a handle re-opened in a new process stands at offset 0: the position is lost ("R")
            return ((OWNED, cursor if owner == OWNED else LOST),)
        if kind in ("seek", "read"):
            self.sites.add((ctx.func.short, node.lineno))
            chain = ctx.chain
            if owner != OWNED or (ctx.func.short, node.lineno) in self.stale_alias:
                self._find("owner", kind, node, ctx, chain)
            if kind == "seek":
                return ((owner, POS),)
            if cursor != POS:
                self._find("cursor", kind, node, ctx, chain)
            if cursor == LOST:
                self._find("lost", kind, node, ctx, chain)
            # after a read the cursor stands at the next *physical* line, which is the next *indexed* line only for a
            # complete in-order index: the next read needs its own seek
            return ((owner, U),)
        if kind == "iter" and isinstance(node, ast.Attribute):
            d = dotted(node)
            if d and len(d) == 2 and d[1] in self.handles and ctx.scope.is_self(ast.Name(id=d[0], ctx=ast.Load())):
                if owner != OWNED:
                    self._find("owner", "read", node, ctx, ctx.chain)
                if cursor != POS:
                    self._find("cursor", "read", node, ctx, ctx.chain)
        return (state,)

    def _find(self, what, kind, node, ctx: Ctx, chain):
        key = (what, ctx.func.short, kind, 0)
        self.findings.setdefault(key, {"what": what, "op": kind, "site": ctx.func.short, "file": ctx.func.relpath,
                                       "line": node.lineno, "chain": list(chain)})


def run_typestate(prog: Program, fam: Family, include_mixins: bool):
    """returns (results, stats): results = list of (cls, entry Func, finding dict); stats counters"""
    results = []
    stats = {"entry_points": 0, "abstract_states": 0, "events": 0, "handle_sites": set(), "unrecognised": []}
    for c in fam.line_classes + [fam.map_file]:
        dconst = None
        if c is not fam.map_file:
            dv = fam.dirty_values(c)
            if dv == {True}:
                dconst = True
            elif dv == {False}:
                dconst = False
        for f in fam.entry_points(c, include_mixins):
            client = HandleTypestate(fam, c, dconst)
            it = Interp(prog, client)
            it.run(f, {(U, U)}, c)
            stats["entry_points"] += 1
            stats["abstract_states"] += len(it.states_seen)
            stats["events"] += it.events
            stats["handle_sites"] |= client.sites
            for u in it.unrecognised:
                stats["unrecognised"].append(f"{c.short}.{f.name}: {u}")
            for fd in client.findings.values():
                results.append((c, f, fd))
    return results, stats
