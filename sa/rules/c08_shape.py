"""C08.R4 — shape analysis of the pointer surgery of DoublyLinkedList (abstract interpretation, all list lengths).

Abstract heap: explicit nodes plus *gaps*.  A gap stands for an opaque, internally well-formed chain of >= 1 nodes of
which only the outward pointers are known (prev of its first node, next of its last node).  A pointer is None, an
explicit node, or the first/last node of a gap.  Reading or writing an inward field of a gap end *materialises* the
gap (case split: exactly one node / one explicit node + a shorter gap), so straight-line pointer code is executed
exactly and for lists of every length.  Every node carries an order key recording its position in the initial list
(materialisation refines keys), which lets the post-condition compare the final forward traversal with the reference
sequence of the operation.

Initial states enumerate every layout of the parameter nodes in a well-formed list (gap or nothing before, between,
after them; aliasing of two node parameters included; the empty list for parameterless operations).  The engine is the
shared structured abstract interpreter (E1); this module is its client.  No repository code is executed.
"""
from __future__ import annotations

import ast
import itertools
from typing import Dict, List, Optional, Set, Tuple

from ..absint import Client, Ctx, Interp, RaiseExc
from ..model import AnalysisError, Cls, Func, Program
from ..report import Report
from ..resolve import const_value, dotted
from ..util import assigned_value, src

SELF = ("SELF",)
DATA = ("DATA",)
TOP = ("TOP",)


def N(i):
    return ("N", i)


def G(i, end):
    return ("G", i, end)


class Heap:
    """mutable working copy; frozen into the interpreter state between events"""

    def __init__(self, head=None, tail=None, cells=None, fresh=0):
        self.head, self.tail = head, tail
        # id -> [kind ('n'|'g'), prev, next, key]   (for a gap: prev = prev of its first node, next = next of its last)
        self.cells: Dict[int, list] = {k: list(v) for k, v in (cells or {}).items()}
        self.fresh = fresh

    def freeze(self):
        return (self.head, self.tail, tuple(sorted((k, tuple(v)) for k, v in self.cells.items())), self.fresh)

    @staticmethod
    def thaw(fz) -> "Heap":
        head, tail, cells, fresh = fz
        return Heap(head, tail, {k: list(v) for k, v in cells}, fresh)

    def new_id(self) -> int:
        self.fresh += 1
        return self.fresh

    def subst(self, mapping):
        def m(v):
            return mapping.get(v, v)
        self.head, self.tail = m(self.head), m(self.tail)
        for c in self.cells.values():
            c[1], c[2] = m(c[1]), m(c[2])
        return m


def freeze_frames(frames):
    return tuple(tuple(sorted(f.items())) for f in frames)


def thaw_frames(fz):
    return [dict(f) for f in fz]


class St:
    """interpreter state = (heap, frames, retval, dsize, crashed)"""

    def __init__(self, heap: Heap, frames: List[Dict[str, tuple]], retval=None, dsize=0, note=None):
        self.heap, self.frames, self.retval, self.dsize, self.note = heap, frames, retval, dsize, note

    def freeze(self):
        return (self.heap.freeze(), freeze_frames(self.frames), self.retval, self.dsize, self.note)

    @staticmethod
    def thaw(fz) -> "St":
        h, fr, rv, ds, note = fz
        return St(Heap.thaw(h), thaw_frames(fr), rv, ds, note)

    def copy(self) -> "St":
        return St.thaw(self.freeze())

    def subst(self, mapping):
        m = self.heap.subst(mapping)
        for f in self.frames:
            for k in list(f):
                f[k] = m(f[k])
        self.retval = m(self.retval)


def materialise(st: St, gid: int, end: str) -> List[St]:
    """split gap ``gid`` at ``end``: (a) it is a single node, (b) one explicit node followed/preceded by a shorter gap"""
    out = []
    kind, gprev, gnext, key = st.heap.cells[gid]
    # (a) exactly one node
    a = st.copy()
    m = a.heap.new_id()
    del a.heap.cells[gid]
    a.heap.cells[m] = ["n", gprev, gnext, key + (0,)]
    a.subst({G(gid, "first"): N(m), G(gid, "last"): N(m)})
    out.append(a)
    # (b) >= 2 nodes
    b = st.copy()
    m = b.heap.new_id()
    g2 = b.heap.new_id()
    del b.heap.cells[gid]
    if end == "first":
        b.heap.cells[m] = ["n", gprev, G(g2, "first"), key + (0,)]
        b.heap.cells[g2] = ["g", N(m), gnext, key + (1,)]
        b.subst({G(gid, "first"): N(m), G(gid, "last"): G(g2, "last")})
    else:
        b.heap.cells[m] = ["n", G(g2, "last"), gnext, key + (1,)]
        b.heap.cells[g2] = ["g", gprev, N(m), key + (0,)]
        b.subst({G(gid, "last"): N(m), G(gid, "first"): G(g2, "first")})
    out.append(b)
    return out


class ShapeClient(Client):
    max_depth = 6

    def __init__(self, prog: Program, lf, entry: Func):
        self.P, self.lf, self.entry = prog, lf, entry
        self.crashes: List[Tuple[int, str]] = []
        self.unknown: List[str] = []

    def should_inline(self, func: Func, call, ctx: Ctx):
        return func.cls is self.lf.lst and not func.is_generator

    # ------------------------------------------------------------------ evaluation
    def ev(self, e: ast.expr, st: St, ctx: Ctx) -> List[Tuple[St, tuple]]:
        lf = self.lf
        if isinstance(e, ast.Constant):
            return [(st, None if e.value is None else DATA)]
        if isinstance(e, ast.Name):
            if ctx.scope.is_self(e):
                return [(st, SELF)]
            return [(st, st.frames[-1].get(e.id, TOP))]
        if isinstance(e, ast.Attribute):
            out = []
            for s1, v in self.ev(e.value, st, ctx):
                out.extend(self.load_field(s1, v, e.attr, e, ctx))
            return out
        if isinstance(e, ast.Call):
            tgt = ctx.scope.resolve_call(e)
            if tgt is lf.node:
                # DoublyLinkedListNode(data, prev, next)
                vals = {}
                names = [lf.payload] + self._node_field_order()
                states = [(st, {})]
                for i, a in enumerate(e.args):
                    nxt = []
                    for s1, acc in states:
                        for s2, v in self.ev(a, s1, ctx):
                            acc2 = dict(acc)
                            acc2[names[i]] = v
                            nxt.append((s2, acc2))
                    states = nxt
                for kw in e.keywords:
                    nxt = []
                    for s1, acc in states:
                        for s2, v in self.ev(kw.value, s1, ctx):
                            acc2 = dict(acc)
                            acc2[kw.arg] = v
                            nxt.append((s2, acc2))
                    states = nxt
                out = []
                for s1, acc in states:
                    s2 = s1.copy()
                    m = s2.heap.new_id()
                    s2.heap.cells[m] = ["n", acc.get(lf.prev_link), acc.get(lf.next_link), ("new", m)]
                    out.append((s2, N(m)))
                return out
            if isinstance(tgt, Func) and tgt.cls is lf.lst:
                return [(st, st.retval if st.retval is not None else TOP)]
            return [(st, TOP)]
        return [(st, TOP)]

    def _node_field_order(self) -> List[str]:
        out = []
        for s in self.lf.node.node.body:
            if isinstance(s, ast.AnnAssign) and isinstance(s.target, ast.Name) and s.target.id in self.lf.node_links:
                out.append(s.target.id)
        return out

    def load_field(self, st: St, v, attr: str, node, ctx: Ctx) -> List[Tuple[St, tuple]]:
        lf = self.lf
        if v == SELF:
            if attr == lf.head:
                return [(st, st.heap.head)]
            if attr == lf.tail:
                return [(st, st.heap.tail)]
            return [(st, DATA)]
        if v is None:
            self.crashes.append((getattr(node, "lineno", 0), f"`{src(node)}` dereferences None"))
            return []
        if v in (DATA, TOP):
            return [(st, TOP)]
        if attr not in lf.node_links:
            return [(st, DATA)]
        if v[0] == "N":
            c = st.heap.cells[v[1]]
            return [(st, c[1] if attr == lf.prev_link else c[2])]
        if v[0] == "G":
            _, gid, end = v
            c = st.heap.cells[gid]
            if end == "first" and attr == lf.prev_link:
                return [(st, c[1])]
            if end == "last" and attr == lf.next_link:
                return [(st, c[2])]
            out = []
            for s2 in materialise(st, gid, end):
                # after substitution the pointer is explicit; find what it became
                nv = _after(st, s2, v)
                out.extend(self.load_field(s2, nv, attr, node, ctx))
            return out
        return [(st, TOP)]

    def store_field(self, st: St, base, attr: str, val, node, ctx: Ctx) -> List[St]:
        lf = self.lf
        if base == SELF:
            s2 = st.copy()
            if attr == lf.head:
                s2.heap.head = val
            elif attr == lf.tail:
                s2.heap.tail = val
            return [s2]
        if base is None:
            self.crashes.append((getattr(node, "lineno", 0), f"`{src(node)}` assigns through None"))
            return []
        if base in (DATA, TOP) or attr not in lf.node_links:
            return [st]
        if base[0] == "N":
            s2 = st.copy()
            s2.heap.cells[base[1]][1 if attr == lf.prev_link else 2] = val
            return [s2]
        if base[0] == "G":
            _, gid, end = base
            if (end == "first" and attr == lf.prev_link) or (end == "last" and attr == lf.next_link):
                s2 = st.copy()
                s2.heap.cells[gid][1 if attr == lf.prev_link else 2] = val
                return [s2]
            out = []
            for s2 in materialise(st, gid, end):
                nb = _after(st, s2, base)
                nv = _after(st, s2, val)
                out.extend(self.store_field(s2, nb, attr, nv, node, ctx))
            return out
        return [st]

    # ------------------------------------------------------------------ client interface
    def refine(self, test, state, ctx: Ctx):
        st = St.thaw(state)
        if isinstance(test, ast.UnaryOp) and isinstance(test.op, ast.Not):
            t, f = self.refine(test.operand, state, ctx)
            return f, t
        if isinstance(test, ast.Compare) and len(test.ops) == 1:
            sz = self._size_compare(test, st, ctx)
            if sz is not None:
                return sz
        if isinstance(test, ast.Compare) and len(test.ops) == 1 and isinstance(test.ops[0], (ast.Is, ast.IsNot, ast.Eq, ast.NotEq)):
            T, F = [], []
            for s1, a in self.ev(test.left, st, ctx):
                for s2, b0 in self.ev(test.comparators[0], s1, ctx):
                    a2 = _after(s1, s2, a)
                    for s3, eq in self.same(s2, a2, b0):
                        if eq is None:
                            T.append(s3.freeze()); F.append(s3.freeze())
                        elif eq == isinstance(test.ops[0], (ast.Is, ast.Eq)):
                            T.append(s3.freeze())
                        else:
                            F.append(s3.freeze())
            return T, F
        return (state,), (state,)

    def _is_size(self, e, ctx: Ctx) -> bool:
        if isinstance(e, ast.Attribute) and e.attr == self.lf.size and ctx.scope.is_self(e.value):
            return True
        return isinstance(e, ast.Call) and isinstance(e.func, ast.Name) and e.func.id == "len" and len(e.args) == 1 \
            and ctx.scope.is_self(e.args[0])

    def _size_compare(self, test, st: St, ctx: Ctx):
        """`self.size <op> c` / `len(self) <op> c`: the counter equals the number of nodes the list started with plus the
        tracked delta (the class invariant, re-established by C08.R1); gaps are materialised until the answer is known"""
        l, r, op = test.left, test.comparators[0], test.ops[0]
        if self._is_size(l, ctx) and isinstance(const_value(r, None), int):
            c, flip = const_value(r), False
        elif self._is_size(r, ctx) and isinstance(const_value(l, None), int):
            c, flip = const_value(l), True
        else:
            return None
        import operator
        ops = {ast.Lt: operator.lt, ast.LtE: operator.le, ast.Gt: operator.gt, ast.GtE: operator.ge, ast.Eq: operator.eq,
               ast.NotEq: operator.ne}
        fn = ops.get(type(op))
        if fn is None:
            return None
        T, F = [], []
        work = [st]
        rounds = 0
        while work:
            rounds += 1
            cur = work.pop()
            orig = [(cid, cell) for cid, cell in cur.heap.cells.items() if not (cell[3] and cell[3][0] == "new")]
            gaps = [cid for cid, cell in orig if cell[0] == "g"]
            low = len(orig) + cur.dsize  # every gap holds at least one node
            if not gaps:
                val = fn(c, low) if flip else fn(low, c)
                (T if val else F).append(cur.freeze())
                continue
            # with gaps the size is >= low: decided if the comparison is monotone and already settled
            decided = None
            if not flip:
                if isinstance(op, (ast.Gt, ast.GtE)) and fn(low, c):
                    decided = True
                if isinstance(op, (ast.Lt, ast.LtE)) and not fn(low, c):
                    decided = False
                if isinstance(op, ast.Eq) and low > c:
                    decided = False
                if isinstance(op, ast.NotEq) and low > c:
                    decided = True
            else:
                if isinstance(op, (ast.Lt, ast.LtE)) and fn(c, low):
                    decided = True
                if isinstance(op, (ast.Gt, ast.GtE)) and not fn(c, low):
                    decided = False
                if isinstance(op, ast.Eq) and low > c:
                    decided = False
                if isinstance(op, ast.NotEq) and low > c:
                    decided = True
            if decided is not None or rounds > 64:
                if decided is None:
                    T.append(cur.freeze()); F.append(cur.freeze())
                else:
                    (T if decided else F).append(cur.freeze())
                continue
            work.extend(materialise(cur, gaps[0], "first"))
        return T, F

    def same(self, st: St, a, b) -> List[Tuple[St, Optional[bool]]]:
        if a in (TOP, DATA) or b in (TOP, DATA) or a == SELF or b == SELF:
            return [(st, None)]
        if a is None or b is None:
            return [(st, a is None and b is None)]
        if a[0] == "N" and b[0] == "N":
            return [(st, a[1] == b[1])]
        if a[0] == "G" and b[0] == "G":
            if a[1] != b[1]:
                return [(st, False)]
            if a[2] == b[2]:
                return [(st, True)]
            one, more = materialise(st, a[1], "first")
            return [(one, True), (more, False)]
        return [(st, False)]

    def event(self, kind, node, state, ctx: Ctx):
        lf = self.lf
        if kind == "enter":
            st = St.thaw(state)
            func, call = ctx.interp.stack[-1]
            if call is None or len(ctx.interp.stack) == 1:
                return (state,)
            params = func.params[1:] if func.self_name is not None else func.params
            caller_ctx = _CallerCtx(ctx, st)
            states = [(st, {})]
            # evaluate arguments in the caller's frame (the top frame at this moment)
            for p, a in zip(params, call.args):
                nxt = []
                for s1, acc in states:
                    for s2, v in self.ev(a, s1, caller_ctx):
                        acc2 = {k: _after(s1, s2, x) for k, x in acc.items()}
                        acc2[p] = v
                        nxt.append((s2, acc2))
                states = nxt
            for kw in call.keywords:
                nxt = []
                for s1, acc in states:
                    for s2, v in self.ev(kw.value, s1, caller_ctx):
                        acc2 = {k: _after(s1, s2, x) for k, x in acc.items()}
                        acc2[kw.arg] = v
                        nxt.append((s2, acc2))
                states = nxt
            out = []
            for s1, acc in states:
                # defaults of unbound parameters are non-pointer data
                for p in params:
                    acc.setdefault(p, DATA)
                s1.frames.append(acc)
                s1.retval = None
                out.append(s1.freeze())
            return out
        if kind == "leave":
            st = St.thaw(state)
            if len(st.frames) > 1:
                st.frames.pop()
            return (st.freeze(),)
        if kind == "return":
            st = St.thaw(state)
            if node.value is None:
                st.retval = None
                return (st.freeze(),)
            out = []
            for s1, v in self.ev(node.value, st, ctx):
                s1.retval = v
                out.append(s1.freeze())
            return out
        if kind == "stmt" and isinstance(node, ast.Assign) and any(isinstance(t, (ast.Tuple, ast.List)) for t in node.targets):
            if any(isinstance(x, ast.Attribute) and x.attr in lf.link_fields for t in node.targets for x in ast.walk(t)):
                # a, b = x, y : the whole right-hand side is evaluated before the first store.  The values are kept in hidden locals
                # of the frame (so that a later materialisation renames them like any other local) and the stores read them back.
                tgt = node.targets[0]
                if len(node.targets) != 1 or not isinstance(node.value, (ast.Tuple, ast.List)) or len(node.value.elts) != len(tgt.elts) \
                        or any(isinstance(e, ast.Starred) for e in list(tgt.elts) + list(node.value.elts)):
                    self.unknown.append(f"simultaneous assignment of link fields at line {node.lineno} (shape of the assignment not modelled)")
                else:
                    cur = [St.thaw(state)]
                    for i, e in enumerate(node.value.elts):
                        nxt = []
                        for s0 in cur:
                            for s1, v in self.ev(e, s0, ctx):
                                s1 = s1.copy()
                                s1.frames[-1][f"$rhs{node.lineno}_{i}"] = v
                                nxt.append(s1)
                        cur = nxt
                    return [s1.freeze() for s1 in cur]
        if kind == "store":
            st = St.thaw(state)
            rhs = assigned_value(node)
            par = getattr(node, "_parent", None)
            if isinstance(par, (ast.Tuple, ast.List)) and isinstance(getattr(par, "_parent", None), ast.Assign) and node in par.elts:
                hidden = f"$rhs{par._parent.lineno}_{par.elts.index(node)}"
                if hidden in st.frames[-1]:
                    rhs = ast.Name(id=hidden, ctx=ast.Load())
            if rhs is None:
                if isinstance(node, ast.Name):
                    st.frames[-1][node.id] = TOP
                    return (st.freeze(),)
                if isinstance(node, ast.Attribute) and node.attr in lf.link_fields:
                    self.unknown.append(f"store into a link field from an unrecognised right-hand side at line {node.lineno}")
                return (state,)
            out = []
            for s1, v in self.ev(rhs, st, ctx):
                if isinstance(node, ast.Name):
                    s1 = s1.copy()
                    s1.frames[-1][node.id] = v
                    out.append(s1.freeze())
                elif isinstance(node, ast.Attribute):
                    if ctx.scope.is_self(node.value) and node.attr == lf.size:
                        out.append(s1.freeze())
                        continue
                    for s2, base in self.ev(node.value, s1, ctx):
                        v2 = _after(s1, s2, v)
                        for s3 in self.store_field(s2, base, node.attr, v2, node, ctx):
                            out.append(s3.freeze())
                else:
                    out.append(s1.freeze())
            return out
        if kind == "aug" and isinstance(node.target, ast.Attribute) and node.target.attr == lf.size \
                and ctx.scope.is_self(node.target.value) and isinstance(node.value, ast.Constant):
            st = St.thaw(state)
            c = node.value.value
            st.dsize += c if isinstance(node.op, ast.Add) else -c
            return (st.freeze(),)
        return (state,)


class _CallerCtx:
    """evaluation context of the caller while binding arguments (the callee scope is already current)"""

    def __init__(self, ctx: Ctx, st: St):
        self.interp = ctx.interp
        # the caller's scope: the scope whose function is the previous stack entry
        self.scope = _CallerScope(ctx)


class _CallerScope:
    def __init__(self, ctx: Ctx):
        self._ctx = ctx
        stack = ctx.interp.stack
        self.func = stack[-2][0] if len(stack) >= 2 else ctx.scope.func

    def is_self(self, e) -> bool:
        return isinstance(e, ast.Name) and e.id == self.func.self_name

    def resolve_call(self, e):
        return None


def _after(before: St, after: St, v):
    """translate a pointer value computed in ``before`` into ``after`` (which may have materialised a gap)"""
    if v is None or v in (SELF, DATA, TOP):
        return v
    if v[0] == "G" and v[1] not in after.heap.cells:
        # the gap was split: first -> its new explicit node or the remaining gap's first ...; find by key prefix
        old_key = before.heap.cells[v[1]][3]
        cands = [(cid, c) for cid, c in after.heap.cells.items() if c[3][:len(old_key)] == old_key and len(c[3]) == len(old_key) + 1]
        if not cands:
            return v
        cands.sort(key=lambda x: x[1][3])
        cid, c = cands[0] if v[2] == "first" else cands[-1]
        return N(cid) if c[0] == "n" else G(cid, v[2])
    return v


# ---------------------------------------------------------------------------------------------- initial shapes and specs
def initial_states(lf, func: Func, node_params: List[str]) -> List[Tuple[St, str]]:
    """all layouts of the node parameters in a well-formed list (label describes the layout)"""
    out = []

    def build(items: List[str], binding: Dict[str, int]) -> St:
        """items: sequence of 'gap' | param-name (explicit node)"""
        h = Heap()
        ids = []
        for k, it in enumerate(items):
            i = h.new_id()
            ids.append(i)
            h.cells[i] = ["g" if it == "gap" else "n", None, None, (k,)]

        def ptr(k, side):
            if k < 0 or k >= len(items):
                return None
            return G(ids[k], side) if items[k] == "gap" else N(ids[k])
        for k, it in enumerate(items):
            h.cells[ids[k]][1] = ptr(k - 1, "last")
            h.cells[ids[k]][2] = ptr(k + 1, "first")
        h.head = ptr(0, "first")
        h.tail = ptr(len(items) - 1, "last")
        frame = {}
        for p in func.params[1:]:
            frame[p] = DATA
        for name, pos in binding.items():
            frame[name] = N(ids[pos])
        return St(h, [frame])

    if not node_params:
        out.append((build([], {}), "empty list"))
        out.append((build(["gap"], {}), "non-empty list"))
        return out
    if len(node_params) == 1:
        p = node_params[0]
        for pre, post in itertools.product((False, True), repeat=2):
            items = (["gap"] if pre else []) + [p] + (["gap"] if post else [])
            out.append((build(items, {p: 1 if pre else 0}), " ".join("..." if x == "gap" else x for x in items)))
        return out
    if len(node_params) == 2:
        a, b = node_params
        for first, second in ((a, b), (b, a)):
            for g0, g1, g2 in itertools.product((False, True), repeat=3):
                items = (["gap"] if g0 else []) + [first] + (["gap"] if g1 else []) + [second] + (["gap"] if g2 else [])
                binding = {first: items.index(first), second: items.index(second)}
                out.append((build(items, binding), " ".join("..." if x == "gap" else x for x in items)))
        for pre, post in itertools.product((False, True), repeat=2):
            items = (["gap"] if pre else []) + [a] + (["gap"] if post else [])
            out.append((build(items, {a: items.index(a), b: items.index(a)}),
                        " ".join("..." if x == "gap" else f"{a}={b}" for x in items)))
        return out
    raise AnalysisError(f"{func.short}: {len(node_params)} node parameters not supported by the shape domain")


def traverse(h: Heap, lf) -> Tuple[Optional[List[int]], str]:
    """forward traversal from head as a list of cell ids (gaps as single items); checks every link both ways"""
    seq: List[int] = []
    seen = set()
    cur = h.head
    prev_ptr = None
    if cur is None:
        if h.tail is not None:
            return None, "head is None but tail is not"
        return [], ""
    while cur is not None:
        if cur in (TOP, DATA, SELF):
            return None, "a link holds a non-node value"
        cid = cur[1]
        if cid not in h.cells:
            return None, "a link points to a node that no longer exists"
        if cur[0] == "G" and cur[2] != "first":
            return None, "forward traversal enters a run of nodes at its last node (links crossed)"
        if cid in seen:
            return None, "forward traversal runs into a cycle"
        seen.add(cid)
        c = h.cells[cid]
        # backward link of the node we arrive at must be the node we came from
        if c[1] != prev_ptr:
            return None, f"prev link of {_show(cur)} is {_show(c[1])}, expected {_show(prev_ptr)}"
        seq.append(cid)
        prev_ptr = G(cid, "last") if c[0] == "g" else N(cid)
        cur = c[2]
    if h.tail != prev_ptr:
        return None, f"tail is {_show(h.tail)} but the forward traversal ends at {_show(prev_ptr)}"
    return seq, ""


def _show(p) -> str:
    if p is None:
        return "None"
    if p[0] == "N":
        return f"node#{p[1]}"
    if p[0] == "G":
        return f"{p[2]} node of run#{p[1]}"
    return str(p)


def expected_order(name: str, keys_initial: List[tuple], frame: Dict[str, tuple], h: Heap, node_params: List[str],
                   flags: Dict[str, object]) -> Optional[List[tuple]]:
    """reference sequence (as order keys) of the operation applied to the initial sequence ``keys_initial``"""
    def key_of(p):
        v = frame.get(p)
        if v and v[0] == "N" and v[1] in h.cells:
            return h.cells[v[1]][3]
        return None
    seq = list(keys_initial)
    if name == "remove":
        k = key_of(node_params[0])
        return [x for x in seq if x != k]
    if name == "move_to_front":
        k = key_of(node_params[0])
        return [k] + [x for x in seq if x != k]
    if name == "move_to_back":
        k = key_of(node_params[0])
        return [x for x in seq if x != k] + [k]
    if name == "move_after":
        k, a = key_of(node_params[0]), key_of(node_params[1])
        if k == a:
            return seq
        rest = [x for x in seq if x != k]
        i = rest.index(a)
        return rest[:i + 1] + [k] + rest[i + 1:]
    return None


SPECS = {"remove", "move_to_front", "move_to_back", "move_after", "rotate", "append", "prepend", "pop_back", "pop_front"}


def check_method(prog, rep: Report, lf, f: Func, rule: str = "C08.R4", role: str = "shape"):
    name = f.name
    node_params = []
    for a in f.node.args.args[1:]:
        if a.annotation is not None and lf.node.name in src(a.annotation):
            node_params.append(a.arg)
    inits = initial_states(lf, f, node_params)
    # boolean/flag parameters: both values
    flag_params = [a.arg for a in f.node.args.args[1:] if a.arg not in node_params and a.annotation is not None
                   and src(a.annotation) == "bool"]
    problems: List[str] = []
    n_states = 0
    n_final = 0
    for st0, label in inits:
        for flag_vals in itertools.product((True, False), repeat=len(flag_params)):
            client = ShapeClient(prog, lf, f)
            if flag_params:
                client = _with_flags(client, dict(zip(flag_params, flag_vals)))
            it = Interp(prog, client)
            ex = it.run(f, {st0.freeze()}, lf.lst)
            n_states += len(it.states_seen)
            if it.unrecognised or client.unknown:
                rep.unrec(rule, f, role, "; ".join(it.unrecognised + client.unknown))
                return
            fl = dict(zip(flag_params, flag_vals))
            lab = label + ("" if not fl else " " + ",".join(f"{k}={v}" for k, v in fl.items()))
            for ln, msg in client.crashes:
                problems.append(f"[{lab}] line {ln}: {msg}")
            raised = {n for (_, n) in ex.exc}
            finals = ex.normal | ex.ret
            if not finals and not raised and not client.crashes:
                problems.append(f"[{lab}] no normal exit")
            for fz in finals:
                n_final += 1
                st = St.thaw(fz)
                seq, why = traverse(st.heap, lf)
                if seq is None:
                    problems.append(f"[{lab}] {why}")
                    continue
                keys = [st.heap.cells[c][3] for c in seq]
                # reference: the refined initial order = all surviving original keys sorted, plus the spec's permutation
                orig = sorted(k for k in (c[3] for c in st.heap.cells.values()) if k and k[0] != "new")
                news = [c[3] for c in st.heap.cells.values() if c[3] and c[3][0] == "new"]
                want = _reference(name, orig, news, st, node_params, fl, keys)
                if want is None:
                    continue
                if keys != want:
                    problems.append(f"[{lab}] forward traversal is {_fmt(keys)}, reference sequence is {_fmt(want)}")
                # size counter follows the number of nodes (gaps keep their unknown but unchanged length)
                expl_now = sum(1 for c in seq if st.heap.cells[c][0] == "n")
                gaps_now = sum(1 for c in seq if st.heap.cells[c][0] == "g")
                init_h = st0.heap
                # nodes materialised out of a gap count for that gap; compare by origin: every original key prefix
                delta_nodes = _node_delta(st0, st, seq)
                if delta_nodes is not None and delta_nodes != st.dsize:
                    problems.append(f"[{lab}] the list holds {delta_nodes:+d} nodes but the size counter changed by {st.dsize:+d}")
    rep.count("shape_initial_layouts", len(inits) * (2 ** len(flag_params)))
    rep.count("shape_abstract_states", n_states)
    rep.count("shape_final_states", n_final)
    uniq = sorted(set(problems))
    rep.check(rule, f, role, not uniq,
              f"{len(inits) * (2 ** len(flag_params))} initial layouts (all list lengths), {n_final} final heaps: head/tail, every "
              f"prev/next pair and the forward order agree with the reference sequence",
              "; ".join(uniq[:4]) + (f" (+{len(uniq) - 4} more)" if len(uniq) > 4 else ""),
              witness=uniq[:10],
              scenario=f"DoublyLinkedList.{name} on a list laid out as in the first message (\"...\" = one or more other nodes): a "
                       f"forward/backward walk afterwards differs from the reference sequence or never ends")


def _with_flags(client: ShapeClient, flags: Dict[str, bool]) -> ShapeClient:
    base_refine = client.refine

    def refine(test, state, ctx):
        if isinstance(test, ast.Name) and test.id in flags and len(ctx.interp.stack) == 1:
            return ((state,), ()) if flags[test.id] else ((), (state,))
        return base_refine(test, state, ctx)
    client.refine = refine  # type: ignore[assignment]
    return client


def _fmt(keys) -> str:
    return "[" + ", ".join("new" if k and k[0] == "new" else ".".join(str(x) for x in k) for k in keys) + "]"


def _node_delta(st0: St, st: St, seq) -> Optional[int]:
    """(# nodes now in the list) - (# nodes initially), counting a gap and everything materialised from it as its origin"""
    # initial top-level items
    init_items = {c[3]: c[0] for c in st0.heap.cells.values()}
    # an initial explicit node is present iff its key is in seq; an initial gap of unknown length L contributes L both
    # before and after iff all its descendants are present
    now_keys = [st.heap.cells[c][3] for c in seq]
    delta = 0
    for k, kind in init_items.items():
        if kind == "n":
            if k not in now_keys:
                delta -= 1
        else:
            desc_all = [c[3] for c in st.heap.cells.values() if c[3][:len(k)] == k]
            desc_in = [x for x in now_keys if x[:len(k)] == k]
            missing = [x for x in desc_all if x not in desc_in]
            for m in missing:
                # a materialised explicit node of this gap that left the list
                delta -= 1
    delta += sum(1 for x in now_keys if x and x[0] == "new")
    return delta


def _reference(name, orig, news, st: St, node_params, flags, keys) -> Optional[List[tuple]]:
    frame = st.frames[0]

    def key_of(p):
        v = frame.get(p)
        if v is not None and v[0] == "N" and v[1] in st.heap.cells:
            return st.heap.cells[v[1]][3]
        return None
    if name in ("remove", "move_to_front", "move_to_back", "move_after"):
        return expected_order(name, orig, frame, st.heap, node_params, flags)
    if name == "rotate":
        if len(orig) <= 1:
            return orig
        # the rotated node must be explicit to be moved; when the end of the list is still a gap the code did not touch it
        f2b = flags.get(next(iter(flags), ""), True) if flags else True
        return orig[1:] + orig[:1] if f2b else orig[-1:] + orig[:-1]
    if name == "append":
        return orig + sorted(news)
    if name == "prepend":
        return sorted(news) + orig
    if name == "pop_back":
        # the removed node stays in cells but is not in the list: reference = original order without the last
        return orig[:-1]
    if name == "pop_front":
        return orig[1:]
    return None


def run(prog: Program, rep: Report, lf):
    rep.rule("C08.R4", "shape analysis of the pointer surgery (abstract heaps with materialised gaps, every layout of the "
             "parameter nodes, all list lengths): after each mutator head/tail and every prev/next pair are mutually "
             "consistent, the forward traversal is the reference sequence of the operation, no None is dereferenced, and the "
             "size counter follows the number of linked nodes", floor=9)
    for name in ("append", "prepend", "remove", "pop_back", "pop_front", "move_to_front", "move_to_back", "rotate", "move_after"):
        f = lf.lst.methods.get(name)
        if f is None:
            rep.unrec("C08.R4", (lf.lst.relpath, f"{lf.lst.short}.{name}", lf.lst.node.lineno), "shape", "mutator not found")
            continue
        rep.fn(f)
        check_method(prog, rep, lf, f)
    # extend / pre_extend: one primitive call per input element (their correctness is the primitive's)
    for name, prim in (("extend", "append"), ("pre_extend", "prepend")):
        f = lf.lst.methods.get(name)
        if f is None:
            continue
        rep.fn(f)
        loops = [n for n in f.node.body if isinstance(n, ast.For)]
        ok = len(loops) == 1 and src(loops[0].iter) == f.params[1] and len(loops[0].body) == 1 \
            and isinstance(loops[0].body[0], ast.Expr) and isinstance(loops[0].body[0].value, ast.Call) \
            and src(loops[0].body[0].value.func) == f"{f.self_name}.{prim}" \
            and [src(a) for a in loops[0].body[0].value.args] == [src(loops[0].target)]
        if not ok:
            # the same on path summaries (private helpers followed, bound methods handed on): every round of the one loop over
            # the input makes exactly one self.<prim>(<element of this round>) call, and nothing else touches the list
            from .. import paths as _paths
            ps_, un_ = _paths.summaries(prog, f, lf.lst)
            data_t = ("p", f.params[1])
            verdict = None if un_ else True
            rounds_seen = 0
            for p_ in ps_ if not un_ else []:
                evs = list(p_.events)
                loops_ = [e for e in evs if e[0] == "loop"]
                if len(loops_) != 1 or _paths.strip_versions(loops_[0][2]) != data_t:
                    verdict = None if verdict is not False else verdict
                    continue
                for i_, e in enumerate(evs):
                    if e[0] == "iter":
                        rounds_seen += 1
                        calls_ = [x for x in evs[i_ + 1:] if x[0] == "call" and x[2] == ("self",)]
                        if not (len(calls_) == 1 and calls_[0][1] == prim and calls_[0][3] == (e[2],)):
                            verdict = False
                other = [x for x in evs if x[0] in ("setfield", "setattr", "setitem", "delitem")]
                if other:
                    verdict = False if verdict is not None else verdict
            if verdict is True and rounds_seen:
                ok = True
            elif verdict is None or not rounds_seen:
                rep.unrec("C08.R4", f, "delegates", f"{name} is not the plain loop `for d in data: self.{prim}(d)` and its path summary is not understood")
                continue
        rep.check("C08.R4", f, "delegates", ok, f"one {prim}(d) per input element, in input order",
                  f"{name} is not `for d in data: self.{prim}(d)`",
                  scenario=f"{name}([4,5,6]) does not add exactly 4, 5, 6 in the documented order")
