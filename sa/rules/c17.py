"""C17 — sorted_combinations complete and key-ordered; min-combination search exact (partial: structural clauses only).

Decided: the *unique-parent* shape of the lazy expansion (every combination is produced exactly once, from its prefix), the
layout agreement of the heap entries, that every popped combination is yielded, and the guard formulas of the interval scan.
Not decided: that the yielded keys are non-decreasing (heapq + the caller's monotone key: trusted), and the values.
"""
from __future__ import annotations

import ast
from typing import Dict, List, Optional

from ..flow import Flow
from ..model import AnalysisError, Func, Program, walk_own
from ..orderings import NotAFormula, eval_order, weak_orderings
from ..report import Report
from ..resolve import const_value, dotted
from ..util import calls_in, ext_name, returns_of, src
from .c15 import _linear, _norm_lin

GENERIC_MOD = "windpyutils.generic"


def run(prog: Program, rep: Report):
    f = prog.func("sorted_combinations", GENERIC_MOD)
    g = prog.func("min_combinations_in_interval_iter_sorted", GENERIC_MOD)
    r1_r4_expansion(prog, rep, f)
    r5_scan(prog, rep, g, f)


def r1_r4_expansion(prog, rep: Report, f: Func):
    rep.rule("C17.R1", "seeds: the queue starts with exactly one entry per element: the singleton (e,), its key and its index", floor=1)
    rep.rule("C17.R2", "unique parent: a popped combination with last index k is extended exactly by the elements at the indices "
             "k+1 .. n-1 (slice start = k + 1, child index = slice start + position), the child is parent + (e,) and is pushed with "
             "key(child): every combination is generated once, from its prefix", floor=3)
    rep.rule("C17.R3", "every popped combination is yielded exactly once, unconditionally, with its key when requested", floor=1)
    rep.rule("C17.R4", "heap discipline: the queue is touched only by heapify/heappop/heappush; seed and pushed entries share one "
             "layout and the pop reads combination and index from the positions they were written to", floor=2)
    rep.fn(f)
    elements, key = f.params[0], f.params[1]
    yk = f.params[2] if len(f.params) > 2 else None
    flow = Flow(f.node)
    # ---- the queue and its seed
    q = None
    seed = None
    for n in f.node.body:
        if isinstance(n, ast.Assign) and isinstance(n.value, ast.ListComp) and isinstance(n.targets[0], ast.Name):
            q, seed = n.targets[0].id, n.value
    if q is None:
        rep.unrec("C17.R1", f, "seeds", "queue seed comprehension not found")
        return
    g0 = seed.generators[0]
    seed_ok = False
    layout = None
    if len(seed.generators) == 1 and not g0.ifs and isinstance(g0.iter, ast.Call) and src(g0.iter.func) == "enumerate" \
            and [src(a) for a in g0.iter.args] == [elements] and isinstance(g0.target, ast.Tuple) and isinstance(seed.elt, ast.Tuple):
        i, e = (src(x) for x in g0.target.elts)
        elts = [src(x) for x in seed.elt.elts]
        comb_pos = [k for k, x in enumerate(elts) if x == f"({e},)"]
        idx_pos = [k for k, x in enumerate(elts) if x == i]
        key_pos = [k for k, x in enumerate(elts) if x == f"{key}(({e},))"]
        if len(comb_pos) == 1 and len(idx_pos) == 1 and len(key_pos) == 1 and key_pos[0] == 0:
            seed_ok = True
            layout = {"key": key_pos[0], "comb": comb_pos[0], "index": idx_pos[0], "arity": len(elts)}
    rep.check("C17.R1", f, "seeds", seed_ok, f"[(key((e,)), …, (e,), i) for i, e in enumerate({elements})]",
              f"the seed `{src(seed)}` is not one (key, …, singleton, index) entry per element",
              scenario="an element without a singleton seed never appears in any combination; a filtered seed loses combinations")
    if not seed_ok:
        return
    # ---- the main loop: pop, yield, extend
    loops = [n for n in f.node.body if isinstance(n, ast.While)]
    if len(loops) != 1:
        rep.unrec("C17.R2", f, "expansion", "main loop not found")
        return
    loop = loops[0]
    pop = None
    for n in loop.body:
        if isinstance(n, ast.Assign) and isinstance(n.value, ast.Call) and ext_name(prog, f, n.value) == "heapq.heappop" \
                and isinstance(n.targets[0], ast.Tuple):
            pop = n
    if pop is None:
        rep.unrec("C17.R2", f, "expansion", "heappop into a tuple not found")
        return
    names = [src(x) for x in pop.targets[0].elts]
    lay_ok = len(names) == layout["arity"]
    comb_v = names[layout["comb"]] if lay_ok else None
    idx_v = names[layout["index"]] if lay_ok else None
    key_v = names[layout["key"]] if lay_ok else None
    rep.check("C17.R4", f, "layout:pop", lay_ok, f"pop unpacks (key={key_v}, …, comb={comb_v}, index={idx_v}) as the entries were written",
              f"heappop is unpacked into {len(names)} names, entries have {layout['arity']} components",
              scenario="the combination and its last index are read from the wrong components")
    if not lay_ok:
        return
    # R3: yield
    ys = [n for n in loop.body if isinstance(n, ast.Expr) and isinstance(n.value, ast.Yield)]
    y_ok = False
    if len(ys) == 1 and loop.body.index(ys[0]) > loop.body.index(pop):
        v = ys[0].value.value
        if isinstance(v, ast.IfExp) and yk and src(v.test) == yk:
            y_ok = src(v.body) == f"({comb_v}, {key_v})" and src(v.orelse) == comb_v
        elif src(v) == comb_v and yk is None:
            y_ok = True
    all_y = [n for n in ast.walk(loop) if isinstance(n, ast.Yield)]
    rep.check("C17.R3", f, "yield", y_ok and len(all_y) == 1,
              f"yield ({comb_v}, {key_v}) if {yk} else {comb_v}, once per pop",
              "the popped combination is not yielded exactly once and unconditionally (with its key when requested)",
              scenario="some combinations are generated but never reported, or reported twice")
    # R2: expansion
    fors = [n for n in loop.body if isinstance(n, ast.For)]
    if len(fors) != 1:
        rep.unrec("C17.R2", f, "expansion", "expansion loop not found")
        return
    ex = fors[0]
    it = ex.iter
    inner = it.args[0] if isinstance(it, ast.Call) and src(it.func) == "enumerate" and it.args else None
    if not (isinstance(inner, ast.Subscript) and src(inner.value) == elements and isinstance(inner.slice, ast.Slice)
            and inner.slice.upper is None and inner.slice.step is None and isinstance(ex.target, ast.Tuple)):
        rep.unrec("C17.R2", f, "expansion", f"the expansion does not enumerate a suffix slice of {elements}: `{src(it)}`")
        return
    pos_v, e_v = (src(x) for x in ex.target.elts)

    def sym(e):
        if isinstance(e, ast.Name):
            if e.id == idx_v:
                return "k"
            if e.id == pos_v:
                return "p"
            d = flow.single_def(e)
            if d is not None and d.kind == "assign" and isinstance(d.value, ast.expr):
                return None
        return None

    def lin(e):
        import copy

        class Sub(ast.NodeTransformer):
            def visit_Name(self_, n):
                if isinstance(n.ctx, ast.Load) and n.id not in (idx_v, pos_v):
                    ex_ = flow.expand(n)
                    if ex_ is not n:
                        return Sub().visit(copy.deepcopy(ex_)) if not isinstance(ex_, ast.Name) else ex_
                return n
        # names are looked up in the original tree (reaching definitions are keyed by node), so substitute top-down
        def subst(x):
            if isinstance(x, ast.Name) and x.id not in (idx_v, pos_v):
                ex_ = flow.expand(x)
                return subst(ex_) if ex_ is not x else x
            if isinstance(x, ast.BinOp):
                return ast.BinOp(left=subst(x.left), op=x.op, right=subst(x.right))
            if isinstance(x, ast.UnaryOp):
                return ast.UnaryOp(op=x.op, operand=subst(x.operand))
            return x
        return _linear(subst(e), sym)
    start = lin(inner.slice.lower) if inner.slice.lower is not None else {"1": 0}
    rep.check("C17.R2", f, "slice-start", start is not None and _norm_lin(start) == {"k": 1, "1": 1},
              f"the suffix starts at (last index + 1): `{src(inner.slice.lower)}`",
              f"the suffix `{src(inner)}` does not start at (last index of the popped combination) + 1: normal form {start}",
              scenario="starting at the last index repeats an element inside a combination; starting later skips combinations "
                       "(e.g. (a, b) is never produced)", line=inner.lineno)
    pushes = [c for c in ast.walk(ex) if isinstance(c, ast.Call) and ext_name(prog, f, c) == "heapq.heappush"]
    if len(pushes) != 1 or len(pushes[0].args) != 2 or not isinstance(pushes[0].args[1], ast.Tuple):
        rep.unrec("C17.R2", f, "push", "expected one heappush of a tuple per extension")
        return
    ent = pushes[0].args[1].elts
    if len(ent) != layout["arity"]:
        rep.viol("C17.R4", f, "layout:push", f"pushed entries have {len(ent)} components, seeds have {layout['arity']}",
                 scenario="pop unpacks entries of different shapes")
        return
    rep.ok("C17.R4", f, "layout:push", "pushed entries have the layout of the seeds")
    child = flow.expand(ent[layout["comb"]])
    child_ok = isinstance(child, ast.BinOp) and isinstance(child.op, ast.Add) and src(child.left) == comb_v and src(child.right) == f"({e_v},)"
    rep.check("C17.R2", f, "child", child_ok, f"child = {comb_v} + ({e_v},)", f"the pushed combination `{src(child)}` is not parent + (e,)",
              scenario="combinations are not index-ordered tuples extending their prefix")
    cidx = lin(ent[layout["index"]])
    rep.check("C17.R2", f, "child-index", cidx is not None and start is not None and _norm_lin(cidx) == _norm_lin({**start, "p": 1}),
              f"child index = slice start + position: `{src(ent[layout['index']])}`",
              f"the index recorded for the child `{src(ent[layout['index']])}` is not (slice start + position in the slice): normal form {cidx}",
              scenario="children are later extended from the wrong position: combinations are duplicated or skipped")
    kexpr = ent[layout["key"]]
    key_ok = isinstance(kexpr, ast.Call) and src(kexpr.func) == key and len(kexpr.args) == 1 and \
        (src(flow.expand(kexpr.args[0])) == src(child) or src(kexpr.args[0]) == src(ent[layout["comb"]]))
    rep.check("C17.R2", f, "child-key", key_ok, f"pushed with {key}(child)", f"the child is pushed with `{src(kexpr)}`, not {key}(child)",
              scenario="the heap orders combinations by another combination's key: output is not key-ordered")
    uncond = not any(isinstance(x, (ast.If, ast.Break, ast.Continue)) for x in ast.walk(ex))
    rep.check("C17.R2", f, "every-extension", uncond, "every element of the suffix extends the parent",
              "the expansion loop skips extensions conditionally", scenario="combinations containing the skipped element are missing")
    # R4: only heap operations touch the queue
    other = []
    for n in walk_own(f.node):
        if isinstance(n, ast.Call) and any(isinstance(a, ast.Name) and a.id == q for a in n.args) and \
                not (ext_name(prog, f, n) or "").startswith("heapq."):
            other.append(src(n))
        if isinstance(n, ast.Call) and isinstance(n.func, ast.Attribute) and isinstance(n.func.value, ast.Name) and n.func.value.id == q:
            other.append(src(n))
        if isinstance(n, (ast.Subscript,)) and isinstance(n.value, ast.Name) and n.value.id == q:
            other.append(src(n))
    rep.check("C17.R4", f, "heap-only", not other, "only heapify/heappop/heappush touch the queue",
              f"the queue is also accessed by {other[:2]}", scenario="entries are removed or reordered outside the heap discipline")


def r5_scan(prog, rep: Report, g: Func, f: Func):
    rep.rule("C17.R5", "interval scan guards by ordering abstraction over a non-decreasing stream: the scan stops only when no current or "
             "later score can belong to the result (score >= i_end, or a minimum was found and score > minimum), and while it goes "
             "on it accepts exactly the scores in [i_start, i_end) equal to the minimum; it "
             "feeds sorted_combinations with range(len(elements)), the sum of the scores as key, and yield_key=True", floor=3)
    rep.fn(g)
    elements, scores, a, b = g.params[:4]
    loops = [n for n in g.node.body if isinstance(n, ast.For)]
    if len(loops) != 1 or not isinstance(loops[0].target, ast.Tuple):
        rep.unrec("C17.R5", g, "scan", "scan loop not found")
        return
    lp = loops[0]
    comb_v, s_v = (src(x) for x in lp.target.elts)
    call = lp.iter
    ok_call = isinstance(call, ast.Call) and src(call.func) == f.name and len(call.args) >= 2 \
        and src(call.args[0]) == f"range(len({elements}))" and isinstance(call.args[1], ast.Lambda) \
        and isinstance(call.args[1].body, ast.Call) and isinstance(call.args[1].body.func, ast.Name) and call.args[1].body.func.id == "sum" \
        and f"{scores}[" in src(call.args[1].body) \
        and any(k.arg == "yield_key" and const_value(k.value) is True for k in call.keywords)
    rep.check("C17.R5", g, "feeds", ok_call, "sorted_combinations(range(len(elements)), builtin sum of scores, yield_key=True)",
              f"the scan is not fed by sorted_combinations over all element indices keyed by the exact (builtin sum) score sum: `{src(call)[:160]}`",
              scenario="the stream is not ordered by score sum, so the first score in the interval is not the minimum")
    res = None
    for n in g.node.body:
        if isinstance(n, ast.Assign) and isinstance(n.value, ast.List) and not n.value.elts and isinstance(n.targets[0], ast.Name):
            res = n.targets[0].id
    brk = [n for n in lp.body if isinstance(n, ast.If) and any(isinstance(x, ast.Break) for x in n.body)]
    acc = [n for n in lp.body if isinstance(n, ast.If) and any(isinstance(x, ast.Call) and isinstance(x.func, ast.Attribute)
                                                              and x.func.attr == "append" for x in ast.walk(n))]
    if len(brk) != 1 or len(acc) != 1 or res is None:
        rep.unrec("C17.R5", g, "guards", "break / accept tests not found")
        return
    order_ok = lp.body.index(brk[0]) < lp.body.index(acc[0])
    # the scan is the only producer of the result: every return hands back the accumulator, after the loop
    others = [r for r in returns_of(g.node) if not (r.value is not None and src(r.value) == res and r in g.node.body
                                                    and g.node.body.index(r) > g.node.body.index(lp))]
    if others:
        rep.unrec("C17.R5", g, "single-producer", f"`{src(others[0])}` produces a result without the scan of the sorted stream: "
                  "whether it equals what the scan would return is a value-level question this check cannot decide",
                  line=others[0].lineno)
    else:
        rep.ok("C17.R5", g, "single-producer", f"the only return is `return {res}` after the scan")

    def mk_term(found: bool):
        def term(x):
            t = src(x)
            if t == f"{res}[-1][1]" or t == f"{res}[0][1]":
                return env["best"]
            if t == f"len({res})":
                return 1 if found else 0
            if const_value(x, None) == 0:
                return 0
            return None
        return term
    bad_b, bad_a = [], []
    n_eval = 0
    # Semantics of one step of the scan over a non-decreasing stream (found => best <= score, best in [i_start, i_end)):
    #   stopping is safe   iff no current or later score can belong to the result:  i_end <= score, or found and best < score
    #   when not stopping, the score must be appended  iff  i_start <= score < i_end and (not found or score == best)
    # (stopping is never *required*: the stream is finite). Any guard pair satisfying both is behaviourally exact.
    try:
        for found in (False, True):
            for env in weak_orderings([s_v, a, b, "best"]):
                if found and not (env[a] <= env["best"] < env[b] and env["best"] <= env[s_v]):
                    continue
                if not found and env["best"] != 0:
                    continue
                n_eval += 1
                term = mk_term(found)
                stop = _eval_guard(brk[0].test, env, term)
                safe = env[b] <= env[s_v] or (found and env["best"] < env[s_v])
                if stop and not safe:
                    bad_b.append({"found": found, **env})
                if not stop:
                    got_a = _eval_guard(acc[0].test, env, term)
                    want_a = env[a] <= env[s_v] < env[b] and (not found or env[s_v] == env["best"])
                    if got_a != want_a:
                        bad_a.append({"found": found, **env})
    except NotAFormula as e:
        rep.unrec("C17.R5", g, "guards", f"guards are not comparison formulas over (score, i_start, i_end, best): {e}")
        return
    rep.count("orderings_evaluated", n_eval)
    rep.check("C17.R5", g, "stop", not bad_b and order_ok, f"`{src(brk[0].test)}` stops only past the interval / past the minimal score",
              f"the stop test `{src(brk[0].test)}` ends the scan while the current score still belongs to the result, for {bad_b[:1]}",
              witness=bad_b[:4], scenario="ties with the minimal score are cut off, or combinations with a larger sum are returned too",
              line=brk[0].lineno)
    rep.check("C17.R5", g, "accept", not bad_a, f"when the scan goes on, `{src(acc[0].test)}` accepts exactly the scores in [i_start, i_end) equal to the minimum",
              f"with the scan not stopped, the accept test `{src(acc[0].test)}` differs from `i_start <= score < i_end and (not found or score == best)` for {bad_a[:1]}", witness=bad_a[:4],
              scenario="a combination whose sum equals i_end is returned, or one equal to i_start is not", line=acc[0].lineno)
    app = [x for x in ast.walk(acc[0]) if isinstance(x, ast.Call) and isinstance(x.func, ast.Attribute) and x.func.attr == "append"]
    ok_app = len(app) == 1 and isinstance(app[0].args[0], ast.Tuple) and len(app[0].args[0].elts) == 2 \
        and src(app[0].args[0].elts[1]) == s_v and isinstance(app[0].args[0].elts[0], ast.ListComp) \
        and src(app[0].args[0].elts[0].generators[0].iter) == comb_v and f"{elements}[" in src(app[0].args[0].elts[0].elt)
    rep.check("C17.R5", g, "result", ok_app, "appends ([elements[i] for i in combination], score)",
              "an accepted combination is not reported as (its elements, its score)",
              scenario="indices are returned instead of elements, or the score of another combination")


def _eval_guard(e, env, term) -> bool:
    if isinstance(e, ast.BoolOp):
        vals = [_eval_guard(v, env, term) for v in e.values]
        return all(vals) if isinstance(e.op, ast.And) else any(vals)
    if isinstance(e, ast.UnaryOp) and isinstance(e.op, ast.Not):
        return not _eval_guard(e.operand, env, term)
    if isinstance(e, ast.Name) and term(e) is None:
        raise NotAFormula(f"name {e.id}")
    return eval_order(e, env, term)
