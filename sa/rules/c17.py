"""C17 — sorted_combinations complete and key-ordered; min-combination search exact (partial: structural clauses only).

Decided: the *unique-parent* shape of the lazy expansion (every combination is produced exactly once, from its prefix), the
layout agreement of the heap entries, that every popped combination is yielded, and the guard formulas of the interval scan.
Not decided: that the yielded keys are non-decreasing (heapq + the caller's monotone key: trusted), and the values.
"""
from __future__ import annotations

import ast
from typing import Dict, List, Optional

from ..absint import Client, Interp
from ..flow import Flow
from ..model import AnalysisError, Func, Program, walk_own
from ..orderings import NotAFormula, eval_order, weak_orderings
from ..report import Report
from ..resolve import const_value, dotted
from ..util import calls_in, ext_name, returns_of, src
from .c15 import _linear, _norm_lin

GENERIC_MOD = "windpyutils.generic"


def run(prog: Program, rep: Report):
    f = prog.func_view("sorted_combinations", GENERIC_MOD)        # private helper functions of the module inlined (sa/inline.py)
    g = prog.func_view("min_combinations_in_interval_iter_sorted", GENERIC_MOD)
    rep.attempt(lambda: r1_r4_expansion(prog, rep, f))
    rep.attempt(lambda: r5_scan(prog, rep, g, f))
    from .purity import rule_history_free
    rep.attempt(lambda: rule_history_free(prog, rep, "C17.R6", [prog.func("sorted_combinations", GENERIC_MOD),
                                                                 prog.func("min_combinations_in_interval_iter_sorted", GENERIC_MOD)]))


def _heap_fn(prog, f: Func, call: ast.Call) -> str:
    """external name of the called function, also through a local alias (`heappush = heapq.heappush`, possibly by tuple unpacking)"""
    if isinstance(call.func, ast.Name):
        from ..util import iter_stores
        for t, v, _st in iter_stores(f.node):
            if isinstance(t, ast.Name) and t.id == call.func.id and v is not None:
                return prog.external_name(f.mod, v) or ""
    return ext_name(prog, f, call) or ""


def r1_r4_expansion(prog, rep: Report, f: Func):
    rep.rule("C17.R1", "seeds: the queue starts with exactly one entry per element: the singleton (e,), its key and its index", floor=1)
    rep.rule("C17.R2", "unique parent: a popped combination with last index k is extended exactly by the elements at the indices "
             "k+1 .. n-1 (slice start = k + 1, child index = slice start + position), the child is parent + (e,) and is pushed with "
             "key(child): every combination is generated once, from its prefix", floor=3)
    rep.rule("C17.R3", "every popped combination is yielded exactly once, unconditionally, with its key when requested", floor=1)
    rep.rule("C17.R4", "heap discipline: the queue is touched only by heapify/heappop/heappush; seed and pushed entries share one "
             "layout and the pop reads combination and index from the positions they were written to", floor=2)
    rep.fn(f)
    elements, key = f.params[0], f.params[1]
    yk = f.params[2] if len(f.params) > 2 else None
    flow = Flow(f.node)
    # ---- the indices of a combination are positions in the caller's sequence: the parameter is not re-ordered
    from ..util import iter_stores
    rebinds = [(t, v, st) for t, v, st in iter_stores(f.node) if isinstance(t, ast.Name) and t.id == elements and v is not None]
    for t, v, st in rebinds:
        fn = src(v.func) if isinstance(v, ast.Call) else None
        if fn in ("list", "tuple") and len(v.args) == 1 and src(v.args[0]) == elements and not v.keywords:
            continue                                      # order-preserving materialisation of an iterable
        reorders = fn in ("sorted", "reversed", "set", "frozenset", "random.sample", "sample") or \
            (isinstance(v, ast.Subscript) and isinstance(v.slice, ast.Slice) and v.slice.step is not None and src(v.slice.step) != "1") or \
            (fn in ("list", "tuple") and v.args and isinstance(v.args[0], ast.Call) and src(v.args[0].func) in ("sorted", "reversed", "set", "frozenset"))
        if reorders:
            rep.viol("C17.R1", f, "elements-as-given", f"`{src(st)[:90]}` re-orders (or de-duplicates) the element sequence before the "
                     "indices are drawn: the yielded tuples are no longer ordered by the caller's indices",
                     scenario="sorted_combinations([3, 1, 2], key=sum) yields (1, 3) and (1, 2, 3) instead of (3, 1) and (3, 1, 2)",
                     line=st.lineno)
        else:
            rep.unrec("C17.R1", f, "elements-as-given", f"the element sequence is re-bound by `{src(st)[:90]}`: cannot tell whether the "
                      "order is kept", line=st.lineno)
        return
    # ---- the queue and its seed
    q = None
    seed = None
    for n in f.node.body:
        if isinstance(n, ast.Assign) and isinstance(n.value, ast.ListComp) and isinstance(n.targets[0], ast.Name):
            q, seed = n.targets[0].id, n.value
    if q is None:
        # the seed loop written out:  queue = []; for i, e in enumerate(elements): [single = (e,);] queue.append(<entry>)
        from ..util import comprehension_of
        for n in f.node.body:
            if isinstance(n, ast.Assign) and isinstance(n.value, ast.List) and not n.value.elts and isinstance(n.targets[0], ast.Name):
                built = comprehension_of(f.node, n.targets[0].id)
                if built is not None and len(built.generators) == 1 and not built.generators[0].ifs:
                    q, seed = n.targets[0].id, built
                    break
    if q is None:
        rep.unrec("C17.R1", f, "seeds", "queue seed comprehension not found")
        return
    g0 = seed.generators[0]
    seed_ok = False
    layout = None
    if len(seed.generators) == 1 and not g0.ifs and isinstance(g0.iter, ast.Call) and src(g0.iter.func) == "enumerate" \
            and [src(a) for a in g0.iter.args] == [elements] and isinstance(g0.target, ast.Tuple) and isinstance(seed.elt, ast.Tuple):
        i, e = (src(x) for x in g0.target.elts)
        elts = [src(x) for x in seed.elt.elts]
        comb_pos = [k for k, x in enumerate(elts) if x == f"({e},)"]
        idx_pos = [k for k, x in enumerate(elts) if x == i]
        key_pos = [k for k, x in enumerate(elts) if x == f"{key}(({e},))"]
        if len(comb_pos) == 1 and len(idx_pos) == 1 and len(key_pos) == 1 and key_pos[0] == 0:
            seed_ok = True
            layout = {"key": key_pos[0], "comb": comb_pos[0], "index": idx_pos[0], "arity": len(elts)}
    if not seed_ok and len(seed.generators) == 1 and not g0.ifs and not isinstance(seed.elt, ast.Tuple) \
            and isinstance(g0.iter, ast.Call) and src(g0.iter.func) == "enumerate" and [src(a) for a in g0.iter.args] == [elements]:
        # one entry per element, unfiltered, but the entry is built by a call (a named tuple, a helper): its layout is not
        # something this rule reads
        rep.unrec("C17.R1", f, "seeds", f"the seed entries are built by `{src(seed.elt)[:80]}`, not written as a tuple")
        return
    rep.check("C17.R1", f, "seeds", seed_ok, f"[(key((e,)), …, (e,), i) for i, e in enumerate({elements})]",
              f"the seed `{src(seed)}` is not one (key, …, singleton, index) entry per element",
              scenario="an element without a singleton seed never appears in any combination; a filtered seed loses combinations")
    if not seed_ok:
        return
    # ---- the main loop: pop, yield, extend
    loops = [n for n in f.node.body if isinstance(n, ast.While)]
    if len(loops) != 1:
        rep.unrec("C17.R2", f, "expansion", "main loop not found")
        return
    loop = loops[0]
    pop = None
    for n in loop.body:
        if isinstance(n, ast.Assign) and isinstance(n.value, ast.Call) and _heap_fn(prog, f, n.value) == "heapq.heappop" \
                and isinstance(n.targets[0], ast.Tuple):
            pop = n
    if pop is None:
        rep.unrec("C17.R2", f, "expansion", "heappop into a tuple not found")
        return
    names = [src(x) for x in pop.targets[0].elts]
    lay_ok = len(names) == layout["arity"]
    comb_v = names[layout["comb"]] if lay_ok else None
    idx_v = names[layout["index"]] if lay_ok else None
    key_v = names[layout["key"]] if lay_ok else None
    rep.check("C17.R4", f, "layout:pop", lay_ok, f"pop unpacks (key={key_v}, …, comb={comb_v}, index={idx_v}) as the entries were written",
              f"heappop is unpacked into {len(names)} names, entries have {layout['arity']} components",
              scenario="the combination and its last index are read from the wrong components")
    if not lay_ok:
        return
    # R3: yield
    ys = [n for n in loop.body if isinstance(n, ast.Expr) and isinstance(n.value, ast.Yield)]
    y_ok = False
    if len(ys) == 1 and loop.body.index(ys[0]) > loop.body.index(pop):
        v = ys[0].value.value
        if isinstance(v, ast.IfExp) and yk and src(v.test) == yk:
            y_ok = src(v.body) == f"({comb_v}, {key_v})" and src(v.orelse) == comb_v
        elif src(v) == comb_v and yk is None:
            y_ok = True
    all_y = [n for n in ast.walk(loop) if isinstance(n, ast.Yield)]
    rep.check("C17.R3", f, "yield", y_ok and len(all_y) == 1,
              f"yield ({comb_v}, {key_v}) if {yk} else {comb_v}, once per pop",
              "the popped combination is not yielded exactly once and unconditionally (with its key when requested)",
              scenario="some combinations are generated but never reported, or reported twice")
    # R2: expansion
    fors = [n for n in loop.body if isinstance(n, ast.For)]
    if len(fors) != 1:
        rep.unrec("C17.R2", f, "expansion", "expansion loop not found")
        return
    ex = fors[0]
    it = ex.iter
    inner = it.args[0] if isinstance(it, ast.Call) and src(it.func) == "enumerate" and it.args else None
    if isinstance(inner, ast.Name):
        inner = flow.expand(inner)          # following = elements[offset:]; for i, e in enumerate(following)
    enum_start = next((k.value for k in it.keywords if k.arg == "start"), None) if isinstance(it, ast.Call) else None
    if enum_start is None and isinstance(it, ast.Call) and len(it.args) == 2:
        enum_start = it.args[1]
    if not (isinstance(inner, ast.Subscript) and src(inner.value) == elements and isinstance(inner.slice, ast.Slice)
            and inner.slice.upper is None and inner.slice.step is None and isinstance(ex.target, ast.Tuple)):
        rep.unrec("C17.R2", f, "expansion", f"the expansion does not enumerate a suffix slice of {elements}: `{src(it)}`")
        return
    pos_v, e_v = (src(x) for x in ex.target.elts)

    def sym(e):
        if isinstance(e, ast.Name):
            if e.id == idx_v:
                return "k"
            if e.id == pos_v:
                return "p"
            d = flow.single_def(e)
            if d is not None and d.kind == "assign" and isinstance(d.value, ast.expr):
                return None
        return None

    def lin(e):
        import copy

        class Sub(ast.NodeTransformer):
            def visit_Name(self_, n):
                if isinstance(n.ctx, ast.Load) and n.id not in (idx_v, pos_v):
                    ex_ = flow.expand(n)
                    if ex_ is not n:
                        return Sub().visit(copy.deepcopy(ex_)) if not isinstance(ex_, ast.Name) else ex_
                return n
        # names are looked up in the original tree (reaching definitions are keyed by node), so substitute top-down
        def subst(x):
            if isinstance(x, ast.Name) and x.id not in (idx_v, pos_v):
                ex_ = flow.expand(x)
                return subst(ex_) if ex_ is not x else x
            if isinstance(x, ast.BinOp):
                return ast.BinOp(left=subst(x.left), op=x.op, right=subst(x.right))
            if isinstance(x, ast.UnaryOp):
                return ast.UnaryOp(op=x.op, operand=subst(x.operand))
            return x
        return _linear(subst(e), sym)
    start = lin(inner.slice.lower) if inner.slice.lower is not None else {"1": 0}
    rep.check("C17.R2", f, "slice-start", start is not None and _norm_lin(start) == {"k": 1, "1": 1},
              f"the suffix starts at (last index + 1): `{src(inner.slice.lower)}`",
              f"the suffix `{src(inner)}` does not start at (last index of the popped combination) + 1: normal form {start}",
              scenario="starting at the last index repeats an element inside a combination; starting later skips combinations "
                       "(e.g. (a, b) is never produced)", line=inner.lineno)
    pushes = [c for c in ast.walk(ex) if isinstance(c, ast.Call) and _heap_fn(prog, f, c) == "heapq.heappush"]
    pushed = flow.expand(pushes[0].args[1]) if len(pushes) == 1 and len(pushes[0].args) == 2 and isinstance(pushes[0].args[1], ast.Name) \
        else (pushes[0].args[1] if len(pushes) == 1 and len(pushes[0].args) == 2 else None)
    if not isinstance(pushed, ast.Tuple):
        rep.unrec("C17.R2", f, "push", "expected one heappush of a tuple per extension")
        return
    ent = pushed.elts
    if len(ent) != layout["arity"]:
        rep.viol("C17.R4", f, "layout:push", f"pushed entries have {len(ent)} components, seeds have {layout['arity']}",
                 scenario="pop unpacks entries of different shapes")
        return
    rep.ok("C17.R4", f, "layout:push", "pushed entries have the layout of the seeds")
    child = flow.expand(ent[layout["comb"]])
    child_ok = (isinstance(child, ast.BinOp) and isinstance(child.op, ast.Add) and src(child.left) == comb_v and src(child.right) == f"({e_v},)") \
        or (isinstance(child, ast.Tuple) and len(child.elts) == 2 and isinstance(child.elts[0], ast.Starred)
            and src(child.elts[0].value) == comb_v and src(child.elts[1]) == e_v)        # (*comb, e)
    rep.check("C17.R2", f, "child", child_ok, f"child = {comb_v} + ({e_v},)", f"the pushed combination `{src(child)}` is not parent + (e,)",
              scenario="combinations are not index-ordered tuples extending their prefix")
    cidx = lin(ent[layout["index"]])
    if cidx is not None and enum_start is not None:
        # enumerate(..., start=S): the loop variable is S + position
        s_lin = lin(enum_start)
        if s_lin is None:
            cidx = None
        else:
            coeff = cidx.get("p", 0)
            for k_, v_ in s_lin.items():
                cidx[k_] = cidx.get(k_, 0) + coeff * v_
    rep.check("C17.R2", f, "child-index", cidx is not None and start is not None and _norm_lin(cidx) == _norm_lin({**start, "p": 1}),
              f"child index = slice start + position: `{src(ent[layout['index']])}`",
              f"the index recorded for the child `{src(ent[layout['index']])}` is not (slice start + position in the slice): normal form {cidx}",
              scenario="children are later extended from the wrong position: combinations are duplicated or skipped")
    kexpr = ent[layout["key"]]
    if isinstance(kexpr, ast.Name):
        kexpr = flow.expand(kexpr)                 # new_key = key(new_comb); heappush(queue, (new_key, ...))
    key_ok = isinstance(kexpr, ast.Call) and src(kexpr.func) == key and len(kexpr.args) == 1 and \
        (src(flow.expand(kexpr.args[0])) == src(child) or src(kexpr.args[0]) == src(ent[layout["comb"]]))
    rep.check("C17.R2", f, "child-key", key_ok, f"pushed with {key}(child)", f"the child is pushed with `{src(kexpr)}`, not {key}(child)",
              scenario="the heap orders combinations by another combination's key: output is not key-ordered")
    uncond = not any(isinstance(x, (ast.If, ast.Break, ast.Continue)) for x in ast.walk(ex))
    rep.check("C17.R2", f, "every-extension", uncond, "every element of the suffix extends the parent",
              "the expansion loop skips extensions conditionally", scenario="combinations containing the skipped element are missing")
    # R4: only heap operations touch the queue
    other = []
    for n in walk_own(f.node):
        if isinstance(n, ast.Call) and any(isinstance(a, ast.Name) and a.id == q for a in n.args) and \
                not (_heap_fn(prog, f, n) or "").startswith("heapq."):
            if src(n.func) in ("len", "bool") and len(n.args) == 1:
                continue                             # asking whether the queue is empty does not touch it
            other.append(src(n))
        if isinstance(n, ast.Call) and isinstance(n.func, ast.Attribute) and isinstance(n.func.value, ast.Name) and n.func.value.id == q:
            # the seed loop written out appends to the (still plain) list before heapify() turns it into the heap
            heapified = [h for h in walk_own(f.node) if isinstance(h, ast.Call) and _heap_fn(prog, f, h) == "heapq.heapify"
                         and h.args and src(h.args[0]) == q]
            if n.func.attr == "append" and len(heapified) == 1 and n.lineno < heapified[0].lineno \
                    and not any(isinstance(a_, (ast.While,)) and any(x is n for x in ast.walk(a_)) for a_ in walk_own(f.node)):
                continue
            other.append(src(n))
        if isinstance(n, (ast.Subscript,)) and isinstance(n.value, ast.Name) and n.value.id == q:
            other.append(src(n))
    rep.check("C17.R4", f, "heap-only", not other, "only heapify/heappop/heappush touch the queue",
              f"the queue is also accessed by {other[:2]}", scenario="entries are removed or reordered outside the heap discipline")


def _is_score_sum_key(g: Func, key, scores: str) -> Optional[bool]:
    """the key handed to sorted_combinations is the exact sum of the scores of the indices: `lambda x: sum(scores[i] for i in x)`
    or a nested function that adds scores[i] over its parameter with + and returns the total"""
    if isinstance(key, ast.Lambda):
        b = key.body
        return isinstance(b, ast.Call) and isinstance(b.func, ast.Name) and b.func.id == "sum" and len(b.args) == 1 \
            and isinstance(b.args[0], (ast.GeneratorExp, ast.ListComp)) and len(b.args[0].generators) == 1 and not b.args[0].generators[0].ifs \
            and key.args.args and src(b.args[0].generators[0].iter) == key.args.args[0].arg \
            and isinstance(b.args[0].elt, ast.Subscript) and src(b.args[0].elt.value) == scores \
            and src(b.args[0].elt.slice) == src(b.args[0].generators[0].target)
    if isinstance(key, ast.Name) and key.id in g.nested:
        h = g.nested[key.id]
        body = [st for st in h.node.body if not (isinstance(st, ast.Expr) and isinstance(st.value, ast.Constant))]
        if len(body) == 1 and isinstance(body[0], ast.Return) and len(h.params) == 1:
            # def score_sum(indices): return sum(scores[i] for i in indices)     (also what the accumulator loop normalises to)
            lam = ast.Lambda(args=h.node.args, body=body[0].value)
            return _is_score_sum_key(g, lam, scores)
        if len(body) == 3 and isinstance(body[0], ast.Assign) and isinstance(body[0].targets[0], ast.Name) and const_value(body[0].value) == 0 \
                and isinstance(body[1], ast.For) and len(h.params) == 1 and src(body[1].iter) == h.params[0] and len(body[1].body) == 1 \
                and isinstance(body[2], ast.Return) and src(body[2].value) == body[0].targets[0].id:
            tot = body[0].targets[0].id
            st = body[1].body[0]
            return isinstance(st, ast.AugAssign) and isinstance(st.op, ast.Add) and src(st.target) == tot \
                and isinstance(st.value, ast.Subscript) and src(st.value.value) == scores and src(st.value.slice) == src(body[1].target)
        return None            # a nested function of another shape (a memoising one ...): what it returns is not read here
    if isinstance(key, ast.Lambda):
        return False
    return None


class _ScanStep(Client):
    """one step of the scan under a fixed ordering of (score, i_start, i_end, best) and a fixed found/not-found:
    state = True once the current combination was appended to the result"""

    def __init__(self, flow, env, term, res):
        self.flow, self.env, self.term, self.res = flow, env, term, res
        self.undecided: List[str] = []

    def should_inline(self, func, call, ctx):
        return False

    def refine(self, test, state, ctx):
        try:
            r = _eval_guard(test, self.env, self.term, self.flow)
        except NotAFormula as e:
            self.undecided.append(f"{src(test)} ({e})")
            return (state,), (state,)
        return ((state,), ()) if r else ((), (state,))

    def event(self, kind, node, state, ctx):
        if kind == "call" and isinstance(node, ast.Call) and isinstance(node.func, ast.Attribute) and node.func.attr == "append" \
                and isinstance(node.func.value, ast.Name) and node.func.value.id == self.res:
            return (True,)
        return (state,)


def r5_scan(prog, rep: Report, g: Func, f: Func):
    rep.rule("C17.R5", "interval scan, one step at a time, for every weak ordering of (score, i_start, i_end, best) over a "
             "non-decreasing stream: the step stops the scan only when no current or later score can belong to the result "
             "(score >= i_end, or a minimum was found and score > minimum), and when it goes on it appends the combination exactly "
             "if its score is in [i_start, i_end) and equals the minimum (path analysis of the loop body, whatever way its tests are "
             "arranged); the scan is fed by sorted_combinations(range(len(elements)), exact sum of the scores, yield_key=True) and "
             "is the only producer of the result", floor=3)
    from ..flow import Flow
    from ..resolve import Scope
    rep.fn(g)
    elements, scores, a, b = g.params[:4]
    flow = Flow(g.node)
    loops = [n for n in g.node.body if isinstance(n, ast.For)]
    if len(loops) != 1 or not isinstance(loops[0].target, ast.Tuple):
        rep.unrec("C17.R5", g, "scan", "scan loop not found")
        return
    lp = loops[0]
    comb_v, s_v = (src(x) for x in lp.target.elts)
    call = flow.expand(lp.iter) if isinstance(lp.iter, ast.Name) else lp.iter        # a named stream
    ok_call = False
    if isinstance(call, ast.Call) and src(call.func) == f.name and len(call.args) >= 2:
        from ..util import expand_all as _ea0
        a0 = _ea0(call.args[0], flow)                     # n = len(elements); range(n)
        while isinstance(a0, ast.Call) and src(a0.func) in ("list", "tuple") and len(a0.args) == 1 and not a0.keywords:
            a0 = a0.args[0]                               # all_indices = tuple(range(len(elements))): the same indices, as a sequence
        idx_ok = True if src(a0) == f"range(len({elements}))" else (False if isinstance(a0, ast.Call) and src(a0.func) == "range" else None)
        key_ok = _is_score_sum_key(g, call.args[1], scores)
        yk_ok = any(k.arg == "yield_key" and const_value(k.value) is True for k in call.keywords)
        ok_call = idx_ok is True and key_ok is True and yk_ok
        if not ok_call and yk_ok and idx_ok is not False and key_ok is not False:
            what = (f"the key handed to {f.name} is `{src(call.args[1])[:60]}`: whether it is the exact sum of the scores of the indices "
                    "is not read from its body") if key_ok is None else \
                f"the elements handed to {f.name} are `{src(a0)[:60]}`: whether these are all element indices is not read"
            rep.unrec("C17.R5", g, "feeds", what)
            return
    from ..util import expand_all as _ea
    call_x = _ea(call, flow) if isinstance(call, ast.AST) else call
    if not ok_call and isinstance(call_x, ast.Call) and src(call_x.func) != f.name and any(
            isinstance(n_, ast.Call) and src(n_.func) == f.name for n_ in ast.walk(call_x)):
        # the stream is wrapped (takewhile, islice, a filter ...): what the wrapper lets through is not something this rule reads
        rep.unrec("C17.R5", g, "feeds", f"the scan is fed by a wrapped stream: `{src(call)[:120]}`")
        return
    rep.check("C17.R5", g, "feeds", ok_call, "sorted_combinations(range(len(elements)), exact sum of the scores, yield_key=True)",
              f"the scan is not fed by sorted_combinations over all element indices keyed by the exact (builtin +) score sum: `{src(call)[:160]}`",
              scenario="the stream is not ordered by score sum, so the first score in the interval is not the minimum")
    res = None
    for n in g.node.body:
        if isinstance(n, ast.Assign) and isinstance(n.value, ast.List) and not n.value.elts and isinstance(n.targets[0], ast.Name):
            res = n.targets[0].id
    if res is None:
        rep.unrec("C17.R5", g, "guards", "result accumulator not found")
        return
    # a score sum may be 0 (zero scores are legal): a local that holds "None or a score" must not be read as a truth value
    truth = []
    for n in ast.walk(lp):
        if isinstance(n, ast.BoolOp):
            truth += list(n.values)
        elif isinstance(n, ast.UnaryOp) and isinstance(n.op, ast.Not):
            truth.append(n.operand)
        elif isinstance(n, (ast.If, ast.While, ast.IfExp)):
            truth.append(n.test)
    for t in truth:
        if not isinstance(t, ast.Name):
            continue
        defs = list(flow.defs_of(t))
        vals = [d.value for d in defs if isinstance(getattr(d, "value", None), ast.expr)]
        has_none = any(isinstance(v, ast.Constant) and v.value is None for v in vals)
        has_score = any(src(v) in (s_v, f"{res}[-1][1]", f"{res}[0][1]") for v in vals)
        if has_none and has_score:
            rep.viol("C17.R5", g, "guards", f"`{t.id}` holds None or a score sum and is read as a truth value (line {t.lineno}): a minimal "
                     "sum of 0 counts as 'nothing found yet', so the stop test past the minimum never applies",
                     scenario="scores [0, 2, 3], interval [0, 10): the combinations with sum 2 (and every larger sum below 10) are "
                              "returned next to the one with sum 0", line=t.lineno)
            return
    # the scan is the only producer of the result: every return hands back the accumulator, after the loop
    def _own(r):
        p_ = getattr(r, "_parent", None)
        while p_ is not None and not isinstance(p_, (ast.FunctionDef, ast.AsyncFunctionDef, ast.Lambda)):
            p_ = getattr(p_, "_parent", None)
        return p_ is g.node
    def _is_res(v) -> bool:
        """the accumulator, or a plain copy of it"""
        return v is not None and src(v) in (res, f"list({res})", f"{res}[:]", f"{res}.copy()")

    def _in_loop(r) -> bool:
        return any(x is r for x in ast.walk(lp))
    def _empty_input_exit(r) -> bool:
        """`if len(elements) == 0: return res` ahead of the scan, while res is still the empty accumulator: with no elements the
        stream is empty and the scan returns the same []"""
        par = getattr(r, "_parent", None)
        if not (isinstance(par, ast.If) and par in g.node.body and g.node.body.index(par) < g.node.body.index(lp) and r in par.body
                and len(par.body) == 1 and not par.orelse):
            return False
        if not (_is_res(r.value) or (isinstance(r.value, ast.List) and not r.value.elts)):
            return False
        from ..util import expand_all as _ea1
        t = src(_ea1(par.test, flow))
        return t in (f"len({elements}) == 0", f"not {elements}", f"not len({elements})", f"0 == len({elements})", f"len({elements}) < 1")
    others = [r for r in ast.walk(g.node) if isinstance(r, ast.Return) and _own(r) and not _empty_input_exit(r)
              and not (_is_res(r.value) and ((r in g.node.body and g.node.body.index(r) > g.node.body.index(lp)) or _in_loop(r)))]
    if others:
        rep.unrec("C17.R5", g, "single-producer", f"`{src(others[0])}` produces a result without the scan of the sorted stream: "
                  "whether it equals what the scan would return is a value-level question this check cannot decide",
                  line=others[0].lineno)
    else:
        rep.ok("C17.R5", g, "single-producer", f"every return hands back `{res}` (or a plain copy), after the scan or as the scan's stop")

    def mk_term(found: bool, env):
        def term(x, _d=0):
            if isinstance(x, ast.Name) and _d < 4:
                ex_ = flow.expand(x)                       # min_score = res[-1][1]
                if ex_ is not x:
                    return term(ex_, _d + 1)
            t = src(x)
            if t == f"{res}[-1][1]" or t == f"{res}[0][1]":
                return env["best"]
            if t == f"len({res})":
                return 1 if found else 0
            if const_value(x, None) == 0:
                return 0
            return None
        return term
    bad_b, bad_a, undecided = [], [], []
    n_eval = 0
    sc = Scope(prog, g, None)
    for found in (False, True):
        for env in weak_orderings([s_v, a, b, "best"]):
            if found and not (env[a] <= env["best"] < env[b] and env["best"] <= env[s_v]):
                continue
            if not found and env["best"] != 0:
                continue
            n_eval += 1
            env2 = dict(env)
            env2["$found"] = found
            env2["$res"] = res
            client = _ScanStep(flow, env2, mk_term(found, env), res)
            it = Interp(prog, client)
            it.stack.append((g, None))
            it.yield_handlers.append(None)
            ex = it.block(lp.body, {False}, sc)
            if client.undecided or it.unrecognised:
                undecided += client.undecided + it.unrecognised
                continue
            stop = bool(ex.brk or ex.ret)
            goes_on = ex.normal | ex.cont
            if stop and goes_on:
                undecided.append("a step both stops and goes on for one ordering")
                continue
            safe = env[b] <= env[s_v] or (found and env["best"] < env[s_v])
            if stop and not safe:
                bad_b.append({"found": found, **env})
            if not stop:
                got_a = any(goes_on) and all(goes_on) if goes_on else False
                if goes_on and len(set(goes_on)) > 1:
                    undecided.append("a step both appends and does not append for one ordering")
                    continue
                want_a = env[a] <= env[s_v] < env[b] and (not found or env[s_v] == env["best"])
                if got_a != want_a:
                    bad_a.append({"found": found, **env})
    rep.count("orderings_evaluated", n_eval)
    if undecided:
        rep.unrec("C17.R5", g, "guards", f"the tests of the scan step are not comparison formulas over (score, i_start, i_end, best): "
                  f"{sorted(set(undecided))[:2]}")
        return
    rep.check("C17.R5", g, "stop", not bad_b, "a step stops the scan only past the interval / past the minimal score",
              f"a step of the scan ends it while the current score still belongs to the result, for {bad_b[:1]}",
              witness=bad_b[:4], scenario="ties with the minimal score are cut off, or combinations with a larger sum are returned too",
              line=lp.lineno)
    rep.check("C17.R5", g, "accept", not bad_a, "a step that goes on appends exactly the scores in [i_start, i_end) equal to the minimum",
              f"a step that does not stop the scan appends / skips wrongly: it should append iff `i_start <= score < i_end and "
              f"(not found or score == best)`, for {bad_a[:1]}", witness=bad_a[:4],
              scenario="a combination whose sum equals i_end is returned, or one equal to i_start is not", line=lp.lineno)
    app = [x for x in ast.walk(lp) if isinstance(x, ast.Call) and isinstance(x.func, ast.Attribute) and x.func.attr == "append"
           and isinstance(x.func.value, ast.Name) and x.func.value.id == res]
    ok_app = bool(app)
    for one in app:                      # every append site (a tie fast path may have its own) reports (elements of the combination, score)
        good = False
        if one.args and isinstance(one.args[0], ast.Tuple) and len(one.args[0].elts) == 2 and src(one.args[0].elts[1]) == s_v:
            sel = one.args[0].elts[0]
            if isinstance(sel, ast.Name):
                from ..util import comprehension_of
                sel = comprehension_of(g.node, sel.id) or flow.expand(sel)
            good = isinstance(sel, ast.ListComp) and src(sel.generators[0].iter) == comb_v and not sel.generators[0].ifs \
                and isinstance(sel.elt, ast.Subscript) and src(sel.elt.value) == elements and src(sel.elt.slice) == src(sel.generators[0].target)
        ok_app = ok_app and good
    rep.check("C17.R5", g, "result", ok_app, "appends ([elements[i] for i in combination], score)",
              "an accepted combination is not reported as (its elements, its score)",
              scenario="indices are returned instead of elements, or the score of another combination")


def _eval_guard(e, env, term, flow=None, depth=0) -> bool:
    if isinstance(e, ast.BoolOp):
        vals = [_eval_guard(v, env, term, flow, depth) for v in e.values]
        return all(vals) if isinstance(e.op, ast.And) else any(vals)
    if isinstance(e, ast.UnaryOp) and isinstance(e.op, ast.Not):
        return not _eval_guard(e.operand, env, term, flow, depth)
    if isinstance(e, ast.Name) and term(e) is None:
        if e.id == env.get("$res"):
            return bool(env.get("$found"))          # truthiness of the result list: something was found already
        if flow is not None and depth < 4:
            ex = flow.expand(e)                     # interval_passed = i_end <= comb_score; if interval_passed or ...
            if ex is not e:
                return _eval_guard(ex, env, term, flow, depth + 1)
        raise NotAFormula(f"name {e.id}")
    env_ = {k: v for k, v in env.items() if not k.startswith("$")}
    return eval_order(e, env_, term)
