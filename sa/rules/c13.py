"""C13 — records survive save/load and record files are sequences of records (DESIGN.md §6: agreement rules)."""
from __future__ import annotations

import ast
from typing import Dict, List, Optional, Set, Tuple

from ..absint import Client, Ctx, Interp
from ..flow import Flow
from ..model import AnalysisError, Cls, Func, Program, walk_own
from ..report import Report
from ..resolve import const_value, dotted, kwarg
from ..util import calls_in, ext_name, norm, returns_of, src
from .filefam import FILES_MOD, Family

DIALECT_KEYS = ("delimiter", "quotechar", "escapechar", "doublequote", "quoting", "skipinitialspace", "strict", "dialect")


def run(prog: Program, rep: Report):
    csvr = prog.cls("CSVRecord", FILES_MOD)
    jsonr = prog.cls("JsonRecord", FILES_MOD)
    record = prog.cls("Record", FILES_MOD)
    rep.attempt(lambda: r1_dialect(prog, rep, csvr))
    rep.attempt(lambda: r2_fields(prog, rep, record, csvr, jsonr))
    rep.attempt(lambda: r3_buffer(prog, rep, csvr))
    rep.attempt(lambda: r4_one_line(prog, rep, csvr, jsonr))
    rep.attempt(lambda: r5_record_layer(prog, rep))
    from .mixins import rule_mixin_surface
    base_rf = prog.cls("BaseRecordFile", FILES_MOD)
    rfs = [c for c in prog.classes.values() if c.mod.name == FILES_MOD and base_rf in (c.mro or [])]
    rep.attempt(lambda: rule_mixin_surface(prog, rep, "C13.R7", rfs, owners={c.name for c in rfs}))
    from .purity import rule_history_free
    rec_methods = [m for c in (record, jsonr, csvr) for m in c.methods.values() if m.name in ("load", "save") or m.name.startswith("_")
                   and not (m.name.startswith("__") and m.name.endswith("__"))]
    rep.attempt(lambda: rule_history_free(prog, rep, "C13.R8", rec_methods))
    # "a record file returns load(line) for each line": the offset index the lines are read through is part of this property
    from .c11 import r5_index
    from .filefam import Family
    rep.attempt(lambda: r5_index(prog, rep, Family(prog), rule="C13.R9", only_binary=True))
    # a record that was not edited is parsed from the raw line: exactly the line, minus one terminator (C11.R3)
    from .c11 import r3_terminator, r3b_raw_reader
    rep.attempt(lambda: r3_terminator(prog, rep, Family(prog), rule="C13.R10"))
    rep.attempt(lambda: r3b_raw_reader(prog, rep, Family(prog), rule="C13.R10"))
    rep.attempt(lambda: r6_class_keyed(prog, rep, [record, jsonr, csvr] + [c for c in prog.classes.values() if c.mod.name == FILES_MOD and csvr in (c.mro or []) and c is not csvr]))


def _csv_calls(prog, cls: Cls):
    """(writer construction, the method that writes a row, reader construction, the method that reads); the methods are taken with
    the class's private helpers inlined (sa/inline.py), and the writing method is the one that calls writerow"""
    w = r = None
    wf = rf = None
    views = [prog.method_view(cls, name) for name in cls.methods]
    for f in views:
        for c in calls_in(f.node):
            n = ext_name(prog, f, c)
            if n in ("csv.DictWriter", "csv.writer"):
                has_row = any(isinstance(x.func, ast.Attribute) and x.func.attr in ("writerow", "writerows") for x in calls_in(f.node))
                if wf is None or has_row:
                    w, wf = c, f
            elif n in ("csv.reader", "csv.DictReader"):
                r, rf = c, f
    return w, wf, r, rf


def r1_dialect(prog, rep: Report, csvr: Cls):
    rep.rule("C13.R1", "dialect agreement: the dialect keywords given to the csv writer and to the csv reader are pairwise "
             "identical expressions or absent on both sides; both take the delimiter from the same class attribute", floor=2)
    w, wf, r, rf = _csv_calls(prog, csvr)
    if w is None or r is None:
        rep.unrec("C13.R1", (csvr.relpath, csvr.short, csvr.node.lineno), "dialect", "csv writer/reader construction not found")
        return
    rep.fn(wf, rf)
    wk = {k.arg: k.value for k in w.keywords if k.arg in DIALECT_KEYS}
    rk = {k.arg: k.value for k in r.keywords if k.arg in DIALECT_KEYS}
    star = [k for k in w.keywords + r.keywords if k.arg is None]
    if star:
        rep.unrec("C13.R1", wf, "dialect", "**kwargs in a csv call: dialect not statically known")
        return
    diffs = []
    for key in sorted(set(wk) | set(rk)):
        a, b = wk.get(key), rk.get(key)
        if a is None or b is None or norm(a) != norm(b):
            diffs.append(f"{key}: writer {src(a) if a is not None else 'default'} / reader {src(b) if b is not None else 'default'}")
    rep.check("C13.R1", wf, "dialect", not diffs, f"writer and reader share the dialect keywords {sorted(wk)}",
              "writer and reader dialects differ: " + "; ".join(diffs),
              scenario="a field containing the delimiter, a quote or leading blanks is split or unquoted differently on load than "
                       "it was written: load(save(r)) != r", line=w.lineno)
    for side, kws, fn_ in (("writer", wk, wf), ("reader", rk, rf)):
        q = kws.get("quoting")
        if q is not None:
            mode = src(q).split(".")[-1]
            rep.check("C13.R1", fn_, f"quoting:{side}", mode in ("QUOTE_MINIMAL", "QUOTE_ALL"),
                      f"{side} quoting {mode} keeps every field a string",
                      f"{side} uses quoting={src(q)}: QUOTE_NONNUMERIC makes the reader return floats for unquoted fields (ints above "
                      f"2**53 lose precision before the field type is applied), QUOTE_NONE cannot represent delimiters/quotes",
                      scenario="a record with the int field 9007199254740993: load(save(r)) gives 9007199254740992", line=q.lineno)
    d = wk.get("delimiter")
    cls_attr = d is not None and isinstance(d, ast.Attribute) and isinstance(d.value, ast.Name) and d.value.id in ("cls", "self")
    rep.check("C13.R1", wf, "delimiter-source", cls_attr, f"delimiter comes from the class attribute {src(d) if d is not None else ''}",
              "the delimiter is not read from a class attribute: the TSV subclass cannot override writer and reader together",
              scenario="TSVRecord writes tabs but reads commas (or vice versa)")


def _comp_filter(f: Func) -> Optional[Tuple[str, str, str]]:
    """(iter source, filter source, element attribute) of the list comprehension cached by a field table method"""
    for n in walk_own(f.node):
        if isinstance(n, ast.ListComp) and len(n.generators) == 1:
            g = n.generators[0]
            elt = n.elt
            # getattr(f, "name") (a helper parametrised by the attribute, inlined) reads as f.name
            if isinstance(elt, ast.Call) and src(elt.func) == "getattr" and len(elt.args) == 2 and isinstance(elt.args[1], ast.Constant) \
                    and isinstance(elt.args[1].value, str):
                elt_s = f"{src(elt.args[0])}.{elt.args[1].value}"
            else:
                elt_s = src(elt)
            import re as _re
            norm = lambda t: _re.sub(r"__\w+?\d+\b", "", t)         # locals renamed apart by the inliner
            return norm(src(g.iter)), norm(" and ".join(src(i) for i in g.ifs)), norm(elt_s)
    return None


def r2_fields(prog, rep: Report, record: Cls, csvr: Cls, jsonr: Cls):
    rep.rule("C13.R2", "field tables agree: field_names()/field_types() range over fields(cls) with the same filter; the writer's "
             "fieldnames, the reader's zip(names, types, row) and the JSON load filter all derive from them", floor=4)
    fn, ft = prog.method(record, "field_names"), prog.method(record, "field_types")
    rep.fn(fn, ft)
    a, b = _comp_filter(fn), _comp_filter(ft)
    ok = a is not None and b is not None and a[0] == b[0] == "fields(cls)" and a[1] == b[1] and a[2].endswith(".name") and b[2].endswith(".type")
    rep.check("C13.R2", fn, "tables", ok, f"names and types over {a[0] if a else '?'} if {a[1] if a else '?'}",
              f"field_names {a} and field_types {b} do not range over fields(cls) with the same filter",
              scenario="a dataclass with an init=False field: names and types get out of step and every later column is "
                       "converted with the wrong type")
    # caches keyed by cls
    for f in (fn, ft):
        keyed = all(isinstance(s.slice, ast.Name) and s.slice.id == "cls" for s in ast.walk(f.node)
                    if isinstance(s, ast.Subscript) and "cache" in src(s.value))
        rep.check("C13.R2", f, "cache-key", keyed, "per-class cache keyed by cls", "the field cache is not keyed by the class",
                  scenario="two record classes share one cached field table")
    w, wf, r, rf = _csv_calls(prog, csvr)
    if w is not None:
        fnames = kwarg(w, "fieldnames", 1)
        rep.check("C13.R2", wf, "writer-fields", fnames is not None and src(fnames) == "cls.field_names()",
                  "writer fieldnames = cls.field_names()", f"writer fieldnames = {src(fnames) if fnames is not None else '?'}",
                  scenario="columns are written in another order than they are read")
    load = prog.method(csvr, "load")
    rep.fn(load)
    # the keyword arguments the record is built from, as a mapping position by position (sa/paths.elementwise):
    #     field_names()[i]  ->  field_types()[i](row[i])
    from ..paths import elementwise, show, strip_versions, subterms, summaries
    ps, un = summaries(prog, prog.resolve(csvr, "load"), csvr)
    normal = [p_ for p_ in ps if p_.exit == "return"]
    verdicts = []
    for p_ in normal:
        built = [e for e in p_.events if e[0] == "call" and any(isinstance(a, tuple) and len(a) == 2 and a[0] is None for a in e[3])]
        if len(built) != 1:
            verdicts.append(("unrec", f"{len(built)} constructions from a keyword dictionary on one path"))
            continue
        d = [a[1] for a in built[0][3] if isinstance(a, tuple) and len(a) == 2 and a[0] is None][0]
        pair = elementwise(strip_versions(d))
        if not (isinstance(pair, tuple) and pair[0] == "tuple" and len(pair) == 3):
            verdicts.append(("unrec", "the keyword dictionary is not built position by position from sequences"))
            continue
        k, v = pair[1], pair[2]
        names_ok = k[0] == "at" and k[1][0] == "mcall" and k[1][1] == "field_names" and k[1][2] == ("self",)
        shape_ok = v[0] == "apply" and v[1][0] == "at" and v[1][1][0] == "mcall" and v[1][1][1] == "field_types" and v[1][1][2] == ("self",) \
            and len(v[2]) == 1 and v[2][0][0] == "at"
        v_ok = shape_ok and any(t[0] == "eff" and t[1] == "reader" for t in subterms(v[2][0][1]))
        if names_ok and shape_ok and not v_ok:
            # names, types and positions agree, but on this path the row was not parsed by csv.reader (a fast path through a helper of
            # the class): whether that helper splits like the reader is a value-level question
            verdicts.append(("unrec", f"on one path the row the fields are read from is `{show(v[2][0][1])[:80]}`, not the result of csv.reader"))
            continue
        verdicts.append(("ok", "") if names_ok and v_ok else
                        ("viol", "the CSV reader does not build {name: type(value)} from field_names(), field_types() and the parsed row "
                                 "position by position"))
    if un or not normal:
        rep.unrec("C13.R2", load, "reader-fields", "; ".join(un) or "no normal path through load()")
    elif any(k_ == "viol" for k_, _ in verdicts):
        rep.viol("C13.R2", load, "reader-fields", [m for k_, m in verdicts if k_ == "viol"][0],
                 scenario="values are assigned to the wrong field or left as strings: load(save(r)) != r")
    elif any(k_ == "unrec" for k_, _ in verdicts):
        rep.unrec("C13.R2", load, "reader-fields", [m for k_, m in verdicts if k_ == "unrec"][0])
    else:
        rep.ok("C13.R2", load, "reader-fields", "{name: type(value)} position by position over field_names, field_types and the parsed row")
    jl = prog.method(jsonr, "load")
    rep.fn(jl)
    ps, un = summaries(prog, prog.resolve(jsonr, "load"), jsonr)
    normal = [p_ for p_ in ps if p_.exit == "return"]
    verdicts = []
    for p_ in normal:
        built = [e for e in p_.events if e[0] == "call" and any(isinstance(a, tuple) and len(a) == 2 and a[0] is None for a in e[3])]
        if len(built) != 1:
            verdicts.append(("unrec", f"{len(built)} constructions from a keyword dictionary on one path"))
            continue
        d = strip_versions([a[1] for a in built[0][3] if isinstance(a, tuple) and len(a) == 2 and a[0] is None][0])
        if not (isinstance(d, tuple) and d[0] == "comp" and d[1] == "dict"):
            verdicts.append(("unrec", "the keyword dictionary is not a dictionary comprehension"))
            continue
        (k, v), it_, conds, lid = d[2], d[3], d[4], d[5]
        pairs_ok = k[0] == "key" and v[0] == "val" and k[1] == v[1] and k[2] == v[2] == lid
        src_ok = any(t[0] == "eff" and t[1] == "loads" for t in subterms(k[1])) if pairs_ok else False

        def names_table(t):
            while isinstance(t, tuple) and t[0] == "call" and t[1] in ("frozenset", "set", "tuple", "list") and len(t[2]) == 1:
                t = t[2][0]
            return isinstance(t, tuple) and t[0] == "mcall" and t[1] == "field_names" and t[2] == ("self",)
        cond_ok = len(conds) == 1 and conds[0][0] == "cmp" and conds[0][1] == "In" and conds[0][2] == k and names_table(conds[0][3])
        if pairs_ok and src_ok and not cond_ok and len(conds) == 1 and conds[0][0] == "cmp" and conds[0][1] == "In" and conds[0][2] == k \
                and isinstance(conds[0][3], tuple) and conds[0][3][0] in ("mcall", "attr", "sub") \
                and any(t == ("self",) for t in subterms(conds[0][3])):
            # the keys are filtered by membership in a table the class provides through another accessor (a cached set of the field
            # names ...): what that accessor returns is not followed here
            verdicts.append(("unrec", f"the keys are filtered by membership in `{show(conds[0][3])[:80]}`, not in cls.field_names() itself"))
            continue
        verdicts.append(("ok", "") if pairs_ok and src_ok and cond_ok else
                        ("viol", "JsonRecord.load does not keep exactly the (key, value) pairs whose key is in cls.field_names()"))
    # positively wrong whatever the rest looks like: a field is kept or dropped by looking at its *value*
    # (`value = d.get(name); if value is not None: kwargs[name] = value`): a field that is null / falsy in the file is lost
    by_value = None
    for a_ in walk_own(jl.node):
        if isinstance(a_, ast.Assign) and len(a_.targets) == 1 and isinstance(a_.targets[0], ast.Name) and isinstance(a_.value, ast.Call) \
                and isinstance(a_.value.func, ast.Attribute) and a_.value.func.attr == "get" and 1 <= len(a_.value.args) <= 2 \
                and (len(a_.value.args) == 1 or const_value(a_.value.args[1], 0) is None):
            v_ = a_.targets[0].id
            for t_ in walk_own(jl.node):
                if isinstance(t_, ast.If):
                    tt = t_.test.operand if isinstance(t_.test, ast.UnaryOp) and isinstance(t_.test.op, ast.Not) else t_.test
                    if (isinstance(tt, ast.Name) and tt.id == v_) or (isinstance(tt, ast.Compare) and len(tt.ops) == 1
                                                                      and isinstance(tt.ops[0], (ast.Is, ast.IsNot, ast.Eq, ast.NotEq))
                                                                      and isinstance(tt.left, ast.Name) and tt.left.id == v_
                                                                      and const_value(tt.comparators[0], 0) is None):
                        by_value = (a_, t_)
    if by_value is not None:
        rep.viol("C13.R2", jl, "json-fields", f"`{src(by_value[0])}` followed by `if {src(by_value[1].test)}`: a field is kept or dropped by "
                 "looking at its value, so a field that is null (or falsy) in the line cannot be told from a missing one",
                 scenario="a record with an Optional field set to None and a non-None default: load(save(r)) != r", line=by_value[1].lineno)
    elif un or not normal:
        rep.unrec("C13.R2", jl, "json-fields", "; ".join(un) or "no normal path through load()")
    elif any(k_ == "viol" for k_, _ in verdicts):
        rep.viol("C13.R2", jl, "json-fields", [m for k_, m in verdicts if k_ == "viol"][0], scenario="a field is dropped or renamed on load")
    elif any(k_ == "unrec" for k_, _ in verdicts):
        rep.unrec("C13.R2", jl, "json-fields", [m for k_, m in verdicts if k_ == "unrec"][0])
    else:
        rep.ok("C13.R2", jl, "json-fields", "keeps exactly the keys in cls.field_names(), values unmodified")


CLEAN, DIRTY, READ, CUT, SOUGHT = "CLEAN", "DIRTY", "READ", "CUT", "SOUGHT"


class _Buf(Client):
    """CLEAN -writerow-> DIRTY -getvalue-> READ -truncate(0)/seek(0) in either order-> CLEAN"""

    def __init__(self, buf_attr: str):
        self.buf = buf_attr
        self.problems: List[Tuple[int, str]] = []
        self.read_var = None

    def should_inline(self, func, call, ctx):
        return False

    def event(self, kind, node, state, ctx):
        if kind != "call" or not isinstance(node, ast.Call) or not isinstance(node.func, ast.Attribute):
            return (state,)
        name = node.func.attr
        recv = node.func.value
        if name == "writerow":
            if state != CLEAN:
                self.problems.append((node.lineno, f"writerow on a buffer in state {state}: the previous row is still in it"))
            return (DIRTY,)
        d = dotted(recv)
        if isinstance(recv, ast.Name):
            # a local that names the buffer (`buffer = cls._res_io`)
            fl = getattr(ctx.func.node, "_flow", None)
            if fl is None:
                from ..flow import Flow
                fl = ctx.func.node._flow = Flow(ctx.func.node)
            d = dotted(fl.expand(recv)) or d
        if not (d and d[-1] == self.buf):
            return (state,)
        if name == "getvalue":
            if state != DIRTY:
                self.problems.append((node.lineno, f"getvalue in state {state}"))
            return (READ,)
        if name == "truncate":
            explicit0 = bool(node.args) and const_value(node.args[0]) == 0
            if not explicit0 and not (not node.args and not node.keywords and state == SOUGHT):
                # truncate() with no size cuts at the current position: that is 0 only right after seek(0)
                self.problems.append((node.lineno, "truncate() without the explicit size 0 cuts at the current position (end of the row)"))
            if state == DIRTY:
                self.problems.append((node.lineno, "the buffer is truncated before its content was read"))
            return (CUT if state in (READ,) else CLEAN if state == SOUGHT else state,)
        if name == "seek":
            if not (node.args and const_value(node.args[0]) == 0):
                self.problems.append((node.lineno, "seek to a position other than 0"))
            return (SOUGHT if state == READ else CLEAN if state == CUT else state,)
        return (state,)


def r3_buffer(prog, rep: Report, csvr: Cls):
    rep.rule("C13.R3", "shared buffer protocol (typestate on the class-level StringIO): writerow, getvalue, then truncate(0) and "
             "seek(0) before the function returns the value read; the per-class writer cache is keyed by cls", floor=2)
    w, wf, r, rf = _csv_calls(prog, csvr)
    if w is None:
        rep.unrec("C13.R3", (csvr.relpath, csvr.short, csvr.node.lineno), "buffer", "csv writer not found")
        return
    rep.fn(wf)
    buf = dotted(w.args[0]) if w.args else None
    if not buf:
        rep.unrec("C13.R3", wf, "buffer", "writer target is not a class attribute")
        return
    client = _Buf(buf[-1])
    it = Interp(prog, client)
    ex = it.run(wf, {CLEAN}, csvr)
    finals = ex.normal | ex.ret
    probs = sorted(set(client.problems))
    left = [s for s in finals if s != CLEAN]
    if left:
        probs.append((wf.node.lineno, f"the function can return with the shared buffer in state {sorted(left)} (content or position "
                                      f"not reset)"))
    # returns the value read
    read_vars = [n.targets[0].id for n in walk_own(wf.node) if isinstance(n, ast.Assign) and isinstance(n.value, ast.Call)
                 and isinstance(n.value.func, ast.Attribute) and n.value.func.attr == "getvalue" and isinstance(n.targets[0], ast.Name)]
    rets = returns_of(wf.node)
    if not (read_vars and rets and all(src(rt.value) == read_vars[0] for rt in rets)):
        probs.append((wf.node.lineno, "the function does not return exactly what getvalue() read"))
    rep.check("C13.R3", wf, "buffer", not probs, "writerow, getvalue, truncate(0)+seek(0); returns the value read",
              "; ".join(m for _, m in probs),
              scenario="saving two records in a row: the second save() returns the first row again, both rows, or a string padded "
                       "with NUL characters (truncate(0) without seek(0) leaves the position behind)",
              line=probs[0][0] if probs else None)
    # where does the writer used for writerow come from?  every cached source must be a subscript keyed by cls
    wvar = None
    for n in walk_own(wf.node):
        if isinstance(n, ast.Call) and isinstance(n.func, ast.Attribute) and n.func.attr == "writerow":
            b_ = n.func.value
            while isinstance(b_, ast.Attribute):          # sink.writer.writerow(..): the writer travels inside `sink`
                b_ = b_.value
            if isinstance(b_, ast.Name):
                wvar = b_.id
    from ..util import iter_stores
    all_stores = list(iter_stores(wf.node))
    # the names through which the writer travels (w = cls._writer[cls]; result = w; result.writerow(..))
    wnames = {wvar} if wvar else set()
    changed = True
    while changed:
        changed = False
        for t, val, st in all_stores:
            if isinstance(t, ast.Name) and t.id in wnames and isinstance(val, ast.Name) and val.id not in wnames:
                wnames.add(val.id)
                changed = True
    sources = []
    for t, val, st in all_stores:
        if isinstance(t, ast.Name) and t.id in wnames and val is not None and not isinstance(val, ast.Name) \
                and not (isinstance(val, ast.Call) and ("csv." in src(val.func) or any(
                    isinstance(x, ast.Call) and "csv." in src(x.func) for a_ in val.args for x in ast.walk(a_)))):
            sources.append(val)          # (a freshly constructed writer, alone or wrapped in a record with its buffer, is no cache read)
    stores = [t for t, val, st in all_stores if isinstance(val, ast.Name) and val.id in wnames and not isinstance(t, ast.Name)]
    def _keyed(e):
        if isinstance(e, ast.Call) and isinstance(e.func, ast.Attribute) and e.func.attr == "get" and e.args \
                and isinstance(e.args[0], ast.Name) and e.args[0].id == "cls":
            return True                                         # cls._writer.get(cls)
        return isinstance(e, ast.Subscript) and isinstance(e.slice, ast.Name) and e.slice.id == "cls"
    keyed = bool(wvar) and all(_keyed(x) for x in sources) and all(_keyed(x) for x in stores) and (bool(sources) or bool(stores))
    rep.check("C13.R3", wf, "writer-cache", keyed, "writer cache keyed by cls", "the writer cache is not keyed by the record class",
              scenario="a TSV record is written with the CSV record's writer (wrong delimiter / field names)")


def r4_one_line(prog, rep: Report, csvr: Cls, jsonr: Cls):
    rep.rule("C13.R4", "one line: json.dumps is called without indent on asdict(self); the CSV save returns exactly what one "
             "writerow produced from asdict(self); the CSV loader parses the single given line", floor=3)
    js = prog.method(jsonr, "save")
    rep.fn(js)
    dumps = [c for c in calls_in(js.node) if ext_name(prog, js, c) == "json.dumps"]
    bad_kw = [k.arg for k in (dumps[0].keywords if dumps else []) if (k.arg == "ensure_ascii" and const_value(k.value, True) is not True)
              or k.arg is None]
    rep.check("C13.R4", js, "json-ascii", len(dumps) == 1 and not bad_kw, "json.dumps keeps ensure_ascii (every character outside ASCII is escaped)",
              f"json.dumps is called with {bad_kw}: U+2028/U+2029/U+0085 are written raw (the record is no longer one line for "
              f"str.splitlines()) and lone surrogates cannot be encoded when the file is saved",
              scenario="a record with the string '\\u2028' or with a lone surrogate (os.fsdecode of a non-UTF-8 name): saving the "
                       "mutable record file raises UnicodeEncodeError / the line is split")
    ok = len(dumps) == 1 and not any(k.arg == "indent" and const_value(k.value, 0) is not None for k in dumps[0].keywords) \
        and src(dumps[0].args[0]) == "asdict(self)" and all(src(r.value) == src(dumps[0]) for r in returns_of(js.node))
    rep.check("C13.R4", js, "json-one-line", ok, "json.dumps(asdict(self)) without indent",
              "JsonRecord.save does not return json.dumps(asdict(self)) without indent",
              scenario="with indent=2 the record occupies several lines: the line-indexed record file is corrupted")
    cs = prog.method(csvr, "save")
    rep.fn(cs)
    _w, wf, _r, _rf = _csv_calls(prog, csvr)
    # what save() returns, read off its path summaries (helpers followed): the text that getvalue() read after exactly one
    # writerow(asdict(self))
    from ..paths import summaries
    ps, un = summaries(prog, prog.resolve(csvr, "save"), csvr)
    normal = [p_ for p_ in ps if p_.exit == "return"]
    if un or not normal:
        rep.unrec("C13.R4", cs, "csv-one-row", "; ".join(un) or "no normal path through save()")
    else:
        bad, unknown = [], []
        for p_ in normal:
            rows = [e for e in p_.events if e[0] == "call" and e[1] == "writerow"]
            if len(rows) != 1:
                bad.append(f"{len(rows)} rows are written on one path")
                continue
            arg = rows[0][3][0] if rows[0][3] else None
            whole = isinstance(arg, tuple) and arg[0] in ("eff", "call") and arg[1].split(".")[-1] == "asdict" and \
                (arg[3] if arg[0] == "eff" else arg[2])[:1] == (("self",),)
            if not whole:
                (unknown if isinstance(arg, tuple) and arg[0] in ("opq", "lv", "free") else bad).append(
                    "the row written is not asdict(self)")
            v = p_.value
            if not (isinstance(v, tuple) and v[0] in ("eff", "mcall") and v[1] == "getvalue"):
                (unknown if isinstance(v, tuple) and v[0] in ("opq", "lv", "free") else bad).append(
                    "the returned value is not what getvalue() read from the buffer")
        if bad:
            rep.viol("C13.R4", cs, "csv-one-row", "CSVRecord.save does not return the single written row: " + sorted(set(bad))[0],
                     scenario="save() returns something the loader cannot parse back")
        elif unknown:
            rep.unrec("C13.R4", cs, "csv-one-row", sorted(set(unknown))[0])
        else:
            rep.ok("C13.R4", cs, "csv-one-row", "returns what getvalue() read after one writerow(asdict(self))")
    load = prog.method(csvr, "load")
    s = load.params[1]
    rd = [c for c in calls_in(load.node) if ext_name(prog, load, c) == "csv.reader"]
    a0 = rd[0].args[0] if len(rd) == 1 and rd[0].args else None
    ok = isinstance(a0, (ast.List, ast.Tuple)) and len(a0.elts) == 1 and src(a0.elts[0]) == s       # [s] or (s,): one line
    rep.check("C13.R4", load, "csv-load-one-line", ok, f"csv.reader([{s}]) parses exactly the given line",
              "the CSV loader does not parse exactly the one given line", scenario="load() reads a different text than save() produced")
    # on every path the row comes from the csv reader: a hand-written split of the line is not the inverse of the csv writer
    # (quoting aside, csv keeps trailing blanks and empty trailing fields that str.split()/strip() variants drop)
    def has_reader(e) -> bool:
        return any(isinstance(x, ast.Call) and ext_name(prog, load, x) == "csv.reader" for x in ast.walk(e))

    def arms(e):
        if isinstance(e, ast.IfExp):
            return arms(e.body) + arms(e.orelse)
        return [e]
    row_vars = {t.id for n in walk_own(load.node) if isinstance(n, ast.Assign) and has_reader(n.value)
                for t in n.targets if isinstance(t, ast.Name)}
    bypass = []
    for n in walk_own(load.node):
        if isinstance(n, ast.Assign) and any(isinstance(t, ast.Name) and t.id in row_vars for t in n.targets):
            for a in arms(n.value):
                if not has_reader(a):
                    bypass.append((n.lineno, src(a)))
    def _by_helper(text: str) -> bool:
        """the other source of the row is a call of a method of the class (`cls._split_plain_line(s)`): what it returns is not
        followed; a split / strip written in place is what the rule positively knows to differ from the csv reader"""
        try:
            e = ast.parse(text, mode="eval").body
        except SyntaxError:
            return False
        return isinstance(e, ast.Call) and isinstance(e.func, ast.Attribute) and isinstance(e.func.value, ast.Name) \
            and e.func.value.id in (load.params[0], "cls", "self") and e.func.attr not in ("split", "strip", "rstrip", "lstrip")
    def _hand_split(text: str) -> bool:
        """a split / strip of the line written in place: what the rule positively knows to differ from csv.reader"""
        try:
            e = ast.parse(text, mode="eval").body
        except SyntaxError:
            return False
        return any(isinstance(x, ast.Call) and isinstance(x.func, ast.Attribute) and x.func.attr in ("split", "strip", "rstrip", "lstrip", "partition")
                   for x in ast.walk(e))
    if rd and bypass and not any(_hand_split(b[1]) for b in bypass):
        rep.unrec("C13.R4", load, "csv-load-always-reader", f"on some path the row comes from `{bypass[0][1]}` and from csv.reader only "
                  "otherwise: where that value comes from is not followed", line=bypass[0][0])
    elif rd and bypass and all(_by_helper(b[1]) for b in bypass):
        rep.unrec("C13.R4", load, "csv-load-always-reader", f"on some path the row comes from `{bypass[0][1]}`, a helper of the class, and "
                  "from csv.reader only otherwise: whether the helper parses like the reader is not decided", line=bypass[0][0])
    elif rd:
        rep.check("C13.R4", load, "csv-load-always-reader", not bypass, "the parsed row comes from csv.reader on every path",
                  f"on some path the row is produced by `{bypass[0][1] if bypass else ''}` instead of csv.reader: not the inverse of "
                  "the csv writer", scenario="a TSV record whose last string field ends in blanks (or is empty) loses them on load",
                  line=bypass[0][0] if bypass else None)
    jl = prog.method(jsonr, "load")
    rep.fn(jl)
    lo = [c for c in calls_in(jl.node) if ext_name(prog, jl, c) == "json.loads"]
    hooks = [k.arg for c_ in lo for k in c_.keywords if k.arg in ("object_hook", "object_pairs_hook", "parse_float", "parse_int",
                                                                    "parse_constant", "cls") or k.arg is None]
    if hooks and len(lo) == 1 and [src(a) for a in lo[0].args] == [jl.params[1]]:
        rep.viol("C13.R4", jl, "json-load", f"json.loads is called with {hooks}: the values are rewritten while they are parsed (a hook "
                 "runs on every nested object, number parsers change value types), which json.dumps in save() does not undo",
                 scenario="a record with a dict-valued field: the nested dictionary loses the keys that are not field names; "
                          "load(save(r)) != r")
    else:
        rep.check("C13.R4", jl, "json-load", len(lo) == 1 and [src(a) for a in lo[0].args] == [jl.params[1]],
                  "json.loads of the given line", "JsonRecord.load does not parse the given string with json.loads",
                  scenario="load(save(r)) fails or differs")


def r5_record_layer(prog, rep: Report):
    rep.rule("C13.R5", "record layer: the record files return record_class.load(<raw line of the next class in the MRO>) for every "
             "concrete class; mutable variants store r.save() (C12.R2)", floor=4)
    fam = Family(prog)
    base = prog.cls("BaseRecordFile", FILES_MOD)
    gi = prog.method(base, fam.item_getter)
    rep.fn(gi)
    n = gi.params[1]
    ok = False
    raw_var = None
    for st in walk_own(gi.node):
        if isinstance(st, ast.Assign) and isinstance(st.value, ast.Call) and isinstance(st.value.func, ast.Attribute) \
                and st.value.func.attr == fam.item_getter and isinstance(st.value.func.value, ast.Call) and src(st.value.func.value.func) == "super" \
                and [src(a) for a in st.value.args] == [n] and isinstance(st.targets[0], ast.Name):
            raw_var = st.targets[0].id
    for r in returns_of(gi.node):
        v = r.value
        if isinstance(v, ast.Call) and src(v.func) == f"{gi.self_name}.record_class.load" and [src(a) for a in v.args] in ([raw_var], [f"super().{fam.item_getter}({n})"]):
            ok = True
    rep.check("C13.R5", gi, "load-of-raw", ok, "returns self.record_class.load(super()._get_item(n))",
              "the record layer does not return record_class.load(<raw line n of the next class>)",
              scenario="record files return raw strings, or load the wrong line")
    rec_classes = [c for c in fam.line_classes if base in (c.mro or [])]
    for c in rec_classes:
        g = prog.resolve(c, fam.item_getter)
        nxt = prog.resolve(c, fam.item_getter, after=base)
        rep.check("C13.R5", (c.relpath, c.short, c.node.lineno), "mro", g is gi and nxt is not None and nxt.cls is not base,
                  f"{c.short}._get_item -> {gi.short} -> {nxt.short if nxt else '?'}",
                  f"{c.short}: the record layer is not the first _get_item in the MRO (raw lines would be returned), or no raw reader follows it",
                  scenario="f[i] returns a str instead of a record (base order of the class swapped)")
    from .c12 import writer_content_ok, record_save_check
    from .c11 import _lines_field
    mut = prog.cls("BaseMutableRandomLineAccessFile", FILES_MOD)
    from .c12 import writer_method
    w = writer_method(prog, mut)
    rep.fn(w)
    record_save_check(prog, rep, "C13.R5", prog.cls("BaseMutableRecordFile", FILES_MOD), w, _lines_field(prog, fam), fam)
    for lp in [n for n in walk_own(w.node) if isinstance(n, ast.For)]:
        for c in ast.walk(lp):
            if isinstance(c, ast.Call) and src(c.func) == "print" and c.args:
                okc, whyc = writer_content_ok(c.args[0], src(lp.target), Flow(w.node))
                if okc is None:
                    rep.unrec("C13.R5", w, "saved-line-unmodified", whyc, c.lineno)
                    continue
                rep.check("C13.R5", w, "saved-line-unmodified", okc, "record lines are written unmodified (only a trailing '\\n' stripped)",
                          whyc, scenario="a TSV record whose last field is empty or ends in blanks: the saved line loses them and the "
                                         "reopened file fails to load the record", line=c.lineno)
    init = prog.method(base, "__init__")
    stores = [st for st in walk_own(init.node) if isinstance(st, ast.Assign) and dotted(st.targets[0]) == (init.self_name, "record_class")
              and src(st.value) == init.params[2]]
    rep.check("C13.R5", init, "record-class", len(stores) == 1, "record_class parameter stored", "record_class is not stored from the constructor parameter",
              scenario="records are loaded with another class")


# ---------------------------------------------------------------------------------------------- R6
def r6_class_keyed(prog, rep: Report, classes: List[Cls]):
    """record classes are meant to be subclassed; whatever a class method remembers about "the class" must be remembered per class"""
    rep.rule("C13.R6", "what the record classes cache about a class is keyed by that class: a class method never stores into an attribute "
             "of cls (`cls.x = ...` is inherited by every subclass: a derived record class would be served its parent's field names, "
             "types or writer), and every subscript of a class-level dict cache uses cls as the key", floor=sum(1 for c in classes if c.methods))
    for c in classes:
        anchor = None
        problems = []
        n_sites = 0
        for f in c.methods.values():
            anchor = anchor or f
            owner = f.params[0] if (f.is_classmethod and f.params) else None
            for n in ast.walk(f.node):
                if isinstance(n, ast.Attribute) and isinstance(n.ctx, (ast.Store, ast.Del)) and isinstance(n.value, ast.Name):
                    via_cls = (owner is not None and n.value.id == owner) or n.value.id in {k.name for k in c.repo_mro()}
                    if via_cls:
                        problems.append((n.lineno, f"{f.name} stores into `{n.value.id}.{n.attr}`: the attribute is found through the MRO, so a "
                                                   "subclass that is used after its parent reads the parent's value"))
                if isinstance(n, ast.Subscript) and isinstance(n.value, ast.Attribute) and isinstance(n.value.value, ast.Name) \
                        and owner is not None and n.value.value.id == owner:
                    # cls.<cache>[key]
                    attr = n.value.attr
                    is_cache = any(isinstance(st, (ast.Assign, ast.AnnAssign)) and isinstance(getattr(st, "value", None), (ast.Dict,))
                                   and any(isinstance(t, ast.Name) and t.id == attr for t in (st.targets if isinstance(st, ast.Assign) else [st.target]))
                                   for k in c.repo_mro() if not k.is_external for st in k.node.body)
                    if is_cache:
                        n_sites += 1
                        if not (isinstance(n.slice, ast.Name) and n.slice.id == owner):
                            problems.append((n.lineno, f"`{src(n)}` in {f.name}: the class-level cache is not subscripted with {owner}"))
        if anchor is None:
            continue
        rep.fn(anchor)
        if problems:
            ln, why = sorted(set(problems))[0]
            rep.viol("C13.R6", anchor, f"class-keyed:{c.name}", why,
                     scenario="class Point3(Point) adds a field; Point is saved first, then Point3: Point3's load drops the added field "
                              "(JSON) or its save raises from DictWriter (CSV)", line=ln)
        else:
            rep.ok("C13.R6", anchor, f"class-keyed:{c.name}", f"{n_sites} cache subscripts, all keyed by the class; no store into an attribute of cls")
