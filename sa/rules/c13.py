"""C13 — records survive save/load and record files are sequences of records (DESIGN.md §6: agreement rules)."""
from __future__ import annotations

import ast
from typing import Dict, List, Optional, Set, Tuple

from ..absint import Client, Ctx, Interp
from ..model import AnalysisError, Cls, Func, Program, walk_own
from ..report import Report
from ..resolve import const_value, dotted, kwarg
from ..util import calls_in, ext_name, norm, returns_of, src
from .filefam import FILES_MOD, Family

DIALECT_KEYS = ("delimiter", "quotechar", "escapechar", "doublequote", "quoting", "skipinitialspace", "strict", "dialect")


def run(prog: Program, rep: Report):
    csvr = prog.cls("CSVRecord", FILES_MOD)
    jsonr = prog.cls("JsonRecord", FILES_MOD)
    record = prog.cls("Record", FILES_MOD)
    r1_dialect(prog, rep, csvr)
    r2_fields(prog, rep, record, csvr, jsonr)
    r3_buffer(prog, rep, csvr)
    r4_one_line(prog, rep, csvr, jsonr)
    r5_record_layer(prog, rep)
    r6_class_keyed(prog, rep, [record, jsonr, csvr] + [c for c in prog.classes.values() if c.mod.name == FILES_MOD and csvr in (c.mro or []) and c is not csvr])


def _csv_calls(prog, cls: Cls):
    """(writer construction, the method that writes a row, reader construction, the method that reads); the methods are taken with
    the class's private helpers inlined (sa/inline.py), and the writing method is the one that calls writerow"""
    w = r = None
    wf = rf = None
    views = [prog.method_view(cls, name) for name in cls.methods]
    for f in views:
        for c in calls_in(f.node):
            n = ext_name(prog, f, c)
            if n in ("csv.DictWriter", "csv.writer"):
                has_row = any(isinstance(x.func, ast.Attribute) and x.func.attr in ("writerow", "writerows") for x in calls_in(f.node))
                if wf is None or has_row:
                    w, wf = c, f
            elif n in ("csv.reader", "csv.DictReader"):
                r, rf = c, f
    return w, wf, r, rf


def r1_dialect(prog, rep: Report, csvr: Cls):
    rep.rule("C13.R1", "dialect agreement: the dialect keywords given to the csv writer and to the csv reader are pairwise "
             "identical expressions or absent on both sides; both take the delimiter from the same class attribute", floor=2)
    w, wf, r, rf = _csv_calls(prog, csvr)
    if w is None or r is None:
        rep.unrec("C13.R1", (csvr.relpath, csvr.short, csvr.node.lineno), "dialect", "csv writer/reader construction not found")
        return
    rep.fn(wf, rf)
    wk = {k.arg: k.value for k in w.keywords if k.arg in DIALECT_KEYS}
    rk = {k.arg: k.value for k in r.keywords if k.arg in DIALECT_KEYS}
    star = [k for k in w.keywords + r.keywords if k.arg is None]
    if star:
        rep.unrec("C13.R1", wf, "dialect", "**kwargs in a csv call: dialect not statically known")
        return
    diffs = []
    for key in sorted(set(wk) | set(rk)):
        a, b = wk.get(key), rk.get(key)
        if a is None or b is None or norm(a) != norm(b):
            diffs.append(f"{key}: writer {src(a) if a is not None else 'default'} / reader {src(b) if b is not None else 'default'}")
    rep.check("C13.R1", wf, "dialect", not diffs, f"writer and reader share the dialect keywords {sorted(wk)}",
              "writer and reader dialects differ: " + "; ".join(diffs),
              scenario="a field containing the delimiter, a quote or leading blanks is split or unquoted differently on load than "
                       "it was written: load(save(r)) != r", line=w.lineno)
    for side, kws, fn_ in (("writer", wk, wf), ("reader", rk, rf)):
        q = kws.get("quoting")
        if q is not None:
            mode = src(q).split(".")[-1]
            rep.check("C13.R1", fn_, f"quoting:{side}", mode in ("QUOTE_MINIMAL", "QUOTE_ALL"),
                      f"{side} quoting {mode} keeps every field a string",
                      f"{side} uses quoting={src(q)}: QUOTE_NONNUMERIC makes the reader return floats for unquoted fields (ints above "
                      f"2**53 lose precision before the field type is applied), QUOTE_NONE cannot represent delimiters/quotes",
                      scenario="a record with the int field 9007199254740993: load(save(r)) gives 9007199254740992", line=q.lineno)
    d = wk.get("delimiter")
    cls_attr = d is not None and isinstance(d, ast.Attribute) and isinstance(d.value, ast.Name) and d.value.id in ("cls", "self")
    rep.check("C13.R1", wf, "delimiter-source", cls_attr, f"delimiter comes from the class attribute {src(d) if d is not None else ''}",
              "the delimiter is not read from a class attribute: the TSV subclass cannot override writer and reader together",
              scenario="TSVRecord writes tabs but reads commas (or vice versa)")


def _comp_filter(f: Func) -> Optional[Tuple[str, str, str]]:
    """(iter source, filter source, element attribute) of the list comprehension cached by a field table method"""
    for n in walk_own(f.node):
        if isinstance(n, ast.ListComp) and len(n.generators) == 1:
            g = n.generators[0]
            return src(g.iter), " and ".join(src(i) for i in g.ifs), src(n.elt)
    return None


def r2_fields(prog, rep: Report, record: Cls, csvr: Cls, jsonr: Cls):
    rep.rule("C13.R2", "field tables agree: field_names()/field_types() range over fields(cls) with the same filter; the writer's "
             "fieldnames, the reader's zip(names, types, row) and the JSON load filter all derive from them", floor=4)
    fn, ft = prog.method(record, "field_names"), prog.method(record, "field_types")
    rep.fn(fn, ft)
    a, b = _comp_filter(fn), _comp_filter(ft)
    ok = a is not None and b is not None and a[0] == b[0] == "fields(cls)" and a[1] == b[1] and a[2].endswith(".name") and b[2].endswith(".type")
    rep.check("C13.R2", fn, "tables", ok, f"names and types over {a[0] if a else '?'} if {a[1] if a else '?'}",
              f"field_names {a} and field_types {b} do not range over fields(cls) with the same filter",
              scenario="a dataclass with an init=False field: names and types get out of step and every later column is "
                       "converted with the wrong type")
    # caches keyed by cls
    for f in (fn, ft):
        keyed = all(isinstance(s.slice, ast.Name) and s.slice.id == "cls" for s in ast.walk(f.node)
                    if isinstance(s, ast.Subscript) and "cache" in src(s.value))
        rep.check("C13.R2", f, "cache-key", keyed, "per-class cache keyed by cls", "the field cache is not keyed by the class",
                  scenario="two record classes share one cached field table")
    w, wf, r, rf = _csv_calls(prog, csvr)
    if w is not None:
        fnames = kwarg(w, "fieldnames", 1)
        rep.check("C13.R2", wf, "writer-fields", fnames is not None and src(fnames) == "cls.field_names()",
                  "writer fieldnames = cls.field_names()", f"writer fieldnames = {src(fnames) if fnames is not None else '?'}",
                  scenario="columns are written in another order than they are read")
    load = prog.method(csvr, "load")
    rep.fn(load)
    zips = [c for c in ast.walk(load.node) if isinstance(c, ast.Call) and src(c.func) == "zip"]
    ok = False
    for z in zips:
        args = [src(x) for x in z.args]
        if len(args) == 3 and args[0] == "cls.field_names()" and args[1] == "cls.field_types()":
            comp = getattr(getattr(z, "_parent", None), "_parent", None)
            if isinstance(comp, ast.DictComp) and isinstance(comp.generators[0].target, ast.Tuple):
                k, t, v = (src(x) for x in comp.generators[0].target.elts)
                ok = src(comp.key) == k and src(comp.value) == f"{t}({v})"
    rep.check("C13.R2", load, "reader-fields", ok, "{name: type(value)} over zip(field_names, field_types, row)",
              "the CSV reader does not build {name: type(value)} from zip(cls.field_names(), cls.field_types(), row)",
              scenario="values are assigned to the wrong field or left as strings: load(save(r)) != r")
    jl = prog.method(jsonr, "load")
    rep.fn(jl)
    ok = any(isinstance(n, ast.DictComp) and len(n.generators) == 1 and len(n.generators[0].ifs) == 1
             and "cls.field_names()" in src(n.generators[0].ifs[0]) and isinstance(n.generators[0].ifs[0], ast.Compare)
             and isinstance(n.generators[0].ifs[0].ops[0], ast.In) and src(n.key) == src(n.generators[0].target.elts[0])
             and src(n.value) == src(n.generators[0].target.elts[1]) for n in ast.walk(jl.node))
    rep.check("C13.R2", jl, "json-fields", ok, "keeps exactly the keys in cls.field_names(), values unmodified",
              "JsonRecord.load does not keep exactly the (key, value) pairs whose key is in cls.field_names()",
              scenario="a field is dropped or renamed on load")


CLEAN, DIRTY, READ, CUT, SOUGHT = "CLEAN", "DIRTY", "READ", "CUT", "SOUGHT"


class _Buf(Client):
    """CLEAN -writerow-> DIRTY -getvalue-> READ -truncate(0)/seek(0) in either order-> CLEAN"""

    def __init__(self, buf_attr: str):
        self.buf = buf_attr
        self.problems: List[Tuple[int, str]] = []
        self.read_var = None

    def should_inline(self, func, call, ctx):
        return False

    def event(self, kind, node, state, ctx):
        if kind != "call" or not isinstance(node, ast.Call) or not isinstance(node.func, ast.Attribute):
            return (state,)
        name = node.func.attr
        recv = node.func.value
        if name == "writerow":
            if state != CLEAN:
                self.problems.append((node.lineno, f"writerow on a buffer in state {state}: the previous row is still in it"))
            return (DIRTY,)
        d = dotted(recv)
        if not (d and d[-1] == self.buf):
            return (state,)
        if name == "getvalue":
            if state != DIRTY:
                self.problems.append((node.lineno, f"getvalue in state {state}"))
            return (READ,)
        if name == "truncate":
            explicit0 = bool(node.args) and const_value(node.args[0]) == 0
            if not explicit0 and not (not node.args and not node.keywords and state == SOUGHT):
                # truncate() with no size cuts at the current position: that is 0 only right after seek(0)
                self.problems.append((node.lineno, "truncate() without the explicit size 0 cuts at the current position (end of the row)"))
            if state == DIRTY:
                self.problems.append((node.lineno, "the buffer is truncated before its content was read"))
            return (CUT if state in (READ,) else CLEAN if state == SOUGHT else state,)
        if name == "seek":
            if not (node.args and const_value(node.args[0]) == 0):
                self.problems.append((node.lineno, "seek to a position other than 0"))
            return (SOUGHT if state == READ else CLEAN if state == CUT else state,)
        return (state,)


def r3_buffer(prog, rep: Report, csvr: Cls):
    rep.rule("C13.R3", "shared buffer protocol (typestate on the class-level StringIO): writerow, getvalue, then truncate(0) and "
             "seek(0) before the function returns the value read; the per-class writer cache is keyed by cls", floor=2)
    w, wf, r, rf = _csv_calls(prog, csvr)
    if w is None:
        rep.unrec("C13.R3", (csvr.relpath, csvr.short, csvr.node.lineno), "buffer", "csv writer not found")
        return
    rep.fn(wf)
    buf = dotted(w.args[0]) if w.args else None
    if not buf:
        rep.unrec("C13.R3", wf, "buffer", "writer target is not a class attribute")
        return
    client = _Buf(buf[-1])
    it = Interp(prog, client)
    ex = it.run(wf, {CLEAN}, csvr)
    finals = ex.normal | ex.ret
    probs = sorted(set(client.problems))
    left = [s for s in finals if s != CLEAN]
    if left:
        probs.append((wf.node.lineno, f"the function can return with the shared buffer in state {sorted(left)} (content or position "
                                      f"not reset)"))
    # returns the value read
    read_vars = [n.targets[0].id for n in walk_own(wf.node) if isinstance(n, ast.Assign) and isinstance(n.value, ast.Call)
                 and isinstance(n.value.func, ast.Attribute) and n.value.func.attr == "getvalue" and isinstance(n.targets[0], ast.Name)]
    rets = returns_of(wf.node)
    if not (read_vars and rets and all(src(rt.value) == read_vars[0] for rt in rets)):
        probs.append((wf.node.lineno, "the function does not return exactly what getvalue() read"))
    rep.check("C13.R3", wf, "buffer", not probs, "writerow, getvalue, truncate(0)+seek(0); returns the value read",
              "; ".join(m for _, m in probs),
              scenario="saving two records in a row: the second save() returns the first row again, both rows, or a string padded "
                       "with NUL characters (truncate(0) without seek(0) leaves the position behind)",
              line=probs[0][0] if probs else None)
    # where does the writer used for writerow come from?  every cached source must be a subscript keyed by cls
    wvar = None
    for n in walk_own(wf.node):
        if isinstance(n, ast.Call) and isinstance(n.func, ast.Attribute) and n.func.attr == "writerow" and isinstance(n.func.value, ast.Name):
            wvar = n.func.value.id
    from ..util import iter_stores
    all_stores = list(iter_stores(wf.node))
    # the names through which the writer travels (w = cls._writer[cls]; result = w; result.writerow(..))
    wnames = {wvar} if wvar else set()
    changed = True
    while changed:
        changed = False
        for t, val, st in all_stores:
            if isinstance(t, ast.Name) and t.id in wnames and isinstance(val, ast.Name) and val.id not in wnames:
                wnames.add(val.id)
                changed = True
    sources = []
    for t, val, st in all_stores:
        if isinstance(t, ast.Name) and t.id in wnames and val is not None and not isinstance(val, ast.Name) \
                and not (isinstance(val, ast.Call) and "csv." in src(val.func)):
            sources.append(val)
    stores = [t for t, val, st in all_stores if isinstance(val, ast.Name) and val.id in wnames and not isinstance(t, ast.Name)]
    def _keyed(e):
        return isinstance(e, ast.Subscript) and isinstance(e.slice, ast.Name) and e.slice.id == "cls"
    keyed = bool(wvar) and all(_keyed(x) for x in sources) and all(_keyed(x) for x in stores) and (bool(sources) or bool(stores))
    rep.check("C13.R3", wf, "writer-cache", keyed, "writer cache keyed by cls", "the writer cache is not keyed by the record class",
              scenario="a TSV record is written with the CSV record's writer (wrong delimiter / field names)")


def r4_one_line(prog, rep: Report, csvr: Cls, jsonr: Cls):
    rep.rule("C13.R4", "one line: json.dumps is called without indent on asdict(self); the CSV save returns exactly what one "
             "writerow produced from asdict(self); the CSV loader parses the single given line", floor=3)
    js = prog.method(jsonr, "save")
    rep.fn(js)
    dumps = [c for c in calls_in(js.node) if ext_name(prog, js, c) == "json.dumps"]
    bad_kw = [k.arg for k in (dumps[0].keywords if dumps else []) if (k.arg == "ensure_ascii" and const_value(k.value, True) is not True)
              or k.arg is None]
    rep.check("C13.R4", js, "json-ascii", len(dumps) == 1 and not bad_kw, "json.dumps keeps ensure_ascii (every character outside ASCII is escaped)",
              f"json.dumps is called with {bad_kw}: U+2028/U+2029/U+0085 are written raw (the record is no longer one line for "
              f"str.splitlines()) and lone surrogates cannot be encoded when the file is saved",
              scenario="a record with the string '\\u2028' or with a lone surrogate (os.fsdecode of a non-UTF-8 name): saving the "
                       "mutable record file raises UnicodeEncodeError / the line is split")
    ok = len(dumps) == 1 and not any(k.arg == "indent" and const_value(k.value, 0) is not None for k in dumps[0].keywords) \
        and src(dumps[0].args[0]) == "asdict(self)" and all(src(r.value) == src(dumps[0]) for r in returns_of(js.node))
    rep.check("C13.R4", js, "json-one-line", ok, "json.dumps(asdict(self)) without indent",
              "JsonRecord.save does not return json.dumps(asdict(self)) without indent",
              scenario="with indent=2 the record occupies several lines: the line-indexed record file is corrupted")
    cs = prog.method(csvr, "save")
    rep.fn(cs)
    _w, wf, _r, _rf = _csv_calls(prog, csvr)
    ok = all(isinstance(r.value, ast.Call) and (wf is not None and src(r.value.func).endswith("." + wf.name)) and [src(a) for a in r.value.args] == ["asdict(self)"]
             for r in returns_of(cs.node)) and bool(returns_of(cs.node))
    rep.check("C13.R4", cs, "csv-one-row", ok, "returns _dict_to_string(asdict(self))", "CSVRecord.save does not return the single written row",
              scenario="save() returns something the loader cannot parse back")
    load = prog.method(csvr, "load")
    s = load.params[1]
    rd = [c for c in calls_in(load.node) if ext_name(prog, load, c) == "csv.reader"]
    ok = len(rd) == 1 and src(rd[0].args[0]) == f"[{s}]"
    rep.check("C13.R4", load, "csv-load-one-line", ok, f"csv.reader([{s}]) parses exactly the given line",
              "the CSV loader does not parse exactly the one given line", scenario="load() reads a different text than save() produced")
    # on every path the row comes from the csv reader: a hand-written split of the line is not the inverse of the csv writer
    # (quoting aside, csv keeps trailing blanks and empty trailing fields that str.split()/strip() variants drop)
    def has_reader(e) -> bool:
        return any(isinstance(x, ast.Call) and ext_name(prog, load, x) == "csv.reader" for x in ast.walk(e))

    def arms(e):
        if isinstance(e, ast.IfExp):
            return arms(e.body) + arms(e.orelse)
        return [e]
    row_vars = {t.id for n in walk_own(load.node) if isinstance(n, ast.Assign) and has_reader(n.value)
                for t in n.targets if isinstance(t, ast.Name)}
    bypass = []
    for n in walk_own(load.node):
        if isinstance(n, ast.Assign) and any(isinstance(t, ast.Name) and t.id in row_vars for t in n.targets):
            for a in arms(n.value):
                if not has_reader(a):
                    bypass.append((n.lineno, src(a)))
    if rd:
        rep.check("C13.R4", load, "csv-load-always-reader", not bypass, "the parsed row comes from csv.reader on every path",
                  f"on some path the row is produced by `{bypass[0][1] if bypass else ''}` instead of csv.reader: not the inverse of "
                  "the csv writer", scenario="a TSV record whose last string field ends in blanks (or is empty) loses them on load",
                  line=bypass[0][0] if bypass else None)
    jl = prog.method(jsonr, "load")
    rep.fn(jl)
    lo = [c for c in calls_in(jl.node) if ext_name(prog, jl, c) == "json.loads"]
    rep.check("C13.R4", jl, "json-load", len(lo) == 1 and [src(a) for a in lo[0].args] == [jl.params[1]],
              "json.loads of the given line", "JsonRecord.load does not parse the given string with json.loads",
              scenario="load(save(r)) fails or differs")


def r5_record_layer(prog, rep: Report):
    rep.rule("C13.R5", "record layer: the record files return record_class.load(<raw line of the next class in the MRO>) for every "
             "concrete class; mutable variants store r.save() (C12.R2)", floor=4)
    fam = Family(prog)
    base = prog.cls("BaseRecordFile", FILES_MOD)
    gi = prog.method(base, fam.item_getter)
    rep.fn(gi)
    n = gi.params[1]
    ok = False
    raw_var = None
    for st in walk_own(gi.node):
        if isinstance(st, ast.Assign) and isinstance(st.value, ast.Call) and isinstance(st.value.func, ast.Attribute) \
                and st.value.func.attr == fam.item_getter and isinstance(st.value.func.value, ast.Call) and src(st.value.func.value.func) == "super" \
                and [src(a) for a in st.value.args] == [n] and isinstance(st.targets[0], ast.Name):
            raw_var = st.targets[0].id
    for r in returns_of(gi.node):
        v = r.value
        if isinstance(v, ast.Call) and src(v.func) == f"{gi.self_name}.record_class.load" and [src(a) for a in v.args] in ([raw_var], [f"super().{fam.item_getter}({n})"]):
            ok = True
    rep.check("C13.R5", gi, "load-of-raw", ok, "returns self.record_class.load(super()._get_item(n))",
              "the record layer does not return record_class.load(<raw line n of the next class>)",
              scenario="record files return raw strings, or load the wrong line")
    rec_classes = [c for c in fam.line_classes if base in (c.mro or [])]
    for c in rec_classes:
        g = prog.resolve(c, fam.item_getter)
        nxt = prog.resolve(c, fam.item_getter, after=base)
        rep.check("C13.R5", (c.relpath, c.short, c.node.lineno), "mro", g is gi and nxt is not None and nxt.cls is not base,
                  f"{c.short}._get_item -> {gi.short} -> {nxt.short if nxt else '?'}",
                  f"{c.short}: the record layer is not the first _get_item in the MRO (raw lines would be returned), or no raw reader follows it",
                  scenario="f[i] returns a str instead of a record (base order of the class swapped)")
    from .c12 import writer_content_ok, record_save_check
    from .c11 import _lines_field
    mut = prog.cls("BaseMutableRandomLineAccessFile", FILES_MOD)
    from .c12 import writer_method
    w = writer_method(prog, mut)
    rep.fn(w)
    record_save_check(prog, rep, "C13.R5", prog.cls("BaseMutableRecordFile", FILES_MOD), w, _lines_field(prog, fam))
    for lp in [n for n in walk_own(w.node) if isinstance(n, ast.For)]:
        for c in ast.walk(lp):
            if isinstance(c, ast.Call) and src(c.func) == "print" and c.args:
                okc, whyc = writer_content_ok(c.args[0], src(lp.target))
                rep.check("C13.R5", w, "saved-line-unmodified", okc, "record lines are written unmodified (only a trailing '\\n' stripped)",
                          whyc, scenario="a TSV record whose last field is empty or ends in blanks: the saved line loses them and the "
                                         "reopened file fails to load the record", line=c.lineno)
    init = prog.method(base, "__init__")
    stores = [st for st in walk_own(init.node) if isinstance(st, ast.Assign) and dotted(st.targets[0]) == (init.self_name, "record_class")
              and src(st.value) == init.params[2]]
    rep.check("C13.R5", init, "record-class", len(stores) == 1, "record_class parameter stored", "record_class is not stored from the constructor parameter",
              scenario="records are loaded with another class")


# ---------------------------------------------------------------------------------------------- R6
def r6_class_keyed(prog, rep: Report, classes: List[Cls]):
    """record classes are meant to be subclassed; whatever a class method remembers about "the class" must be remembered per class"""
    rep.rule("C13.R6", "what the record classes cache about a class is keyed by that class: a class method never stores into an attribute "
             "of cls (`cls.x = ...` is inherited by every subclass: a derived record class would be served its parent's field names, "
             "types or writer), and every subscript of a class-level dict cache uses cls as the key", floor=sum(1 for c in classes if c.methods))
    for c in classes:
        anchor = None
        problems = []
        n_sites = 0
        for f in c.methods.values():
            anchor = anchor or f
            owner = f.params[0] if (f.is_classmethod and f.params) else None
            for n in ast.walk(f.node):
                if isinstance(n, ast.Attribute) and isinstance(n.ctx, (ast.Store, ast.Del)) and isinstance(n.value, ast.Name):
                    via_cls = (owner is not None and n.value.id == owner) or n.value.id in {k.name for k in c.repo_mro()}
                    if via_cls:
                        problems.append((n.lineno, f"{f.name} stores into `{n.value.id}.{n.attr}`: the attribute is found through the MRO, so a "
                                                   "subclass that is used after its parent reads the parent's value"))
                if isinstance(n, ast.Subscript) and isinstance(n.value, ast.Attribute) and isinstance(n.value.value, ast.Name) \
                        and owner is not None and n.value.value.id == owner:
                    # cls.<cache>[key]
                    attr = n.value.attr
                    is_cache = any(isinstance(st, (ast.Assign, ast.AnnAssign)) and isinstance(getattr(st, "value", None), (ast.Dict,))
                                   and any(isinstance(t, ast.Name) and t.id == attr for t in (st.targets if isinstance(st, ast.Assign) else [st.target]))
                                   for k in c.repo_mro() if not k.is_external for st in k.node.body)
                    if is_cache:
                        n_sites += 1
                        if not (isinstance(n.slice, ast.Name) and n.slice.id == owner):
                            problems.append((n.lineno, f"`{src(n)}` in {f.name}: the class-level cache is not subscripted with {owner}"))
        if anchor is None:
            continue
        rep.fn(anchor)
        if problems:
            ln, why = sorted(set(problems))[0]
            rep.viol("C13.R6", anchor, f"class-keyed:{c.name}", why,
                     scenario="class Point3(Point) adds a field; Point is saved first, then Point3: Point3's load drops the added field "
                              "(JSON) or its save raises from DictWriter (CSV)", line=ln)
        else:
            rep.ok("C13.R6", anchor, f"class-keyed:{c.name}", f"{n_sites} cache subscripts, all keyed by the class; no store into an attribute of cls")
