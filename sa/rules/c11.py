"""C11 — line files: indexing, slicing and iteration return exactly the file's lines (DESIGN.md §6)."""
from __future__ import annotations

import ast
from typing import Dict, List, Optional, Set

from ..flow import Flow
from ..model import AnalysisError, Cls, Func, Program, walk_own
from ..report import Report
from ..resolve import const_value, dotted, kwarg
from ..util import before, calls_in, ext_name, iter_stores, open_mode, returns_of, src
from .filefam import Family, run_typestate


def run(prog: Program, rep: Report, include_mixins: bool = True):
    fam = Family(prog)
    rep.count("classes", len(fam.line_classes))
    rep.attempt(lambda: r1_newline(prog, rep, fam))
    rep.attempt(lambda: r2_cursor(prog, rep, fam, include_mixins))
    rep.attempt(lambda: r3_terminator(prog, rep, fam))
    rep.attempt(lambda: r3b_raw_reader(prog, rep, fam))
    rep.attempt(lambda: r4_dispatch(prog, rep, fam))
    rep.attempt(lambda: r5_index(prog, rep, fam))
    rep.attempt(lambda: r6_derived(prog, rep, fam, include_mixins))
    from .mixins import MIXIN_METHODS, rule_fresh_iterator, rule_mixin_surface
    rep.attempt(lambda: rule_mixin_surface(prog, rep, "C11.R7", fam.line_classes, analysed={(fam.base.name, "__iter__")},
                                           names=set(MIXIN_METHODS["Sequence"])))
    rep.attempt(lambda: rule_fresh_iterator(prog, rep, "C11.R8", [fam.base]))
    rep.attempt(lambda: r9_index_source(prog, rep, fam))


# ---------------------------------------------------------------------------------------------- R1
def data_path_field(prog: Program, fam: Family) -> str:
    """field holding the data file's path: the argument of the binary-mode open in the index builder"""
    for c in fam.line_classes:
        for k in c.repo_mro():
            for f in k.methods.values():
                if f.self_name is None:
                    continue
                tells = [c2 for c2 in calls_in(f.node) if isinstance(c2.func, ast.Attribute) and c2.func.attr == "tell"]
                for c2 in calls_in(f.node):
                    if ext_name(prog, f, c2) == "open" and tells and (open_mode(c2) or "").find("b") >= 0 and c2.args:
                        d = dotted(c2.args[0])
                        if d and len(d) == 2 and d[0] == f.self_name:
                            return d[1]
    b = _builder_by_table(prog, fam)
    if b is not None:
        return b[1]
    raise AnalysisError("index builder (binary open + tell) not found in the line-file family")


def _builder_by_table(prog: Program, fam: Family):
    """(method, path field) of the method that opens self.<path> and fills the offset table (whatever way it computes the offsets)"""
    try:
        lines_field = _lines_field(prog, fam)
    except AnalysisError:
        return None
    for c in fam.line_classes:
        for k in c.repo_mro():
            for f in k.methods.values():
                if f.self_name is None or f.name in ("__init__", "open", "__enter__"):
                    continue
                writes = any(isinstance(n, ast.Attribute) and n.attr == lines_field and isinstance(n.value, ast.Name)
                             and n.value.id == f.self_name and isinstance(n.ctx, ast.Store) for n in ast.walk(f.node))
                if not writes:
                    continue
                for c2 in calls_in(f.node):
                    if ext_name(prog, f, c2) == "open" and c2.args:
                        d = dotted(c2.args[0])
                        if d and len(d) == 2 and d[0] == f.self_name:
                            return f, d[1]
    return None


def r1_newline(prog, rep: Report, fam: Family):
    rep.rule("C11.R1", "one definition of 'line': the index is built by a binary scan (line ends at \\n only), so "
             "every text-mode open of the data file must pass newline='\\n'", floor=1)
    path_field = data_path_field(prog, fam)
    seen = set()
    for c in fam.line_classes:
        for k in c.repo_mro():
            for f in k.methods.values():
                if f in seen or f.self_name is None or k.is_external:
                    continue
                seen.add(f)
                for call in calls_in(f.node):
                    if ext_name(prog, f, call) != "open" or not call.args:
                        continue
                    d = dotted(call.args[0])
                    if not (d and d == (f.self_name, path_field)):
                        continue
                    rep.fn(f)
                    mode = open_mode(call)
                    if mode is None:
                        rep.unrec("C11.R1", f, "open:mode", f"mode of open() not a literal: {src(call)}", call.lineno)
                        continue
                    role = f"open:{'binary' if 'b' in mode else 'text'}"
                    if "b" in mode:
                        rep.ok("C11.R1", f, role, "binary open needs no newline argument", nontrivial=False)
                        continue
                    nl = kwarg(call, "newline", 5)
                    if nl is not None and const_value(nl, object()) == "\n":
                        rep.ok("C11.R1", f, role, "text open with newline='\\n'")
                    else:
                        rep.viol("C11.R1", f, role,
                                 f"text-mode open of the data file without newline='\\n': {src(call)}",
                                 scenario="file b'a\\rb\\nc\\r\\n': the binary index says 2 lines ('a\\rb', 'c\\r'); the text "
                                          "handle ends lines at \\r too and rewrites \\r\\n, so f[0] == 'a' and the "
                                          "memory-mapped variant disagrees", line=call.lineno)


# ---------------------------------------------------------------------------------------------- R2
def r2_cursor(prog, rep: Report, fam: Family, include_mixins: bool):
    rep.rule("C11.R2", "cursor typestate: every read of the shared handle is preceded, on all paths since function "
             "entry or the last yield, by a seek (entry/yield set the cursor UNKNOWN)", floor=20)
    results, stats = run_typestate(prog, fam, include_mixins)
    rep.count("entry_points", stats["entry_points"])
    rep.count("abstract_states", stats["abstract_states"])
    rep.count("events", stats["events"])
    rep.count("handle_access_sites", len(stats["handle_sites"]))
    for u in stats["unrecognised"]:
        rep.error(f"C11.R2 interpreter: {u}")
    if len(stats["handle_sites"]) < 4:
        rep.error(f"C11.R2: only {len(stats['handle_sites'])} handle access sites reached (floor 4)")
    bad: Dict[tuple, dict] = {}
    for c, f, fd in results:
        if fd["what"] != "cursor" or c is fam.map_file:
            continue
        key = (f, fd["site"])
        b = bad.setdefault(key, {"classes": [], **fd})
        b["classes"].append(c.short)
    entries: Dict[Func, Set[str]] = {}
    for c in fam.line_classes:
        for f in fam.entry_points(c, include_mixins):
            entries.setdefault(f, set()).add(c.short)
    for f, classes in sorted(entries.items(), key=lambda kv: kv[0].qual):
        rep.fn(f)
        mine = [(k, v) for k, v in bad.items() if k[0] is f]
        if not mine:
            rep.ok("C11.R2", f, "cursor", f"all reads positioned ({len(classes)} concrete classes)")
        for (ff, site), b in mine:
            rep.viol("C11.R2", (b["file"], f.short, b["line"]), f"cursor:{site}",
                     f"read at {b['file']}:{b['line']} ({site}) reached with cursor UNKNOWN via "
                     f"{' -> '.join(b['chain'])}; classes: {', '.join(sorted(set(b['classes'])))}",
                     witness={"chain": b["chain"], "classes": sorted(set(b["classes"]))},
                     scenario="it = iter(f); next(it); f[3]; list(it) -> the rest of the iteration reads from wherever "
                              "f[3] left the cursor; two interleaved iterators share one cursor; a caller-supplied "
                              "offset index ([6, 0]) is ignored by the sequential read", line=b["line"])


# ---------------------------------------------------------------------------------------------- R3
STRIP_OK = {"rstrip", "removesuffix"}


def r3_terminator(prog, rep: Report, fam: Family, rule: str = "C11.R3"):
    rep.rule(rule, "terminator removal strips exactly one trailing '\\n' from what readline() returned "
             "(siblings agree); strip()/rstrip()/rstrip('\\r\\n') eat characters that belong to the line", floor=2)
    seen = set()
    for c in fam.line_classes:
        f = prog.resolve(c, fam.next_reader)
        if f is None or f in seen:
            continue
        seen.add(f)
        f = prog.resolve_view(c, fam.next_reader) or f       # private helpers inlined (an accessor that hands out the handle)
        rep.fn(f)
        handles = fam.handles[c.qual]
        flow = Flow(f.node)
        rets = returns_of(f.node)
        if not rets:
            rep.unrec(rule, f, "return", "no return statement")
            continue
        for r in rets:
            e = flow.expand(r.value) if r.value is not None else None
            # line[:-1] if line.endswith("\n") else line      (line = <handle>.readline()[.decode()]): exactly one terminator removed
            if isinstance(e, ast.IfExp) and isinstance(e.test, ast.Call) and isinstance(e.test.func, ast.Attribute) \
                    and e.test.func.attr == "endswith" and len(e.test.args) == 1 and const_value(e.test.args[0], None) in ("\n", b"\n") \
                    and isinstance(e.body, ast.Subscript) and isinstance(e.body.slice, ast.Slice) and e.body.slice.lower is None \
                    and const_value(e.body.slice.upper, None) == -1 and e.body.slice.step is None \
                    and src(e.body.value) == src(e.test.func.value) == src(e.orelse):
                base_ = flow.expand(e.orelse) if isinstance(e.orelse, ast.Name) else e.orelse
                chain_ok = False
                b_ = base_
                while isinstance(b_, ast.Call) and isinstance(b_.func, ast.Attribute):
                    if b_.func.attr == "readline":
                        d_ = dotted(flow.expand(b_.func.value))
                        chain_ok = bool(d_) and len(d_) == 2 and d_[0] == f.self_name and d_[1] in handles
                        break
                    if b_.func.attr != "decode":
                        break
                    b_ = flow.expand(b_.func.value)
                if chain_ok:
                    rep.ok(rule, f, "return", f"last character sliced off under an endswith guard: {src(e)}")
                    continue
            ops = []
            ok_shape = True
            sliced = None
            # peel subscripts: x[:-1] on the line is an unconditional removal of the last character
            probe = e
            while isinstance(probe, (ast.Call, ast.Subscript)):
                if isinstance(probe, ast.Subscript):
                    sliced = probe
                    break
                if isinstance(probe.func, ast.Attribute):
                    probe = flow.expand(probe.func.value)
                else:
                    break
            if sliced is not None and isinstance(sliced.slice, ast.Slice):
                guard = None
                p_ = getattr(sliced, "_parent", None)
                while p_ is not None and not isinstance(p_, ast.stmt):
                    if isinstance(p_, ast.IfExp) and "endswith" in src(p_.test):
                        guard = p_
                    p_ = getattr(p_, "_parent", None)
                st_ = p_
                while st_ is not None and not isinstance(st_, (ast.FunctionDef,)):
                    if isinstance(st_, ast.If) and "endswith" in src(st_.test):
                        guard = st_
                    st_ = getattr(st_, "_parent", None)
                rep.check(rule, f, "return", guard is not None,
                          f"last character sliced off under an endswith guard: {src(r.value)}",
                          f"`{src(sliced)}` cuts the last character unconditionally: an unterminated last line loses a character "
                          f"(in the memory-mapped variant possibly half of a multi-byte character)",
                          scenario="file content 'a\nbb\nccc' (no final newline): the last line reads as 'cc'", line=r.lineno)
                continue
            while isinstance(e, ast.Call) and isinstance(e.func, ast.Attribute):
                recv = flow.expand(e.func.value)
                d = dotted(recv)
                if isinstance(recv, ast.Call) and isinstance(recv.func, ast.Attribute) and dotted(recv.func.value) == (f.self_name,):
                    # an accessor of this class that hands out the handle: self.<m>() with every return `self.<handle>`
                    acc = prog.resolve(c, recv.func.attr)
                    if acc is not None and acc.self_name is not None:
                        rs = [dotted(r_.value) for r_ in returns_of(acc.node) if r_.value is not None]
                        if rs and all(x and len(x) == 2 and x[0] == acc.self_name and x[1] in handles for x in rs):
                            d = (f.self_name, rs[0][1])
                if e.func.attr == "readline" and d and len(d) == 2 and d[0] == f.self_name and d[1] in handles:
                    break
                ops.append(e)
                e = flow.expand(e.func.value)
            else:
                ok_shape = False
            if not ok_shape:
                rep.unrec(rule, f, "return", f"returned value is not a method chain over <handle>.readline(): "
                          f"{src(r.value)}", r.lineno)
                continue
            verdict, why = True, []
            strips = 0
            for op in ops:
                name = op.func.attr
                if name == "decode":
                    continue
                if name in STRIP_OK:
                    arg = const_value(op.args[0], None) if len(op.args) == 1 else None
                    if arg in ("\n", b"\n"):
                        strips += 1
                        continue
                    verdict = False
                    why.append(f"{name}({', '.join(src(a) for a in op.args)}) removes more than one '\\n' terminator")
                elif name in ("strip", "lstrip", "splitlines", "replace", "translate"):
                    verdict = False
                    why.append(f"{name}() alters line content")
                else:
                    rep.unrec(rule, f, "return", f"unclassified string operation .{name}()", r.lineno)
                    verdict = None
                    break
            if verdict is None:
                continue
            if verdict and strips == 0 and all(o.func.attr == "decode" for o in ops) and _under_no_terminator_guard(r):
                rep.ok(rule, f, "return", f"`{src(r)}` on the path where the line read does not end with '\\n': nothing to remove")
                continue
            if verdict and strips == 0:
                verdict = False
                why.append("the terminator is never removed")
            rep.check(rule, f, "return", bool(verdict), f"readline() result post-processed by {src(r.value)}",
                      "; ".join(why) + f": {src(r.value)}",
                      scenario="a line 'x  ' or 'x\\r' (binary index: terminator is '\\n' only) loses its trailing "
                               "blanks / carriage return", line=r.lineno)


def _under_no_terminator_guard(r: ast.Return) -> bool:
    """`return v` reached only when `v.endswith("\\n")` is false: it follows, in its block, an `if v.endswith("\\n"): ... return`
    without else, or sits in the else arm of such a test (v the returned name)"""
    if not isinstance(r.value, ast.Name):
        return False
    v = r.value.id

    def is_test(t) -> bool:
        return isinstance(t, ast.Call) and isinstance(t.func, ast.Attribute) and t.func.attr == "endswith" and len(t.args) == 1 \
            and isinstance(t.func.value, ast.Name) and t.func.value.id == v and const_value(t.args[0], None) in ("\n", b"\n")
    child, par = r, getattr(r, "_parent", None)
    while par is not None and not isinstance(par, (ast.FunctionDef, ast.AsyncFunctionDef)):
        if isinstance(par, ast.If) and child in par.orelse and is_test(par.test):
            return True
        for fld in ("body", "orelse", "finalbody"):
            blk = getattr(par, fld, None)
            if isinstance(blk, list) and child in blk:
                for prev in blk[:blk.index(child)]:
                    if isinstance(prev, ast.If) and not prev.orelse and is_test(prev.test) and prev.body \
                            and isinstance(prev.body[-1], (ast.Return, ast.Raise)):
                        return True
        child, par = par, getattr(par, "_parent", None)
    if isinstance(par, (ast.FunctionDef, ast.AsyncFunctionDef)) and child in par.body:
        for prev in par.body[:par.body.index(child)]:
            if isinstance(prev, ast.If) and not prev.orelse and is_test(prev.test) and prev.body \
                    and isinstance(prev.body[-1], (ast.Return, ast.Raise)):
                return True
    return False


def r3b_raw_reader(prog, rep: Report, fam: Family, rule: str = "C11.R3"):
    """every raw line read goes through seek + the (checked) next-line reader; direct slicing of the handle is examined"""
    seen = set()
    for c in fam.line_classes:
        f = prog.resolve(c, fam.raw_reader)
        if f is None or f in seen or f.is_abstract:
            continue
        seen.add(f)
        fv = prog.resolve_view(c, fam.raw_reader) or f         # a helper that computes the end of the line is read in place
        rep.fn(f)
        handles = fam.handles[c.qual]
        direct = []
        for n in walk_own(f.node):
            if isinstance(n, ast.Subscript) and isinstance(n.ctx, ast.Load):
                d = dotted(n.value)
                if d and len(d) == 2 and d[0] == f.self_name and d[1] in handles:
                    direct.append(n)
            if isinstance(n, ast.Call) and isinstance(n.func, ast.Attribute) and n.func.attr in ("read", "readlines", "readline"):
                d = dotted(n.func.value)
                if d and len(d) == 2 and d[0] == f.self_name and d[1] in handles:
                    direct.append(n)
        rets = returns_of(f.node)
        rflow = Flow(f.node)

        def _delegating(v) -> bool:
            if isinstance(v, ast.Name):
                v = rflow.expand(v)                       # line = self._read_next_line(); ...; return line
            return isinstance(v, ast.Call) and isinstance(v.func, ast.Attribute) and v.func.attr == fam.next_reader \
                and isinstance(v.func.value, ast.Name) and v.func.value.id == f.self_name

        def _no_read(v) -> bool:
            # a value handed out without touching the file (a remembered line: whether it is current is the derived-state rule's business)
            return v is not None and not any(isinstance(x, ast.Call) for x in ast.walk(v)) and isinstance(v, (ast.Subscript, ast.Attribute))
        delegates = bool(rets) and any(_delegating(r.value) for r in rets) and all(_delegating(r.value) or _no_read(r.value) for r in rets)
        if delegates and not direct:
            rep.ok(rule, f, "raw-reader", "reads through seek + the checked next-line reader")
            continue
        vflow = Flow(fv.node)
        from ..util import expand_all
        sliced = [n for n in walk_own(fv.node) if isinstance(n, ast.Subscript) and isinstance(n.ctx, ast.Load) and dotted(n.value)
                  and len(dotted(n.value)) == 2 and dotted(n.value)[0] == fv.self_name and dotted(n.value)[1] in handles]
        bad_find = [n for n in sliced if isinstance(n.slice, ast.Slice) and n.slice.upper is not None
                    and any(isinstance(x, ast.Call) and isinstance(x.func, ast.Attribute) and x.func.attr in ("find", "index")
                            for x in ast.walk(expand_all(n.slice.upper, vflow)))          # end = mm.find(b"\n", start); mm[start:end]
                    and not any(isinstance(t, ast.Compare) and "-1" in src(t) for t in ast.walk(fv.node))]
        if bad_find:
            rep.viol(rule, f, "raw-reader", f"`{src(bad_find[0])}` slices the mapping up to find(...): find returns -1 when the last "
                     f"line has no terminator, so the slice drops the last byte of the file",
                     scenario="file content 'a\\nbb\\nccc' (no final newline) read through a memory-mapped variant: the last line is 'cc'",
                     line=bad_find[0].lineno)
        else:
            rep.unrec(rule, f, "raw-reader", "the raw reader neither delegates to seek + next-line reader nor uses a recognised idiom")


# ---------------------------------------------------------------------------------------------- R4
def r4_dispatch(prog, rep: Report, fam: Family):
    rep.rule("C11.R4", "selector dispatch by delegation: int -> item reader with the unmodified index; slice -> "
             "range(len(self))[slice] / slice.indices; other iterable element-wise; index reaches _lines[n] unmodified",
             floor=3)
    seen = set()
    for c in fam.line_classes:
        g = prog.resolve(c, "__getitem__")
        if g is None or g in seen:
            continue
        seen.add(g)
        g = prog.resolve_view(c, "__getitem__") or g       # private helpers inlined (sa/inline.py)
        rep.fn(g)
        if len(g.params) < 2:
            rep.unrec("C11.R4", g, "selector", "no selector parameter")
            continue
        sel = g.params[1]
        flow = Flow(g.node)
        direct, elementwise, bad = [], [], []
        slice_mapped = False
        for call in calls_in(g.node):
            if not (isinstance(call.func, ast.Attribute) and call.func.attr == fam.item_getter
                    and isinstance(call.func.value, ast.Name) and call.func.value.id == g.self_name and call.args):
                continue
            a = call.args[0]
            if not isinstance(a, ast.Name):
                bad.append((call, f"index expression {src(a)} is computed, not passed through"))
                continue
            defs = flow.defs_of(a)
            kinds = {d.kind for d in defs}
            if kinds == {"param"} and all(d.name == sel for d in defs):
                direct.append(call)
                continue
            if kinds <= {"comp", "for"} and defs:
                ok = True
                for d in defs:
                    it = d.value
                    srcs = _iter_sources(it, flow, sel, g.self_name)
                    if srcs is None:
                        ok = False
                        bad.append((call, f"iterates {src(it)}, which is not the selector or its slice mapping"))
                    else:
                        slice_mapped = slice_mapped or "slice" in srcs
                if ok:
                    elementwise.append(call)
                continue
            bad.append((call, f"index {src(a)} has unrecognised origin {sorted(kinds)}"))
        isinst = set()
        for n in walk_own(g.node):
            if isinstance(n, ast.Call) and isinstance(n.func, ast.Name) and n.func.id == "isinstance" and len(n.args) == 2 \
                    and isinstance(n.args[0], ast.Name) and n.args[0].id == sel:
                t = n.args[1]
                for x in (t.elts if isinstance(t, ast.Tuple) else [t]):
                    isinst.add(src(x))
        def through_helper(call_, why_) -> bool:
            """the index comes out of a private helper of the class that was not inlined: not in view"""
            return "iterates " in why_ and any(isinstance(x, ast.Call) and isinstance(x.func, ast.Attribute) and x.func.attr.startswith("_")
                                               and isinstance(x.func.value, ast.Name) and x.func.value.id == g.self_name
                                               for n_ in ast.walk(g.node) if isinstance(n_, (ast.For, ast.comprehension))
                                               for x in ast.walk(n_.iter))
        for call, why in [b_ for b_ in bad if through_helper(*b_)]:
            rep.unrec("C11.R4", g, "selector:modified", why + " (a helper of the class computes the indexes)", call.lineno)
        helper_hidden = any(through_helper(*b_) for b_ in bad)
        bad = [b_ for b_ in bad if not through_helper(*b_)]
        for call, why in bad:
            rep.viol("C11.R4", g, "selector:modified", why, scenario="f[i] / f[a:b] / f[[i, j]] select a different line "
                     "than list(f)[...]", line=call.lineno)
        rep.check("C11.R4", g, "selector:int", bool(direct) and "int" in isinst,
                  "int selector forwarded unmodified to the item reader",
                  "no path forwards the plain selector to the item reader under an isinstance(selector, int) dispatch",
                  scenario="f[i] for an int i")
        if helper_hidden and not slice_mapped:
            rep.unrec("C11.R4", g, "selector:slice", "the selector is translated by a helper of the class that was not inlined")
            rep.unrec("C11.R4", g, "selector:iterable", "the selector is translated by a helper of the class that was not inlined")
            continue
        rep.check("C11.R4", g, "selector:slice", slice_mapped and "slice" in isinst,
                  "slice mapped through range(len(self))[slice] / slice.indices(len(self))",
                  "slice selector is not mapped through range(len(self))[selector] or selector.indices(len(self))",
                  scenario="f[1:-1], f[::-2] must select like a list")
        rep.check("C11.R4", g, "selector:iterable", bool(elementwise), "other iterables are mapped element-wise",
                  "no element-wise mapping of an iterable selector", scenario="f[[3, 1, 2]]")
    # index reaches _lines[n] unmodified in the raw readers
    lines_field = _lines_field(prog, fam)
    seen = set()
    for c in fam.line_classes:
        for name in (fam.raw_reader, fam.item_getter):
            for k in c.repo_mro():
                f = k.methods.get(name)
                if f is None or f in seen or f.is_abstract or len(f.params) < 2:
                    continue
                seen.add(f)
                n = f.params[1]
                flow = Flow(f.node)
                for sub in walk_own(f.node):
                    if isinstance(sub, ast.Subscript) and dotted(sub.value) == (f.self_name, lines_field):
                        rep.fn(f)
                        idx = sub.slice
                        good = isinstance(idx, ast.Name) and flow.origin_is_param(idx, n)
                        rep.check("C11.R4", f, f"index:{lines_field}", good,
                                  f"self.{lines_field}[{src(idx)}] uses the unmodified index parameter",
                                  f"self.{lines_field}[{src(idx)}]: the index is not the unmodified parameter {n!r}",
                                  scenario="negative and positive indices must follow list semantics of the offset "
                                           "table; f[i] returns another line", line=sub.lineno)


def _iter_sources(it: ast.expr, flow: Flow, sel: str, self_name) -> Optional[Set[str]]:
    """classify what a loop iterates over: {'selector'} and/or {'slice'}; None if something else"""
    out: Set[str] = set()
    if isinstance(it, ast.Name):
        defs = flow.defs_of(it)
        if not defs:
            return None
        for d in defs:
            if d.kind == "param" and d.name == sel:
                out.add("selector")
            elif d.kind == "assign":
                sub = _iter_sources(d.value, flow, sel, self_name)
                if sub is None:
                    return None
                out |= sub
            else:
                return None
        return out
    if _is_slice_mapping(it, sel, self_name):
        return {"slice"}
    # start, stop, step = selector.indices(len(self));  range(start, stop, step)
    if isinstance(it, ast.Call) and isinstance(it.func, ast.Name) and it.func.id == "range" and len(it.args) == 3 and not it.keywords \
            and all(isinstance(a, ast.Name) for a in it.args):
        ds = [flow.single_def(a) for a in it.args]
        if all(d is not None and d.kind == "unpack" and d.index is not None and tuple(d.index) == (k,) for k, d in enumerate(ds)) \
                and len({id(d.value) for d in ds}) == 1:
            v = ds[0].value
            if isinstance(v, ast.Call) and isinstance(v.func, ast.Attribute) and v.func.attr == "indices" \
                    and isinstance(v.func.value, ast.Name) and v.func.value.id == sel and len(v.args) == 1 and _is_len_self(v.args[0], self_name):
                return {"slice"}
    if isinstance(it, ast.IfExp):
        a, b = _iter_sources(it.body, flow, sel, self_name), _iter_sources(it.orelse, flow, sel, self_name)
        if a is None or b is None:
            return None
        return a | b
    return None


def _is_len_self(e, self_name) -> bool:
    return isinstance(e, ast.Call) and isinstance(e.func, ast.Name) and e.func.id == "len" and len(e.args) == 1 \
        and isinstance(e.args[0], ast.Name) and e.args[0].id == self_name


def _is_slice_mapping(e: ast.expr, sel: str, self_name) -> bool:
    # range(len(self))[selector]
    if isinstance(e, ast.Subscript) and isinstance(e.slice, ast.Name) and e.slice.id == sel:
        v = e.value
        if isinstance(v, ast.Call) and isinstance(v.func, ast.Name) and v.func.id == "range" and len(v.args) == 1 \
                and _is_len_self(v.args[0], self_name):
            return True
    # range(*selector.indices(len(self)))
    if isinstance(e, ast.Call) and isinstance(e.func, ast.Name) and e.func.id == "range" and len(e.args) == 1 \
            and isinstance(e.args[0], ast.Starred):
        v = e.args[0].value
        if isinstance(v, ast.Call) and isinstance(v.func, ast.Attribute) and v.func.attr == "indices" \
                and isinstance(v.func.value, ast.Name) and v.func.value.id == sel and len(v.args) == 1 \
                and _is_len_self(v.args[0], self_name):
            return True
    return False


def _lines_field(prog, fam: Family) -> str:
    f = prog.resolve(fam.line_classes[0], "__len__")
    if f is not None:
        for r in returns_of(f.node):
            v = r.value
            if isinstance(v, ast.Call) and isinstance(v.func, ast.Name) and v.func.id == "len" and v.args:
                d = dotted(v.args[0])
                if d and len(d) == 2 and d[0] == f.self_name:
                    return d[1]
    raise AnalysisError("__len__ of the line files does not return len(self.<offset table>)")


def _running_sum_scheme(f: Func, is_table, handle_var: str, init_seen, drop_ok: bool) -> Optional[str]:
    """offsets as the running sum of the byte lengths of the lines iterated from the binary handle (no tell()):
      end offsets    table = [0];  for L in h: table.append(table[-1] + len(L));  drop the last entry
      start offsets  table = []; off = 0;  for L in h: table.append(off); off += len(L)            (nothing to drop)
    returns a description when the builder is exactly one of the two, else None"""
    loops = [n for n in walk_own(f.node) if isinstance(n, ast.For) and not n.orelse and isinstance(n.target, ast.Name)
             and ((isinstance(n.iter, ast.Name) and n.iter.id == handle_var)
                  or (isinstance(n.iter, ast.Call) and src(n.iter.func) == "iter" and len(n.iter.args) == 2
                      and src(n.iter.args[0]) == f"{handle_var}.readline" and isinstance(n.iter.args[1], ast.Constant) and n.iter.args[1].value == b""))]
    if len(loops) != 1:
        return None
    lp = loops[0]
    L = lp.target.id
    body = lp.body

    def is_len_L(e):
        return isinstance(e, ast.Call) and src(e.func) == "len" and len(e.args) == 1 and src(e.args[0]) == L

    def app_of(st):
        if isinstance(st, ast.Expr) and isinstance(st.value, ast.Call) and isinstance(st.value.func, ast.Attribute) \
                and st.value.func.attr == "append" and is_table(st.value.func.value) and len(st.value.args) == 1:
            return st.value.args[0]
        return None
    init_empty = isinstance(init_seen, ast.List) and not init_seen.elts
    init_zero = isinstance(init_seen, ast.List) and len(init_seen.elts) == 1 and const_value(init_seen.elts[0]) == 0
    if len(body) == 1 and init_zero and drop_ok:
        a = app_of(body[0])
        if isinstance(a, ast.BinOp) and isinstance(a.op, ast.Add):
            for x, y in ((a.left, a.right), (a.right, a.left)):
                if is_len_L(y) and isinstance(x, ast.Subscript) and is_table(x.value) and const_value(x.slice) == -1:
                    return "end offsets: table[-1] + len(line) appended for every line of the binary handle, the last entry dropped"
        return None
    if len(body) == 2 and init_empty and not drop_ok:
        a = app_of(body[0])
        st = body[1]
        if isinstance(a, ast.Name) and isinstance(st, ast.AugAssign) and isinstance(st.op, ast.Add) and isinstance(st.target, ast.Name) \
                and st.target.id == a.id and is_len_L(st.value):
            inits = [n for n in walk_own(f.node) if isinstance(n, ast.Assign) and len(n.targets) == 1 and isinstance(n.targets[0], ast.Name)
                     and n.targets[0].id == a.id]
            others = [n for n in walk_own(f.node) if isinstance(n, ast.AugAssign) and isinstance(n.target, ast.Name) and n.target.id == a.id and n is not st]
            if len(inits) == 1 and const_value(inits[0].value, None) == 0 and not others and before(f.node, inits[0], lp):
                return "start offsets: a running byte count appended before it is advanced by len(line), for every line of the binary handle"
    return None


def r9_index_source(prog, rep: Report, fam: Family):
    """a caller-supplied offset index (also an empty one) is never replaced by the self-built index"""
    rep.rule("C11.R9", "the caller's index is honoured: every call of the index builder is guarded by `<offsets> is None` (the parameter "
             "or the table field); a guard that reads the table as a truth value (`not self._lines`, `len(...) == 0`) also fires for "
             "an empty caller-supplied index and is a violation", floor=1)
    b = _builder_by_table(prog, fam)
    if b is None:
        raise AnalysisError("index builder not found (C11.R9)")
    builder, _ = b
    lines_field = _lines_field(prog, fam)
    n = 0
    seen = set()
    for c in fam.line_classes:
        for k in c.repo_mro():
            if k.is_external:
                continue
            for f in k.methods.values():
                if f is builder or f.qual in seen:
                    continue
                seen.add(f.qual)
                for call in calls_in(f.node):
                    if not (isinstance(call.func, ast.Attribute) and call.func.attr == builder.name
                            and isinstance(call.func.value, ast.Name) and call.func.value.id == f.self_name):
                        continue
                    n += 1
                    rep.fn(f)
                    role = f"index-source:{k.name}.{f.name}:{n}"
                    # offsets parameter(s) of this method that are stored into the table
                    table_like = {f"{f.self_name}.{lines_field}"}
                    for t, v, _st in iter_stores(f.node):
                        if dotted(t) == (f.self_name, lines_field) and v is not None:
                            # the parameter(s) the table is filled from (also through a conditional expression / a reader call)
                            table_like |= {x.id for x in ast.walk(v) if isinstance(x, ast.Name) and x.id in f.params[1:]}
                    guards = []
                    child, anc = call, getattr(call, "_parent", None)
                    while anc is not None and anc is not f.node:
                        if isinstance(anc, ast.If) and child is not anc.test:
                            guards.append((anc.test, child in anc.body))
                        child, anc = anc, getattr(anc, "_parent", None)
                    verdict = None
                    for t, pol in guards:
                        neg = False
                        while isinstance(t, ast.UnaryOp) and isinstance(t.op, ast.Not):
                            t, neg = t.operand, not neg
                        holds = pol != neg           # the call runs when `t` is `holds`
                        if isinstance(t, ast.Compare) and len(t.ops) == 1 and isinstance(t.comparators[0], ast.Constant) \
                                and t.comparators[0].value is None and src(t.left) in table_like:
                            is_none = isinstance(t.ops[0], ast.Is)
                            if is_none == holds:
                                verdict = verdict or ("ok", f"guarded by `{src(t)}`")
                            else:
                                verdict = ("viol", f"the builder runs when `{src(t.left)}` is NOT None: the caller's index is replaced")
                        elif src(t) in table_like and not holds:
                            verdict = ("viol", f"the builder runs when `{src(t)}` is falsy: an empty caller-supplied index (no line "
                                               "selected) is replaced by the index of the whole file")
                        elif isinstance(t, ast.Compare) and len(t.ops) == 1 and isinstance(t.left, ast.Call) and src(t.left.func) == "len" \
                                and t.left.args and src(t.left.args[0]) in table_like and isinstance(t.comparators[0], ast.Constant) \
                                and t.comparators[0].value == 0 and isinstance(t.ops[0], (ast.Eq, ast.LtE)) and holds:
                            verdict = ("viol", f"the builder runs when `{src(t)}`: an empty caller-supplied index is replaced by the index "
                                               "of the whole file")
                    if verdict is None:
                        rep.unrec("C11.R9", f, role, f"the call of {builder.name}() is not guarded by a recognised test of the offsets "
                                  f"(guards: {[src(t) for t, _ in guards]})", line=call.lineno)
                    elif verdict[0] == "ok":
                        rep.ok("C11.R9", f, role, verdict[1])
                    else:
                        rep.viol("C11.R9", f, role, verdict[1],
                                 scenario="RandomLineAccessFile(path, line_offsets=[]) must be an empty sequence; with the change it "
                                          "exposes every line of the file after open()", line=call.lineno)
    if n == 0:
        rep.unrec("C11.R9", builder, "index-source", f"no call of {builder.name}() found")


# ---------------------------------------------------------------------------------------------- R5
def r5_index(prog, rep: Report, fam: Family, rule: str = "C11.R5", only_binary: bool = False):
    if only_binary:
        # instantiated under a sibling property: only the clause "the offsets are byte positions of a binary handle" (what the
        # builder does with them is C11.R5's business, and is reported there)
        rep.rule(rule, "the offset index the lines are read through holds byte positions: the index builder opens the data file in "
                 "binary mode (lengths / positions of a text handle are character counts); the other clauses of the index "
                 "construction are decided under C11.R5", floor=1)
    else:
        rep.rule(rule, "index construction: offsets start at [0], tell() is recorded after every readline() of a "
                 "binary handle and the last entry is dropped; the index-file reader yields one int per line; "
                 "len is the length of the offset table", floor=3)
    lines_field = _lines_field(prog, fam)
    c0 = fam.line_classes[0]
    flen = prog.resolve(c0, "__len__")
    rep.fn(flen)
    rep.ok(rule, flen, "len", f"__len__ returns len(self.{lines_field})")
    # builder
    builder = None
    for k in c0.repo_mro():
        for f in k.methods.values():
            if f.self_name is None:
                continue
            if any(isinstance(c.func, ast.Attribute) and c.func.attr == "tell" for c in calls_in(f.node)) and \
                    any(ext_name(prog, f, c) == "open" for c in calls_in(f.node)):
                builder = f
    if builder is None:
        b_ = _builder_by_table(prog, fam)
        builder = b_[0] if b_ else None
    if builder is None:
        raise AnalysisError("index builder not found")
    rep.fn(builder)
    f = builder
    sn = f.self_name
    init_ok = drop_ok = False
    loop_ok = None
    binary = False
    handle_var = None
    # locals that name the table while it is built (`offsets = [0]; self._lines = offsets` / `self._lines = offsets` at the end)
    aliases = set()
    for n in walk_own(f.node):
        if isinstance(n, ast.Assign) and len(n.targets) == 1:
            if dotted(n.targets[0]) == (sn, lines_field) and isinstance(n.value, ast.Name):
                aliases.add(n.value.id)
            if isinstance(n.targets[0], ast.Name) and dotted(n.value) == (sn, lines_field):
                aliases.add(n.targets[0].id)

    def is_table(e) -> bool:
        return dotted(e) == (sn, lines_field) or (isinstance(e, ast.Name) and e.id in aliases)
    init_seen = None
    scheme_b = None
    for n in walk_own(f.node):
        if isinstance(n, ast.With):
            for it in n.items:
                if isinstance(it.context_expr, ast.Call) and ext_name(prog, f, it.context_expr) == "open":
                    binary = "b" in (open_mode(it.context_expr) or "")
                    if isinstance(it.optional_vars, ast.Name):
                        handle_var = it.optional_vars.id
        if isinstance(n, ast.Assign) and any(is_table(t) for t in n.targets) and not isinstance(n.value, ast.Name) \
                and dotted(n.value) != (sn, lines_field):
            v = n.value
            init_seen = v
            init_ok = isinstance(v, ast.List) and len(v.elts) == 1 and const_value(v.elts[0]) == 0
        if isinstance(n, ast.Delete):
            for t in n.targets:
                if isinstance(t, ast.Subscript) and is_table(t.value) and const_value(t.slice) == -1:
                    drop_ok = True
        if isinstance(n, ast.Call) and isinstance(n.func, ast.Attribute) and n.func.attr == "pop" and is_table(n.func.value) \
                and (not n.args or (len(n.args) == 1 and const_value(n.args[0]) == -1)):
            drop_ok = True
    for n in walk_own(f.node):
        if isinstance(n, (ast.While, ast.For)):
            appends = [c for c in ast.walk(n) if isinstance(c, ast.Call) and isinstance(c.func, ast.Attribute)
                       and c.func.attr == "append" and is_table(c.func.value)]
            if not appends:
                continue
            # the other sound scheme: the *start* of each line is recorded (position taken before the readline that finds the
            # line), nothing to drop:   start = h.tell();  for _ in <readline loop>: table.append(start); start = h.tell()
            if len(appends) == 1 and len(appends[0].args) == 1 and isinstance(appends[0].args[0], ast.Name):
                v_ = appends[0].args[0].id
                defs_ = [a for a in walk_own(f.node) if isinstance(a, ast.Assign) and len(a.targets) == 1
                         and isinstance(a.targets[0], ast.Name) and a.targets[0].id == v_]

                def is_tell(e):
                    return isinstance(e, ast.Call) and isinstance(e.func, ast.Attribute) and e.func.attr == "tell" \
                        and isinstance(e.func.value, ast.Name) and e.func.value.id == handle_var and not e.args
                in_loop_ = [a for a in defs_ if any(x is a for x in ast.walk(n))]
                out_loop_ = [a for a in defs_ if a not in in_loop_]
                # the first start is the position of the freshly opened file: h.tell() or the literal 0
                if defs_ and all(is_tell(a.value) for a in in_loop_) and all(is_tell(a.value) or const_value(a.value, None) == 0 for a in out_loop_):
                    scheme_b = (n, appends[0], defs_)
            head = n.test if isinstance(n, ast.While) else n.iter
            reads_line = any(isinstance(c, ast.Call) and isinstance(c.func, ast.Attribute) and c.func.attr == "readline"
                             and isinstance(c.func.value, ast.Name) and c.func.value.id == handle_var
                             for c in ast.walk(head)) or (isinstance(head, ast.Name) and head.id == handle_var)
            # for _ in iter(<handle>.readline, b""): one readline per round, ended by the empty bytes object of a binary handle
            if isinstance(head, ast.Call) and src(head.func) == "iter" and len(head.args) == 2:
                rl, sentinel = head.args
                reads_line = isinstance(rl, ast.Attribute) and rl.attr == "readline" and isinstance(rl.value, ast.Name) \
                    and rl.value.id == handle_var and isinstance(sentinel, ast.Constant) and sentinel.value == (b"" if binary else "")
            tells = all(len(a.args) == 1 and isinstance(a.args[0], ast.Call) and isinstance(a.args[0].func, ast.Attribute)
                        and a.args[0].func.attr == "tell" and isinstance(a.args[0].func.value, ast.Name)
                        and a.args[0].func.value.id == handle_var for a in appends)
            uncond = all(getattr(a, "_parent", None) is not None and isinstance(a._parent, ast.Expr)
                         and a._parent in n.body for a in appends)
            loop_ok = reads_line and tells and uncond and len(appends) == 1
    no_tell = not any(isinstance(c_.func, ast.Attribute) and c_.func.attr == "tell" for c_ in calls_in(f.node))
    if only_binary:
        encodes = any(isinstance(c_, ast.Call) and isinstance(c_.func, ast.Attribute) and c_.func.attr == "encode" for c_ in ast.walk(f.node))
        if binary:
            rep.ok(rule, f, "builder:binary", "index built from a binary handle")
        elif not encodes and handle_var is not None:
            rep.viol(rule, f, "builder:binary", "the index builder does not open the data file in binary mode: positions / lengths "
                     "taken from a text handle are character counts (or opaque cookies), not the byte offsets that seek() is given",
                     scenario="a line with a multi-byte UTF-8 character shifts every later offset: f[i] starts inside another line")
        else:
            rep.unrec(rule, f, "builder:binary", "the mode of the handle the index is built from was not found")
        return
    if no_tell and binary and handle_var is not None:
        c_ok = _running_sum_scheme(f, is_table, handle_var, init_seen, drop_ok)
        if c_ok:
            for role, msg in (("builder:binary", "index built from a binary handle"),
                              ("builder:first-offset", c_ok), ("builder:loop", c_ok), ("builder:drop-last", c_ok)):
                rep.ok(rule, f, role, msg)
            scheme_b = "skip"
            no_tell = False
    if no_tell:
        # offsets computed some other way (lengths of the lines read, a running sum ...): the only thing decided here is that
        # lengths / positions of a *text* handle are not byte offsets; the arithmetic itself is not read
        encodes = any(isinstance(c_, ast.Call) and isinstance(c_.func, ast.Attribute) and c_.func.attr == "encode" for c_ in ast.walk(f.node))
        if not binary and not encodes and handle_var is not None:
            rep.viol(rule, f, "builder:binary", "the index builder does not open the data file in binary mode: positions / lengths "
                     "taken from a text handle are character counts (or opaque cookies), not the byte offsets that seek() is given",
                     scenario="a line with a multi-byte UTF-8 character shifts every later offset: f[i] starts inside another line")
        else:
            rep.unrec(rule, f, "builder:binary", "the index builder does not record tell() positions: how it computes the offsets is "
                      "not something this rule reads")
        scheme_b = "skip"
    elif scheme_b is None and not binary and any(isinstance(c, ast.Call) and isinstance(c.func, ast.Attribute) and c.func.attr == "encode"
                                               for c in ast.walk(f.node)):
        rep.unrec(rule, f, "builder:binary", "the index builder reads a text handle and encodes what it read: whether the offsets "
                  "are byte positions of the file is not decided")
    elif scheme_b is None:
        rep.check(rule, f, "builder:binary", binary, "index built from a binary handle",
                  "the index builder does not open the data file in binary mode: positions / lengths taken from a text handle are "
                  "character counts (or opaque cookies), not the byte offsets that seek() is given",
                  scenario="a line with a multi-byte UTF-8 character shifts every later offset: f[i] starts inside another line")
    if scheme_b == "skip":
        pass
    elif scheme_b is not None:
        # start offsets: judged as a whole; anything but the exact idiom is left undecided
        lp, app, defs_ = scheme_b
        body = lp.body
        head = lp.test if isinstance(lp, ast.While) else lp.iter
        one_read = (isinstance(head, ast.Call) and src(head.func) == "iter" and len(head.args) == 2
                    and src(head.args[0]) == f"{handle_var}.readline" and isinstance(head.args[1], ast.Constant)
                    and head.args[1].value == (b"" if binary else "")) or \
                   (isinstance(lp, ast.While) and src(head) == f"{handle_var}.readline()")
        inside = [a for a in defs_ if a in body]
        outside = [a for a in defs_ if a not in body]
        exact = one_read and len(defs_) == 2 and len(inside) == 1 and len(outside) == 1 and len(body) == 2 \
            and isinstance(body[0], ast.Expr) and body[0].value is app and body[1] is inside[0] \
            and isinstance(init_seen, ast.List) and not init_seen.elts and not drop_ok \
            and before(f.node, outside[0], lp)
        rep.check(rule, f, "builder:binary", binary, "index built from a binary handle",
                  "the index builder does not open the data file in binary mode: positions / lengths taken from a text handle are "
                  "character counts (or opaque cookies), not the byte offsets that seek() is given",
                  scenario="a line with a multi-byte UTF-8 character shifts every later offset: f[i] starts inside another line")
        for role in ("builder:first-offset", "builder:loop", "builder:drop-last"):
            if exact:
                rep.ok(rule, f, role, "start offsets: the position is taken before each readline and recorded when the line exists")
            else:
                rep.unrec(rule, f, role, "the builder records positions taken before the reads, but not in the one recognised way "
                          "(start = h.tell(); for _ in iter(h.readline, b''): table.append(start); start = h.tell())")
    elif init_seen is not None and not isinstance(init_seen, (ast.List, ast.Tuple, ast.Constant)):
        rep.unrec(rule, f, "builder:first-offset", f"the offset table is initialised from `{src(init_seen)}`")
    else:
        rep.check(rule, f, "builder:first-offset", init_ok, "offset table starts as [0]",
                  "offset table does not start with [0]", scenario="line 0 is unreachable or shifted")
    if scheme_b is not None:
        pass
    elif loop_ok is None:
        rep.unrec(rule, f, "builder:loop", "no loop appending tell() after a readline() found")
    else:
        rep.check(rule, f, "builder:loop", loop_ok, "tell() appended once after every readline()",
                  "the scan loop does not append exactly one <handle>.tell() after every readline() of the same handle",
                  scenario="offsets skip or duplicate lines")
    if scheme_b is None:
        rep.check(rule, f, "builder:drop-last", drop_ok, "the offset past the last line is dropped",
                  "the end-of-file offset is not dropped", scenario="len(f) is one too large; f[-1] == ''")
    # index-file reader
    rdr = None
    for k in c0.repo_mro():
        for g in k.methods.values():
            if g.is_static and any(ext_name(prog, g, c) == "open" for c in calls_in(g.node)) \
                    and any(isinstance(c.func, ast.Name) and c.func.id == "int" for c in calls_in(g.node)):
                rdr = g
    _reader_reported = False
    if rdr is None:
        # the reader by its use: the static method whose result the constructor stores in the offset table
        for k in c0.repo_mro():
            init_ = k.methods.get("__init__")
            if init_ is None:
                continue
            for t_, v_, _st in iter_stores(init_.node):
                if dotted(t_) == (init_.self_name, lines_field) and v_ is not None:
                    for c_ in ast.walk(v_):
                        if isinstance(c_, ast.Call) and isinstance(c_.func, ast.Attribute) and isinstance(c_.func.value, ast.Name) \
                                and c_.func.value.id in (init_.self_name, k.name):
                            g = prog.resolve(c0, c_.func.attr)
                            if g is not None and g.is_static and any(ext_name(prog, g, c2) == "open" for c2 in calls_in(g.node)):
                                rdr = g
        if rdr is not None:
            rep.fn(rdr)
            texty = None
            for r in returns_of(rdr.node):
                v = r.value
                if isinstance(v, ast.Call) and isinstance(v.func, ast.Attribute) and v.func.attr in ("split", "splitlines", "readlines"):
                    texty = v
                elif isinstance(v, ast.Call) and src(v.func) == "list" and len(v.args) == 1 and isinstance(v.args[0], ast.Name):
                    texty = v
            if texty is not None:
                rep.viol(rule, rdr, "index-file-reader", f"the index-file reader returns `{src(texty)}`: the offsets stay strings; the "
                         "mutable variants read a str entry of the table as an in-memory line, and len/slices work on text",
                         scenario="MutableRandomLineAccessFile(path, index_file): f[0] == '0' (the offset text) instead of the first line",
                         line=texty.lineno)
            else:
                rep.unrec(rule, rdr, "index-file-reader", "the index-file reader does not convert its lines with int(): what the table "
                          "holds is not decided")
            rdr = None
            _reader_reported = True
    if rdr is None and not _reader_reported:
        rep.unrec(rule, (c0.relpath, c0.short, 0), "index-file-reader", "static index-file reader not found")
    if rdr is not None:
        rep.fn(rdr)
        good = False
        from ..util import comprehension_of
        for r in returns_of(rdr.node):
            v = r.value
            if isinstance(v, ast.Name):
                v = comprehension_of(rdr.node, v.id) or v      # a list built by an append loop
            # the comprehension may be handed to a sequence constructor (list(...), tuple(...), array('q', ...)): the read-only
            # classes only index the table (what the mutable classes need of it is C12.R6)
            if isinstance(v, ast.Call) and v.args and isinstance(v.args[-1], (ast.GeneratorExp, ast.ListComp)) and not v.keywords \
                    and (ext_name(prog, rdr, v) or src(v.func)).split(".")[-1] in ("list", "tuple", "array"):
                v = v.args[-1]
            if isinstance(v, (ast.ListComp, ast.GeneratorExp)) and not isinstance(r.value, ast.GeneratorExp) and len(v.generators) == 1 and not v.generators[0].ifs \
                    and isinstance(v.elt, ast.Call) and isinstance(v.elt.func, ast.Name) and v.elt.func.id == "int" \
                    and len(v.elt.args) == 1 and isinstance(v.elt.args[0], ast.Name) \
                    and isinstance(v.generators[0].target, ast.Name) and v.elt.args[0].id == v.generators[0].target.id:
                good = True
        rep.check(rule, rdr, "index-file-reader", good, "one int per line of the index file, unfiltered",
                  "index-file reader is not an unfiltered [int(line) for line in f]",
                  scenario="an index file selecting a subset/permutation is not honoured line by line")


def r6_derived(prog, rep: Report, fam: Family, include_mixins: bool):
    """a remembered cursor position / cached line must not survive a new handle (open, close, re-open after fork)"""
    from .memo import rule_derived_state
    lines = _lines_field(prog, fam)
    known = {lines, fam.dirty_field(), data_path_field(prog, fam)}
    rep.rule("C11.R6", "derived state of the line files is refreshed with its source: the file handle(s) are the primary state; any "
             "other field that is written outside the constructor and read somewhere (a remembered cursor position, a cached "
             "line, a read-ahead buffer) is re-assigned or cleared on every path of every public operation that installs another "
             "handle or moves it (open, close, the re-open helper after a fork, reads)", floor=8)
    for c in fam.line_classes:
        prim = set(fam.handles[c.qual])
        rule_derived_state(prog, rep, "C11.R6", c, prim, fam.entry_points(c, include_mixins), config=known | {fam.pid_field[c.qual]},
                           declare=False)
