"""C20 — TmpPool and FilePool leave nothing behind (DESIGN.md §6: decomposition of 'however the context is left')."""
from __future__ import annotations

import ast
from typing import Dict, List, Optional, Set, Tuple

from ..absint import Client, Ctx, Interp
from ..flow import Flow
from ..model import AnalysisError, Cls, Func, Program, walk_own
from ..report import Report
from ..resolve import const_value, dotted, kwarg
from ..util import before, calls_in, ext_name, is_manager_expr, manager_fields, returns_of, src
from .filefam import FILES_MOD


def run(prog: Program, rep: Report):
    tp = prog.cls("TmpPool", FILES_MOD)
    fp = prog.cls("FilePool", FILES_MOD)
    _MGR["fields"] = manager_fields(prog, tp)
    _MGR["self"] = prog.method(tp, "__init__").self_name
    r1_unconditional(prog, rep, tp, fp)
    r2_registered(prog, rep, tp, fp)
    r3_covers(prog, rep, tp, fp)
    from .ownership import rule_no_class_state
    rule_no_class_state(prog, rep, "C20.R4", [tp, fp])


class _Cleanup(Client):
    """state = (cleanup call reached, something that can fail ran before it)"""

    def __init__(self, cleanup: str, exc_params: Set[str]):
        self.cleanup, self.exc_params = cleanup, exc_params
        self.guarded_by_exc = False
        self.depth = 0

    def should_inline(self, func, call, ctx):
        return False

    def refine(self, test, state, ctx):
        if any(isinstance(n, ast.Name) and n.id in self.exc_params for n in ast.walk(test)):
            self.mentions_exc = True
            return ((state[0], state[1], True),), ((state[0], state[1], True),)
        return (state,), (state,)

    def event(self, kind, node, state, ctx):
        done, risky, cond = state
        if kind == "call" and isinstance(node, ast.Call) and isinstance(node.func, ast.Attribute):
            if isinstance(node.func.value, ast.Name) and node.func.value.id == ctx.func.self_name and node.func.attr == self.cleanup:
                if cond:
                    self.guarded_by_exc = True
                return ((True, risky, cond),)
            if not done:
                return ((done, True, cond),)
        return (state,)


def r1_unconditional(prog, rep: Report, tp: Cls, fp: Cls):
    rep.rule("C20.R1", "cleanup is unconditional: __exit__ reaches flush()/close() on all of its paths, not guarded by the "
             "exception arguments, before anything that can fail (manager exit)", floor=2)
    for c, cleanup in ((tp, "flush"), (fp, "close")):
        f = prog.method(c, "__exit__")
        rep.fn(f)
        client = _Cleanup(cleanup, set(f.params[1:]))
        it = Interp(prog, client)
        ex = it.run(f, {(False, False, False)}, c)
        finals = ex.normal | ex.ret
        missing = [s for s in finals if not s[0]]
        risky = [s for s in finals if s[0] and s[1]]
        ok = bool(finals) and not missing and not client.guarded_by_exc and not risky
        why = ("a path of __exit__ does not call self.%s()" % cleanup if missing else
               "the cleanup is guarded by the exception arguments" if client.guarded_by_exc else
               "another call that can fail runs before the cleanup" if risky else "")
        rep.check("C20.R1", f, f"always-{cleanup}", ok, f"self.{cleanup}() on every path, first, unconditionally", why,
                  scenario=f"`with {c.name}(...) as p: ...; raise ValueError()` leaves the temporary files on disk / the handles open")
    # __enter__ returns the pool (FilePool opens there)
    en = prog.method(fp, "__enter__")
    rep.fn(en)
    ok = any(isinstance(r.value, ast.Call) and src(r.value.func) == f"{en.self_name}.open" for r in returns_of(en.node)) or \
        (any(src(r.value) == en.self_name for r in returns_of(en.node)) and
         any(isinstance(c.func, ast.Attribute) and c.func.attr == "open" for c in calls_in(en.node)))
    rep.check("C20.R1", en, "enter-opens", ok, "__enter__ opens the pool and returns it", "FilePool.__enter__ does not open the pool",
              scenario="inside the with block no handle is available")


def r2_registered(prog, rep: Report, tp: Cls, fp: Cls):
    rep.rule("C20.R2", "every acquisition is registered: create() appends the name of the created file (delete=False) to the "
             "registry on every normal path, closes the handle and returns that name; FilePool.open maps every given path to "
             "open(path, mode)", floor=2)
    f = prog.method_view(tp, "create")
    rep.fn(f)
    reg = _registry_field(prog, tp)
    flow = Flow(f.node)
    tmp_var = None
    delete_false = False
    for n in walk_own(f.node):
        if isinstance(n, ast.Assign) and isinstance(n.value, ast.Call) and isinstance(n.targets[0], ast.Name):
            name = ext_name(prog, f, n.value)
            if name in ("tempfile.NamedTemporaryFile", "tempfile.mkstemp"):
                tmp_var = n.targets[0].id
                d = kwarg(n.value, "delete")
                delete_false = name == "tempfile.mkstemp" or (d is not None and const_value(d, None) is False)
                dir_ok = any(k.arg == "dir" for k in n.value.keywords)
    if tmp_var is None:
        rep.unrec("C20.R2", f, "create", "creation of the temporary file not recognised")
    else:
        apps = [c for c in calls_in(f.node) if isinstance(c.func, ast.Attribute) and c.func.attr == "append"
                and dotted(c.func.value) == (f.self_name, reg) and [src(a) for a in c.args] == [f"{tmp_var}.name"]]
        closes = [c for c in calls_in(f.node) if isinstance(c.func, ast.Attribute) and c.func.attr == "close" and src(c.func.value) == tmp_var]
        rets = returns_of(f.node)
        straight = all(isinstance(s, (ast.Assign, ast.Expr, ast.Return)) for s in f.node.body)
        ok = delete_false and len(apps) == 1 and len(closes) == 1 and bool(rets) and all(src(r.value) == f"{tmp_var}.name" for r in rets) and straight
        why = ("the file is created with delete=True: it vanishes when the handle is closed" if not delete_false else
               f"the created name is not appended exactly once to self.{reg} on every path" if len(apps) != 1 or not straight else
               "the handle is not closed" if len(closes) != 1 else "create() does not return the registered name")
        rep.check("C20.R2", f, "create", ok, f"{tmp_var}.name appended to self.{reg}, handle closed, name returned", why,
                  scenario="a created file that is not registered survives flush() and the end of the context")
    o = prog.method(fp, "open")
    rep.fn(o)
    ok = False
    files_f, mode_f = _filepool_fields(prog, fp)
    for n in walk_own(o.node):
        if isinstance(n, ast.Assign) and isinstance(n.value, ast.DictComp):
            dc = n.value
            g = dc.generators[0]
            if len(dc.generators) == 1 and not g.ifs and dotted(g.iter) == (o.self_name, files_f) and isinstance(g.target, ast.Name) \
                    and src(dc.key) == g.target.id and isinstance(dc.value, ast.Call) and src(dc.value.func) == "open" \
                    and [src(a) for a in dc.value.args] == [g.target.id, f"{o.self_name}.{mode_f}"]:
                t0 = n.targets[0]
                # stored on the pool directly, or built in a local that is then stored on the pool
                ok = (dotted(t0) is not None and dotted(t0)[0] == o.self_name) or \
                    (isinstance(t0, ast.Name) and any(isinstance(m, ast.Assign) and isinstance(m.value, ast.Name) and m.value.id == t0.id
                                                      and dotted(m.targets[0]) and dotted(m.targets[0])[0] == o.self_name
                                                      for m in walk_own(o.node)))
    rep.check("C20.R2", o, "open-all", ok, "{path: open(path, mode) for path in files}, unfiltered",
              "FilePool.open does not map every given path to open(path, self.<mode>)",
              scenario="some of the given files are not opened (or opened in another mode): pool[path] raises KeyError")


_MGR = {"self": "self", "fields": set()}


def _is_manager_list(call: ast.Call) -> bool:
    """<manager field of the pool>.list(...)  (the manager fields are those assigned from a Manager() construction)"""
    return isinstance(call.func, ast.Attribute) and call.func.attr == "list" and is_manager_expr(call.func.value, _MGR["self"], _MGR["fields"])


def _multi_proc_field(prog, tp: Cls) -> str:
    """the field that holds the constructor's multi-process switch: the parameter (or the field it is stored in) on which the
    creation of the Manager depends, by an `if` or by a conditional expression"""
    init = prog.method_view(tp, "__init__")
    stored = {}
    for n in walk_own(init.node):
        if isinstance(n, ast.Assign) and isinstance(n.value, ast.Name) and n.value.id in init.params:
            d = dotted(n.targets[0])
            if d and len(d) == 2 and d[0] == init.self_name:
                stored[n.value.id] = d[1]

    def switch_of(test) -> Optional[str]:
        t = test.operand if isinstance(test, ast.UnaryOp) and isinstance(test.op, ast.Not) else test
        if isinstance(t, ast.Name) and t.id in stored:
            return stored[t.id]
        d = dotted(t)
        if d and len(d) == 2 and d[0] == init.self_name and d[1] in stored.values():
            return d[1]
        return None

    def has_manager(nodes) -> bool:
        return any(isinstance(c, ast.Call) and src(c.func).split(".")[-1] in ("Manager", "SyncManager")
                   for x in nodes for c in ast.walk(x))
    for n in walk_own(init.node):
        if isinstance(n, ast.If) and has_manager(n.body + n.orelse):
            sw = switch_of(n.test)
            if sw:
                return sw
        if isinstance(n, ast.IfExp) and has_manager([n.body, n.orelse]):
            sw = switch_of(n.test)
            if sw:
                return sw
    raise AnalysisError("TmpPool.__init__: the field holding the multi-process switch was not found")


def _registry_field(prog, tp: Cls) -> str:
    ln = prog.method(tp, "__len__")
    for r in returns_of(ln.node):
        v = r.value
        if isinstance(v, ast.Call) and src(v.func) == "len" and dotted(v.args[0]) and len(dotted(v.args[0])) == 2:
            return dotted(v.args[0])[1]
    raise AnalysisError("TmpPool.__len__ does not return len(self.<registry>)")


def _filepool_fields(prog, fp: Cls) -> Tuple[str, str]:
    init = prog.method(fp, "__init__")
    m = {}
    for n in walk_own(init.node):
        if isinstance(n, ast.Assign) and isinstance(n.value, ast.Name) and n.value.id in init.params:
            d = dotted(n.targets[0])
            if d and len(d) == 2:
                m[n.value.id] = d[1]
    return m.get(init.params[1], "_files"), m.get(init.params[2], "_mode")


def r3_covers(prog, rep: Report, tp: Cls, fp: Cls):
    rep.rule("C20.R3", "cleanup covers the registry: flush removes each registered path (tolerating FileNotFoundError) and then "
             "replaces the registry by an empty one of the right kind (manager list iff multi_proc; __enter__ makes it a manager "
             "list iff multi_proc); remove deletes the file and unregisters the path; FilePool.close closes each handle and "
             "drops the mapping", floor=5)
    reg = _registry_field(prog, tp)
    f = prog.method_view(tp, "flush")
    rep.fn(f)
    loops = [n for n in f.node.body if isinstance(n, ast.For) and dotted(n.iter) == (f.self_name, reg)]
    ok, why = False, f"flush does not loop over self.{reg}"
    if len(loops) == 1 and isinstance(loops[0].target, ast.Name):
        lp = loops[0]
        p = lp.target.id
        rm = [c for c in ast.walk(lp) if isinstance(c, ast.Call) and ext_name(prog, f, c) in ("os.remove", "os.unlink") and [src(a) for a in c.args] == [p]]
        tolerant = False
        for c in rm:
            par = getattr(getattr(c, "_parent", None), "_parent", None)
            if isinstance(par, ast.Try) and any(h.type is not None and src(h.type) in ("FileNotFoundError", "OSError") for h in par.handlers) \
                    and not any(isinstance(x, (ast.Raise, ast.Break, ast.Return)) for h in par.handlers for x in ast.walk(h)):
                tolerant = True
        skips = any(isinstance(x, (ast.Break, ast.Return)) for x in ast.walk(lp)) or \
            any(isinstance(x, ast.If) for x in lp.body)
        ok = len(rm) == 1 and tolerant and not skips
        why = ("each registered path is not removed exactly once" if len(rm) != 1 else
               "a file that is already gone aborts the flush (FileNotFoundError not tolerated)" if not tolerant else
               "the loop can skip registered paths")
    rep.check("C20.R3", f, "flush-removes-all", ok, f"os.remove(p) for every p in self.{reg}, tolerating FileNotFoundError", why,
              scenario="create three files, delete one by hand, flush(): the remaining files must be removed too")
    # registry reset of the right kind, after the loop
    resets = [n for n in f.node.body if isinstance(n, ast.Assign) and dotted(n.targets[0]) == (f.self_name, reg)]
    ok = False
    if len(resets) == 1 and loops and f.node.body.index(resets[0]) > f.node.body.index(loops[0]):
        v = resets[0].value
        if isinstance(v, ast.IfExp):
            neg = isinstance(v.test, ast.UnaryOp) and isinstance(v.test.op, ast.Not)
            mp = dotted(v.test.operand if neg else v.test) == (f.self_name, _multi_proc_field(prog, tp))
            mgr = isinstance(v.body, ast.Call) and _is_manager_list(v.body)
            plain = isinstance(v.orelse, ast.List) and not v.orelse.elts
            ok = mp and ((mgr and plain and not neg) or (neg and isinstance(v.body, ast.List) and isinstance(v.orelse, ast.Call) and _is_manager_list(v.orelse)))
    rep.check("C20.R3", f, "flush-resets-registry", ok, "registry replaced by a manager list iff multi_proc, else []",
              "after flush the registry is not an empty list of the right kind (manager list iff multi_proc)",
              scenario="multi_proc pool: flush(), then a child process calls create(): with a plain list the parent never learns "
                       "about the file and leaves it behind")
    en = prog.method_view(tp, "__enter__")
    rep.fn(en)
    # per mode (multi_proc / single process): what does __enter__ make of the registry?
    #   multi_proc : it must become a manager list (children append to it) that starts with the paths already registered
    #   single     : it must not be replaced at all, or only by a container that starts with the registered paths
    # An assignment under `if self.<multi_proc>` counts for that arm only; a conditional expression is split by its test.
    mpf = _multi_proc_field(prog, tp)
    old_reg = f"{en.self_name}.{reg}"
    per_mode: Dict[bool, List[Tuple[ast.expr, int]]] = {True: [], False: []}
    for n in walk_own(en.node):
        if not (isinstance(n, ast.Assign) and any(dotted(t) == (en.self_name, reg) for t in n.targets)):
            continue
        modes = {True, False}
        ch, par = n, getattr(n, "_parent", None)
        while par is not None and par is not en.node:
            if isinstance(par, ast.If):
                t = par.test
                neg = isinstance(t, ast.UnaryOp) and isinstance(t.op, ast.Not)
                if dotted(t.operand if neg else t) == (en.self_name, mpf):
                    in_body = ch in par.body
                    modes &= {in_body != neg}
            ch, par = par, getattr(par, "_parent", None)
        v = n.value
        for m in modes:
            vm = v
            if isinstance(v, ast.IfExp):
                t = v.test
                neg = isinstance(t, ast.UnaryOp) and isinstance(t.op, ast.Not)
                if dotted(t.operand if neg else t) == (en.self_name, mpf):
                    vm = v.body if (m != neg) else v.orelse
            per_mode[m].append((vm, n.lineno))

    def carries(v) -> bool:
        return isinstance(v, ast.Call) and len(v.args) == 1 and src(v.args[0]) in (old_reg, f"list({old_reg})")
    problems = []
    mp = per_mode[True]
    if not mp:
        problems.append((en.node.lineno, "multi_proc", "__enter__ does not make the registry a manager list for a multi_proc pool",
                         "files created by child processes are appended to the child's private copy of the list and survive the context"))
    for v, ln in mp:
        if not (isinstance(v, ast.Call) and _is_manager_list(v)):
            problems.append((ln, "multi_proc", f"for a multi_proc pool the registry becomes `{src(v)}`, not a manager list",
                             "files created by child processes are appended to the child's private copy of the list and survive the context"))
        elif not carries(v):
            problems.append((ln, "multi_proc", f"`{src(v)}` replaces the registry without the paths already registered",
                             "p = TmpPool(multi_proc=True); p.create(); with p: pass  -> the file is no longer listed and stays on disk"))
    for v, ln in per_mode[False]:
        if not carries(v):
            problems.append((ln, "single", f"for a single-process pool __enter__ replaces the registry by `{src(v)}`, forgetting the paths "
                                           "already registered",
                             "p = TmpPool(); p.create(); with p: pass  -> the file is no longer listed and stays on disk"))
    returns_self = any(src(r.value) == en.self_name for r in returns_of(en.node) if r.value is not None)
    if not returns_self:
        problems.append((en.node.lineno, "result", "__enter__ does not return the pool", "`with TmpPool() as pool` binds None"))
    if problems:
        for ln, mode, why, scen in problems:
            rep.viol("C20.R3", en, f"enter-registry:{mode}", why, scenario=scen, line=ln)
    else:
        rep.ok("C20.R3", en, "enter-registry", "__enter__ makes the registry a manager list seeded with the registered paths iff "
               "multi_proc, leaves it alone otherwise, and returns the pool")
    rmv = prog.method_view(tp, "remove")
    rep.fn(rmv)
    p = rmv.params[1]
    rm = [c for c in calls_in(rmv.node) if ext_name(prog, rmv, c) in ("os.remove", "os.unlink") and [src(a) for a in c.args] == [p]]
    unreg = [c for c in calls_in(rmv.node) if isinstance(c.func, ast.Attribute) and c.func.attr == "remove"
             and dotted(c.func.value) == (rmv.self_name, reg) and [src(a) for a in c.args] == [p]]
    uncond = all(getattr(getattr(c, "_parent", None), "_parent", None) is rmv.node for c in unreg)
    order_ok = bool(rm) and bool(unreg) and before(rmv.node, rm[0], unreg[0])
    rep.check("C20.R3", rmv, "remove-order", order_ok, "the path is unregistered only after the deletion was attempted",
              "remove() drops the path from the registry before os.remove ran: if the deletion fails (e.g. PermissionError) the file "
              "stays on disk but is no longer listed, so neither flush() nor leaving the context removes it",
              scenario="os.remove raises PermissionError once inside remove(p): afterwards p exists but the pool does not list it")
    rep.check("C20.R3", rmv, "remove", len(rm) == 1 and len(unreg) == 1 and uncond, "deletes the file and unregisters the path",
              "remove() does not both delete the file and (unconditionally) unregister the path",
              scenario="pool.remove(p) leaves p listed: len(pool) and pool[i] disagree with the files on disk")
    cl = prog.method_view(fp, "close")
    rep.fn(cl)
    hf = None
    o_ = prog.method(fp, "open")
    for n in walk_own(o_.node):
        if isinstance(n, ast.Assign) and isinstance(n.value, ast.DictComp):
            t0 = n.targets[0]
            if dotted(t0) and len(dotted(t0)) == 2 and dotted(t0)[0] == o_.self_name:
                hf = dotted(t0)[1]
            elif isinstance(t0, ast.Name):
                for m in walk_own(o_.node):
                    if isinstance(m, ast.Assign) and isinstance(m.value, ast.Name) and m.value.id == t0.id and dotted(m.targets[0]) \
                            and len(dotted(m.targets[0])) == 2:
                        hf = dotted(m.targets[0])[1]
    loops = [n for n in cl.node.body if isinstance(n, ast.For)]
    ok = False
    if hf and len(loops) == 1 and isinstance(loops[0].target, ast.Name):
        lp = loops[0]
        it_ok = src(lp.iter) in (f"{cl.self_name}.{hf}.values()",)
        closes = [c for c in ast.walk(lp) if isinstance(c, ast.Call) and isinstance(c.func, ast.Attribute) and c.func.attr == "close"
                  and src(c.func.value) == lp.target.id]
        skip = any(isinstance(x, (ast.If, ast.Break, ast.Return)) for x in ast.walk(lp))
        dropped = any(isinstance(s, ast.Assign) and dotted(s.targets[0]) == (cl.self_name, hf) and const_value(s.value, 0) is None
                      for s in cl.node.body[cl.node.body.index(lp) + 1:])
        ok = it_ok and len(closes) == 1 and not skip and dropped
        # every path through close() reaches the loop: the only early exit allowed is "nothing was opened" (mapping is None / empty)
        nothing = {f"{cl.self_name}.{hf} is None", f"not {cl.self_name}.{hf}", f"{cl.self_name}.{hf} is None or not {cl.self_name}.{hf}"}
        for st in cl.node.body[:cl.node.body.index(lp)]:
            for x in ast.walk(st):
                if isinstance(x, (ast.Return, ast.Raise)):
                    guard = getattr(x, "_parent", None)
                    if not (isinstance(guard, ast.If) and x in guard.body and src(guard.test) in nothing):
                        rep.viol("C20.R3", cl, "close-all", f"close() can leave at line {x.lineno} before any handle is closed"
                                 + (f" (when `{src(guard.test)}`)" if isinstance(guard, ast.If) else ""),
                                 scenario="the with-body closes one handle itself (or the guard is true for another reason): the other "
                                          "handles stay open after the context", line=x.lineno)
                        ok = None
    if ok is not None:
        rep.check("C20.R3", cl, "close-all", ok, "closes every handle of the mapping, then drops the mapping",
              "FilePool.close does not close every handle of the mapping and drop it afterwards",
              scenario="after the with block some handle.closed is False")
