"""C20 — TmpPool and FilePool leave nothing behind (DESIGN.md §6: decomposition of 'however the context is left')."""
from __future__ import annotations

import ast
from typing import Dict, List, Optional, Set, Tuple

from ..absint import Client, Ctx, Interp
from ..flow import Flow
from ..model import AnalysisError, Cls, Func, Program, walk_own
from ..report import Report
from ..resolve import const_value, dotted, kwarg
from ..util import before, calls_in, ext_name, is_manager_expr, manager_fields, returns_of, src
from .filefam import FILES_MOD
from ..paths import show, subterms, summaries


def run(prog: Program, rep: Report):
    tp = prog.cls("TmpPool", FILES_MOD)
    fp = prog.cls("FilePool", FILES_MOD)
    _MGR["fields"] = manager_fields(prog, tp)
    _MGR["self"] = prog.method(tp, "__init__").self_name
    rep.attempt(lambda: r1_unconditional(prog, rep, tp, fp))
    rep.attempt(lambda: r2_registered(prog, rep, tp, fp))
    rep.attempt(lambda: r3_covers(prog, rep, tp, fp))
    from .ownership import rule_no_class_state
    rep.attempt(lambda: rule_no_class_state(prog, rep, "C20.R4", [tp, fp]))
    from .mixins import rule_mixin_surface
    rep.attempt(lambda: rule_mixin_surface(prog, rep, "C20.R5", [fp]))
    from .oneshot import oneshot_field_rule
    rep.attempt(lambda: oneshot_field_rule(prog, rep, "C20.R6", fp))


class _Cleanup(Client):
    """state = (cleanup call reached, something that can fail ran before it)"""

    def __init__(self, cleanup: str, exc_params: Set[str]):
        self.cleanup, self.exc_params = cleanup, exc_params
        self.guarded_by_exc = False
        self.depth = 0

    def should_inline(self, func, call, ctx):
        return False

    def refine(self, test, state, ctx):
        if any(isinstance(n, ast.Name) and n.id in self.exc_params for n in ast.walk(test)):
            self.mentions_exc = True
            return ((state[0], state[1], True),), ((state[0], state[1], True),)
        return (state,), (state,)

    def event(self, kind, node, state, ctx):
        done, risky, cond = state
        if kind == "call" and isinstance(node, ast.Call) and isinstance(node.func, ast.Attribute):
            if isinstance(node.func.value, ast.Name) and node.func.value.id == ctx.func.self_name and node.func.attr == self.cleanup:
                if cond:
                    self.guarded_by_exc = True
                return ((True, risky, cond),)
            if not done:
                return ((done, True, cond),)
        return (state,)


def r1_unconditional(prog, rep: Report, tp: Cls, fp: Cls):
    rep.rule("C20.R1", "cleanup is unconditional: __exit__ reaches flush()/close() on all of its paths, not guarded by the "
             "exception arguments, before anything that can fail (manager exit)", floor=2)
    for c, cleanup in ((tp, "flush"), (fp, "close")):
        f = prog.method(c, "__exit__")
        rep.fn(f)
        client = _Cleanup(cleanup, set(f.params[1:]))
        it = Interp(prog, client)
        ex = it.run(f, {(False, False, False)}, c)
        finals = ex.normal | ex.ret
        missing = [s for s in finals if not s[0]]
        risky = [s for s in finals if s[0] and s[1]]
        ok = bool(finals) and not missing and not client.guarded_by_exc and not risky
        why = ("a path of __exit__ does not call self.%s()" % cleanup if missing else
               "the cleanup is guarded by the exception arguments" if client.guarded_by_exc else
               "another call that can fail runs before the cleanup" if risky else "")
        rep.check("C20.R1", f, f"always-{cleanup}", ok, f"self.{cleanup}() on every path, first, unconditionally", why,
                  scenario=f"`with {c.name}(...) as p: ...; raise ValueError()` leaves the temporary files on disk / the handles open")
    # __enter__ returns the pool (FilePool opens there)
    en = prog.method(fp, "__enter__")
    rep.fn(en)
    ok = any(isinstance(r.value, ast.Call) and src(r.value.func) == f"{en.self_name}.open" for r in returns_of(en.node)) or \
        (any(src(r.value) == en.self_name for r in returns_of(en.node)) and
         any(isinstance(c.func, ast.Attribute) and c.func.attr == "open" for c in calls_in(en.node)))
    rep.check("C20.R1", en, "enter-opens", ok, "__enter__ opens the pool and returns it", "FilePool.__enter__ does not open the pool",
              scenario="inside the with block no handle is available")


def _self_field(t, name=None) -> bool:
    return isinstance(t, tuple) and len(t) >= 3 and t[0] == "attr" and t[1] == ("self",) and (name is None or t[2] == name)


def _unwrap_copy(t):
    """list(X) / tuple(X) / sorted(X) / X[:] / X.copy() read as X for the question "which container is walked" """
    while isinstance(t, tuple):
        if t[0] == "call" and t[1] in ("list", "tuple", "sorted") and len(t[2]) == 1:
            t = t[2][0]
        elif t[0] == "mcall" and t[1] == "copy":
            t = t[2]
        elif t[0] == "sub" and isinstance(t[2], tuple) and t[2][0] == "slice" and t[2][1:] == (("c", None),) * 3:
            t = t[1]
        else:
            break
    return t


def _is_manager_term(t) -> bool:
    if not isinstance(t, tuple):
        return False
    if _self_field(t) and t[2] in _MGR["fields"]:
        return True
    if t[0] == "eff" and t[1] in ("Manager", "SyncManager", "multiprocessing.Manager"):
        return True
    if t[0] == "eff" and t[1] in ("__enter__", "start") and _is_manager_term(t[2]):
        return True
    return False


def _is_manager_list_term(t) -> bool:
    return isinstance(t, tuple) and t[0] == "eff" and t[1] == "list" and _is_manager_term(t[2])


def _assume_field(field, value):
    def a(term):
        if _self_field(term, field):
            return value
        return None
    return a


def r2_registered(prog, rep: Report, tp: Cls, fp: Cls):
    rep.rule("C20.R2", "every acquisition is registered: create() appends the name of the created file (delete=False) to the "
             "registry on every normal path, closes the handle and returns that name; FilePool.open maps every given path to "
             "open(path, mode)", floor=2)
    f = prog.resolve(tp, "create")
    rep.fn(f)
    reg = _registry_field(prog, tp)
    paths, un = summaries(prog, f, tp)
    normal = [p for p in paths if p.exit == "return"]
    if un or not normal:
        rep.unrec("C20.R2", f, "create", "; ".join(un) or "no normal path through create()")
    else:
        problems, unknown = [], []
        for p in normal:
            made = [e for e in p.events if e[0] == "call" and e[1].split(".")[-1] in ("NamedTemporaryFile", "mkstemp", "mktemp", "TemporaryFile")]
            if len(made) != 1:
                unknown.append(f"{len(made)} temporary-file creations on one path")
                continue
            mk = made[0]
            kind = mk[1].split(".")[-1]
            kws = {a[0]: a[1] for a in mk[3] if isinstance(a, tuple) and len(a) == 2 and isinstance(a[0], str) and a[0] not in ("c", "p")}
            if kind not in ("NamedTemporaryFile", "mkstemp"):
                unknown.append(f"file created by {mk[1]}")
                continue
            if kind == "NamedTemporaryFile" and kws.get("delete") != ("c", False):
                problems.append("the file is created with delete=True: it vanishes when the handle is closed")
                continue
            objs = [t for e in p.events for x in e[1:] if isinstance(x, tuple) for t in subterms(x)
                    if t[0] == "eff" and t[1] == kind] + [t for t in subterms(p.value) if t[0] == "eff" and t[1] == kind]
            if not objs:
                unknown.append("the created file object is not used")
                continue
            obj = objs[0]
            if kind == "NamedTemporaryFile":
                def is_name(t):
                    return isinstance(t, tuple) and t[0] == "attr" and t[1] == obj and t[2] == "name"
                closed = any(e[0] == "call" and e[1] == "close" and e[2] == obj for e in p.events) or \
                    any(e[0] == "with" and e[1] == obj for e in p.events)
            else:
                def is_name(t):
                    return isinstance(t, tuple) and t[0] == "sub" and t[1] == obj and t[2] == ("c", 1)
                closed = any(e[0] == "call" and e[1] in ("os.close", "close") and e[3] and e[3][0][:3] == ("sub", obj, ("c", 0))
                             for e in p.events)
            apps = [e for e in p.events if e[0] == "call" and e[1] == "append" and _self_field(e[2], reg)]
            good_apps = [e for e in apps if len(e[3]) == 1 and is_name(e[3][0])]
            if len(good_apps) != 1 or len(apps) != 1:
                problems.append(f"the created name is not appended exactly once to self.{reg} on every path")
            elif not closed:
                problems.append("the handle is not closed")
            elif not is_name(p.value):
                problems.append("create() does not return the registered name")
        if problems:
            rep.viol("C20.R2", f, "create", sorted(set(problems))[0],
                     scenario="a created file that is not registered survives flush() and the end of the context")
        elif unknown:
            rep.unrec("C20.R2", f, "create", sorted(set(unknown))[0])
        else:
            rep.ok("C20.R2", f, "create", f"on each of {len(normal)} normal paths: name of the created file (delete=False) appended to "
                   f"self.{reg}, handle closed, name returned")
    o = prog.resolve(fp, "open")
    rep.fn(o)
    files_f, mode_f = _filepool_fields(prog, fp)
    paths, un = summaries(prog, o, fp)
    normal = [p for p in paths if p.exit == "return"]
    stores = []
    for p in normal:
        for fld, t in p.heap.items():
            if isinstance(t, tuple) and t[0] == "comp" and t[1] == "dict":
                stores.append((fld, t))
    if un or not normal:
        rep.unrec("C20.R2", o, "open-all", "; ".join(un) or "no normal path through open()")
    elif not stores:
        opens = [e for p in normal for e in p.events if e[0] == "call" and e[1] == "open"]
        early = None
        for p in normal:
            evs = list(p.events)
            for i, e in enumerate(evs):
                if e[0] == "setfield" and isinstance(e[2], tuple) and e[2][0] in ("dict", "comp", "call") and e[2] != ("c", None):
                    if any(x[0] == "call" and x[1] == "open" for x in evs[i + 1:]):
                        early = e[1]
        if early:
            rep.viol("C20.R2", o, "open-all", f"self.{early} is put on the pool before every file is open: when a later open() fails the "
                     "handles opened so far stay referenced by a pool that looks opened, and nothing closes them (the context was "
                     "never entered, so __exit__ does not run)",
                     scenario="FilePool(['a', 'missing'], 'r').open(): 'a' stays open after the FileNotFoundError; len(pool) works")
        elif opens:
            rep.unrec("C20.R2", o, "open-all", "open() opens files but the mapping it builds is not a recognised {path: open(path, mode)} table")
        else:
            rep.viol("C20.R2", o, "open-all", "FilePool.open does not map every given path to open(path, self.<mode>)",
                     scenario="some of the given files are not opened (or opened in another mode): pool[path] raises KeyError")
    else:
        ok = True
        for fld, t in stores:
            (k, v), it_term, conds, lid = t[2], t[3], t[4], t[5]
            good = _self_field(_unwrap_copy(it_term), files_f) and not conds and k[0] == "elem" and _self_field(_unwrap_copy(k[1]), files_f) \
                and isinstance(v, tuple) and v[0] == "eff" and v[1] == "open" and len(v[3]) >= 2 and v[3][0] == k and _self_field(v[3][1], mode_f)
            ok = ok and good
        _MGR["handles_field"] = stores[0][0]
        rep.check("C20.R2", o, "open-all", ok, "{path: open(path, mode) for path in files}, unfiltered",
                  "FilePool.open does not map every given path to open(path, self.<mode>)",
                  scenario="some of the given files are not opened (or opened in another mode): pool[path] raises KeyError")


_MGR = {"self": "self", "fields": set()}


def _is_manager_list(call: ast.Call) -> bool:
    """<manager field of the pool>.list(...)  (the manager fields are those assigned from a Manager() construction)"""
    return isinstance(call.func, ast.Attribute) and call.func.attr == "list" and is_manager_expr(call.func.value, _MGR["self"], _MGR["fields"])


def _multi_proc_field(prog, tp: Cls) -> str:
    """the field that holds the constructor's multi-process switch: the parameter (or the field it is stored in) on which the
    creation of the Manager depends, by an `if` or by a conditional expression"""
    init = prog.method_view(tp, "__init__")
    stored = {}
    for n in walk_own(init.node):
        if isinstance(n, ast.Assign) and isinstance(n.value, ast.Name) and n.value.id in init.params:
            d = dotted(n.targets[0])
            if d and len(d) == 2 and d[0] == init.self_name:
                stored[n.value.id] = d[1]

    def switch_of(test) -> Optional[str]:
        t = test.operand if isinstance(test, ast.UnaryOp) and isinstance(test.op, ast.Not) else test
        if isinstance(t, ast.Name) and t.id in stored:
            return stored[t.id]
        d = dotted(t)
        if d and len(d) == 2 and d[0] == init.self_name and d[1] in stored.values():
            return d[1]
        return None

    def has_manager(nodes) -> bool:
        return any(isinstance(c, ast.Call) and src(c.func).split(".")[-1] in ("Manager", "SyncManager")
                   for x in nodes for c in ast.walk(x))
    for n in walk_own(init.node):
        if isinstance(n, ast.If) and has_manager(n.body + n.orelse):
            sw = switch_of(n.test)
            if sw:
                return sw
        if isinstance(n, ast.IfExp) and has_manager([n.body, n.orelse]):
            sw = switch_of(n.test)
            if sw:
                return sw
    raise AnalysisError("TmpPool.__init__: the field holding the multi-process switch was not found")


def _registry_field(prog, tp: Cls) -> str:
    ln = prog.method(tp, "__len__")
    for r in returns_of(ln.node):
        v = r.value
        if isinstance(v, ast.Call) and src(v.func) == "len" and dotted(v.args[0]) and len(dotted(v.args[0])) == 2:
            return dotted(v.args[0])[1]
    raise AnalysisError("TmpPool.__len__ does not return len(self.<registry>)")


def _filepool_fields(prog, fp: Cls) -> Tuple[str, str]:
    init = prog.method(fp, "__init__")
    m = {}
    for n in walk_own(init.node):
        if isinstance(n, ast.Assign) and isinstance(n.value, ast.Name) and n.value.id in init.params:
            d = dotted(n.targets[0])
            if d and len(d) == 2:
                m[n.value.id] = d[1]
    return m.get(init.params[1], "_files"), m.get(init.params[2], "_mode")


def r3_covers(prog, rep: Report, tp: Cls, fp: Cls):
    rep.rule("C20.R3", "cleanup covers the registry: flush removes each registered path (tolerating FileNotFoundError) and then "
             "replaces the registry by an empty one of the right kind (manager list iff multi_proc; __enter__ makes it a manager "
             "list iff multi_proc); remove deletes the file and unregisters the path; FilePool.close closes each handle and "
             "drops the mapping", floor=5)
    reg = _registry_field(prog, tp)
    mpf = _multi_proc_field(prog, tp)
    f = prog.resolve(tp, "flush")
    rep.fn(f)

    def is_reg0(t) -> bool:
        """the registry as it was when the method was entered (possibly through a copy)"""
        t = _unwrap_copy(t)
        return _self_field(t, reg) and (len(t) == 3 or t[3] == 0)
    paths, un = summaries(prog, f, tp)
    if un:
        rep.unrec("C20.R3", f, "flush-removes-all", "; ".join(un))
        rep.unrec("C20.R3", f, "flush-resets-registry", "; ".join(un))
    else:
        normal = [p for p in paths if p.exit == "return"]
        raising = [p for p in paths if p.exit != "return"]
        def knows_empty(p) -> bool:
            """the path was taken because the registry is empty: nothing to remove (a fast path in front of the loop)"""
            for t, outcome in p.decisions:
                neg = False
                while isinstance(t, tuple) and t and t[0] == "not":
                    t, neg = t[1], not neg
                if is_reg0(t) and (outcome != neg) is False:
                    return True
                if isinstance(t, tuple) and t and t[0] == "cmp" and t[1] in ("Eq", "LtE") and isinstance(t[2], tuple) \
                        and t[2][:2] == ("call", "len") and t[2][2] and is_reg0(t[2][2][0]) and t[3] == ("c", 0) and (outcome != neg):
                    return True
            return False
        looped = [p for p in normal if any(e[0] == "loop" and is_reg0(e[2]) for e in p.events) or knows_empty(p)]
        why = None
        if not normal:
            why = "flush has no normal path"
        elif len(looped) != len(normal):
            why = f"flush does not loop over self.{reg} on every path"
        else:
            rounds = 0
            tolerant = False
            for p in normal + raising:
                evs = list(p.events)
                for i, e in enumerate(evs):
                    if e[0] == "iter" and isinstance(e[2], tuple) and e[2][0] == "elem" and is_reg0(e[2][1]):
                        rounds += 1
                        rest = evs[i + 1:]
                        rm = [x for x in rest if x[0] == "call" and x[1] in ("os.remove", "os.unlink") and x[3] == (e[2],)]
                        if len(rm) != 1:
                            why = why or ("the loop can skip registered paths" if not rm else "each registered path is not removed exactly once")
                        elif any(x[0] == "handler" and x[1] in ("FileNotFoundError", "OSError", "Exception") for x in rest) \
                                and p.exit == "return":
                            tolerant = True
            if why is None and not rounds:
                why = "the loop body was not understood"
            if why is None and not tolerant:
                why = "a file that is already gone aborts the flush (FileNotFoundError not tolerated)"
            if why is None and any(e[0] == "raise" for p in raising for e in p.events):
                why = "flush raises from inside the removal loop: the remaining files stay on disk"
        rep.check("C20.R3", f, "flush-removes-all", why is None, f"os.remove(p) for every p in self.{reg}, tolerating FileNotFoundError",
                  why or "", scenario="create three files, delete one by hand, flush(): the remaining files must be removed too")
        # registry reset of the right kind, per mode
        bad = None
        for mode in (True, False):
            ps, un2 = summaries(prog, f, tp, assume=_assume_field(mpf, mode))
            for p in [q for q in ps if q.exit == "return"]:
                t = p.heap.get(reg)
                if mode and not (t is not None and _is_manager_list_term(t) and not t[3]):
                    bad = bad or ("multi_proc", t)
                if not mode and t is None and knows_empty(p):
                    continue         # single-process pool whose (plain) list is already empty: keeping it is the same as a new []
                if not mode and t != ("list",):
                    bad = bad or ("single-process", t)
        rep.check("C20.R3", f, "flush-resets-registry", bad is None, "registry replaced by a manager list iff multi_proc, else []",
                  "after flush the registry is not an empty list of the right kind (manager list iff multi_proc)"
                  + (f": for a {bad[0]} pool it is {show(bad[1]) if bad[1] is not None else 'left as it was'}" if bad else ""),
                  scenario="multi_proc pool: flush(), then a child process calls create(): with a plain list the parent never learns "
                           "about the file and leaves it behind")
    en = prog.resolve(tp, "__enter__")
    rep.fn(en)
    # per mode (multi_proc / single process): what does __enter__ make of the registry?
    #   multi_proc : it must become a manager list (children append to it) that starts with the paths already registered
    #   single     : it must not be replaced at all, or only by a container that starts with the registered paths
    problems = []
    unrec = []
    for mode in (True, False):
        ps, un2 = summaries(prog, en, tp, assume=_assume_field(mpf, mode))
        unrec += un2
        for p in [q for q in ps if q.exit == "return"]:
            t = p.heap.get(reg)
            carries = t is not None and isinstance(t, tuple) and t[0] in ("eff", "call") and len(t[3] if t[0] == "eff" else t[2]) == 1 \
                and is_reg0((t[3] if t[0] == "eff" else t[2])[0])
            if mode:
                if t is None:
                    problems.append(("multi_proc", "__enter__ does not make the registry a manager list for a multi_proc pool",
                                     "files created by child processes are appended to the child's private copy of the list and survive the context"))
                elif not _is_manager_list_term(t):
                    problems.append(("multi_proc", f"for a multi_proc pool the registry becomes `{show(t)}`, not a manager list",
                                     "files created by child processes are appended to the child's private copy of the list and survive the context"))
                elif not carries:
                    problems.append(("multi_proc", f"`{show(t)}` replaces the registry without the paths already registered",
                                     "p = TmpPool(multi_proc=True); p.create(); with p: pass  -> the file is no longer listed and stays on disk"))
            elif t is not None and not carries:
                problems.append(("single", f"for a single-process pool __enter__ replaces the registry by `{show(t)}`, forgetting the paths "
                                           "already registered",
                                 "p = TmpPool(); p.create(); with p: pass  -> the file is no longer listed and stays on disk"))
            if p.value != ("self",):
                problems.append(("result", "__enter__ does not return the pool", "`with TmpPool() as pool` binds None"))
    if unrec:
        rep.unrec("C20.R3", en, "enter-registry", "; ".join(unrec))
    elif problems:
        for mode, why, scen in sorted(set(problems)):
            rep.viol("C20.R3", en, f"enter-registry:{mode}", why, scenario=scen)
    else:
        rep.ok("C20.R3", en, "enter-registry", "__enter__ makes the registry a manager list seeded with the registered paths iff "
               "multi_proc, leaves it alone otherwise, and returns the pool")
    rmv = prog.resolve(tp, "remove")
    rep.fn(rmv)
    pth = ("p", rmv.params[1])
    ps, un2 = summaries(prog, rmv, tp)
    normal = [q for q in ps if q.exit == "return"]
    if un2 or not normal:
        rep.unrec("C20.R3", rmv, "remove", "; ".join(un2) or "no normal path")
        rep.unrec("C20.R3", rmv, "remove-order", "; ".join(un2) or "no normal path")
    else:
        both, order_ok = True, True
        for q in normal:
            rm = [i for i, e in enumerate(q.events) if e[0] == "call" and e[1] in ("os.remove", "os.unlink") and e[3] == (pth,)]
            unreg = [i for i, e in enumerate(q.events) if e[0] == "call" and e[1] == "remove" and _self_field(e[2], reg) and e[3] == (pth,)]
            if len(rm) != 1 or len(unreg) != 1:
                both = False
            if rm and unreg and not rm[0] < unreg[0]:
                order_ok = False
            if unreg and not rm:
                order_ok = False
        rep.check("C20.R3", rmv, "remove-order", order_ok, "the path is unregistered only after the deletion was attempted",
                  "remove() drops the path from the registry before os.remove ran: if the deletion fails (e.g. PermissionError) the file "
                  "stays on disk but is no longer listed, so neither flush() nor leaving the context removes it",
                  scenario="os.remove raises PermissionError once inside remove(p): afterwards p exists but the pool does not list it")
        rep.check("C20.R3", rmv, "remove", both, "deletes the file and unregisters the path",
                  "remove() does not both delete the file and (unconditionally) unregister the path",
                  scenario="pool.remove(p) leaves p listed: len(pool) and pool[i] disagree with the files on disk")
    cl = prog.resolve(fp, "close")
    rep.fn(cl)
    hf = _MGR.get("handles_field")
    ps, un2 = summaries(prog, cl, fp)
    if un2 or hf is None:
        rep.unrec("C20.R3", cl, "close-all", "; ".join(un2) or "the field holding the handles was not found in open()")
        return

    def is_hf0(t) -> bool:
        return _self_field(t, hf) and (len(t) == 3 or t[3] == 0)

    def nothing_open(q) -> bool:
        for d, o in q.decisions:
            neg = False
            while isinstance(d, tuple) and d and d[0] == "not":
                d, neg = d[1], not neg
            val = (o != neg)
            if is_hf0(d) and not val:
                return True                                   # the mapping is falsy: None or empty
            if isinstance(d, tuple) and d[0] == "cmp" and is_hf0(d[2]) and d[3] == ("c", None) and \
                    ((d[1] == "Is" and val) or (d[1] == "IsNot" and not val)):
                return True
            if isinstance(d, tuple) and d[0] == "mcall" and d[1] == "closed" and not val:
                return False
        return False
    why = None
    line = None
    for q in ps:
        loops = [e for e in q.events if e[0] == "loop"]
        walks = [e for e in loops if isinstance(_unwrap_copy(e[2]), tuple) and _unwrap_copy(e[2])[0] == "mcall"
                 and _unwrap_copy(e[2])[1] in ("values", "items") and is_hf0(_unwrap_copy(e[2])[2])]
        item_walks = {e[1]: _unwrap_copy(e[2])[2] for e in walks if _unwrap_copy(e[2])[1] == "items"}   # loop id -> the mapping term
        if q.exit != "return":
            if any(e[0] == "raise" for e in q.events):
                why = why or "close() raises instead of closing the handles"
            continue
        if not walks:
            if not nothing_open(q):
                why = why or "close() can return before any handle is closed" + \
                    (f" (when `{show(q.decisions[-1][0])}` is {q.decisions[-1][1]})" if q.decisions else "")
            continue
        evs = list(q.events)
        for i, e in enumerate(evs):
            if e[0] == "iter" and isinstance(e[2], tuple) and e[2][0] == "elem":
                closes = [x for x in evs[i + 1:] if x[0] == "call" and x[1] == "close" and x[2] == e[2]]
                if len(closes) != 1:
                    why = why or "a handle of the mapping is not closed (the loop can skip it)"
            if e[0] == "iter" and e[1] in item_walks:
                # for path, handle in mapping.items(): the handle is the value half of the pair
                val = ("val", item_walks[e[1]], e[1])
                closes = [x for x in evs[i + 1:] if x[0] == "call" and x[1] == "close" and x[2] == val]
                if len(closes) != 1:
                    why = why or "a handle of the mapping is not closed (the loop can skip it)"
        if q.heap.get(hf) != ("c", None):
            why = why or "the mapping is not dropped (set to None) after the handles were closed"
    if why and "before any handle" in why:
        rep.viol("C20.R3", cl, "close-all", why,
                 scenario="the with-body closes one handle itself (or the guard is true for another reason): the other "
                          "handles stay open after the context")
    else:
        rep.check("C20.R3", cl, "close-all", why is None, "closes every handle of the mapping, then drops the mapping",
                  "FilePool.close does not close every handle of the mapping and drop it afterwards" + (f": {why}" if why else ""),
                  scenario="after the with block some handle.closed is False")
