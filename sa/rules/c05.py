"""C05 — FunctorMap and mul_p_map return map(f, data) in input order (DESIGN.md §6; siblings of the C01 templates)."""
from __future__ import annotations

import ast
from typing import Dict, List, Optional, Set, Tuple

from ..absint import Client, Ctx, Interp
from ..flow import Flow
from ..model import AnalysisError, Cls, Func, Program, walk_own
from ..report import Report
from ..resolve import const_value, dotted, kwarg
from ..util import calls_in, returns_of, src
from .c01 import _incs_of, _yield_all_of, param_used_only_for_iteration
from .poolfam import chunking_idiom, queue_call, tag_pass_through

POOLS_MOD = "windpyutils.parallel.pools"
MAPS_MOD = "windpyutils.parallel.maps"
WORKERS_MOD = "windpyutils.parallel.workers"


def _queues_by_role(f: Func) -> Tuple[Optional[str], Optional[str]]:
    """(work queue expr, results queue expr) of a worker run(): the queue it gets from / puts to"""
    work = res = None
    for c in calls_in(f.node):
        qc = queue_call(c)
        if qc and qc[0] == "get":
            work = src(c.func.value)
        elif qc and qc[0] == "put":
            res = src(c.func.value)
        elif isinstance(c.func, ast.Name) and c.func.id == "iter" and len(c.args) == 2 and isinstance(c.args[0], ast.Attribute) \
                and c.args[0].attr == "get" and const_value(c.args[1], 0) is None:
            work = src(c.args[0].value)                       # for item in iter(<queue>.get, None)
    return work, res


def run(prog: Program, rep: Report):
    from . import c01 as _c01
    _c01._PROG[0] = prog
    fw = prog.cls("FunctorWorker", POOLS_MOD)
    fm = prog.cls("FunctorMap", POOLS_MOD)
    fr = prog.cls("FunRunner", WORKERS_MOD)
    mp = prog.func("mul_p_map", MAPS_MOD)
    rep.attempt(lambda: r1_tags(prog, rep, fw, fr))
    rep.attempt(lambda: r2_accounting(prog, rep, fm, mp))
    rep.attempt(lambda: r3_owed(prog, rep, fm, mp))
    rep.attempt(lambda: r4_sorted(prog, rep, mp))
    rep.attempt(lambda: r5_shutdown(prog, rep, fm, mp))
    rep.rule("C05.R6", "chunking idiom instance of FunctorMap.__call__ (C01.R8)", floor=1)
    from .poolfam import chunk_generators
    from .c01 import _data_param
    gens = chunk_generators(prog, fm, prog.method(fm, "__call__"))
    if gens:
        chunking_idiom(prog, rep, "C05.R6", gens[0], "chunking", data_expr=_data_param(gens[0]))
    rep.attempt(lambda: r7_input(prog, rep, fm, mp))
    from .ownership import rule_no_class_state
    rep.attempt(lambda: rule_no_class_state(prog, rep, "C05.R8", [fm, fw, fr]))
    rep.attempt(lambda: r9_results_buffered(prog, rep, fm, fr, mp))


def r9_results_buffered(prog, rep: Report, fm: Cls, fr: Cls, mp: Func):
    """the producer blocks in put() on the bounded work queue while the workers deliver results; that is only free of a cyclic wait
    when a worker's put of a result never waits for the producer: an unbounded multiprocessing.Queue() (its feeder thread takes the
    item at once).  A SimpleQueue / Pipe writes into the OS pipe synchronously, a bounded Queue(n) fills up."""
    rep.rule("C05.R9", "results never block a worker: the queue the workers put results on is built by `Queue()` without a bound (a "
             "feeder thread buffers every item); a SimpleQueue / Pipe (synchronous pipe write) or a bounded results queue lets every "
             "worker wait in put() for the producer, which waits in put() on the bounded work queue", floor=2)
    sites = []
    call = prog.method(fm, "__call__")
    init = prog.resolve(fm, "__init__")
    got = {dotted(c.func.value)[1] for c in calls_in(call.node) if queue_call(c) and queue_call(c)[0] == "get"
           and dotted(c.func.value) and len(dotted(c.func.value)) == 2 and dotted(c.func.value)[0] == call.self_name}
    if init is not None:
        from ..util import iter_stores
        for t, v, st in iter_stores(init.node):
            d = dotted(t)
            if d and len(d) == 2 and d[0] == init.self_name and d[1] in got and v is not None:
                sites.append((init, f"results-queue:{fm.name}.{d[1]}", v, st.lineno))
    got_c = {dotted(c.func.value)[-1] for c in calls_in(mp.node) if queue_call(c) and queue_call(c)[0] == "get" and dotted(c.func.value)
             and len(dotted(c.func.value)) == 2 and dotted(c.func.value)[0] == fr.name.split(".")[-1]}
    for st in fr.node.body:
        if isinstance(st, ast.Assign) and len(st.targets) == 1 and isinstance(st.targets[0], ast.Name) and st.targets[0].id in got_c:
            anchor = prog.resolve(fr, "run") or next(iter(fr.methods.values()))
            sites.append((anchor, f"results-queue:{fr.name}.{st.targets[0].id}", st.value, st.lineno))
    if not sites:
        rep.unrec("C05.R9", call, "results-queue", "where the results queues are constructed was not found")
        return
    for f, role, v, line in sites:
        rep.fn(f)
        name = src(v.func).split(".")[-1] if isinstance(v, ast.Call) else ""
        bound = None
        if isinstance(v, ast.Call):
            bound = kwarg(v, "maxsize", 0)
        if name in ("SimpleQueue", "Pipe"):
            rep.viol("C05.R9", f, role, f"the results queue is `{src(v)}`: its put() writes into the OS pipe synchronously and blocks once the "
                     "pipe is full", line=line,
                     scenario="results larger than the pipe capacity (~64 KiB per chunk): every worker waits in put() for the producer, the "
                              "producer waits in put() on the full work queue: the call never returns")
        elif name in ("Queue", "JoinableQueue") and bound is not None and not (isinstance(const_value(bound, None), int) and const_value(bound, None) <= 0):
            rep.viol("C05.R9", f, role, f"the results queue is bounded (`{src(v)}`): a worker's put() waits for the producer once it is full",
                     line=line, scenario="more finished chunks than the bound while the producer waits on the full work queue: cyclic wait")
        elif name in ("Queue", "JoinableQueue"):
            rep.ok("C05.R9", f, role, f"`{src(v)}`: unbounded, buffered by the queue's feeder thread")
        else:
            rep.unrec("C05.R9", f, role, f"the results queue is built by `{src(v)}`: whether its put() can wait is not read", line)


def r1_tags(prog, rep: Report, fw: Cls, fr: Cls):
    rep.rule("C05.R1", "tag pass-through in both worker run()s: (index of the work item unmodified, order-preserving unfiltered "
             "map of the function over its data)", floor=2)
    for c in (fw, fr):
        run_ = prog.method(c, "run")
        work, res = _queues_by_role(run_)
        sn = run_.self_name
        # the function field: constructor parameter stored on self and called in run
        fn_field = None
        for call in calls_in(run_.node):
            d = dotted(call.func)
            if d and len(d) == 2 and d[0] == sn and len(call.args) == 1 and d[1] not in ("WORK_QUEUE", "RESULTS_QUEUE"):
                fn_field = d[1]

        def work_get(x, work=work):
            return queue_call(x) is not None and queue_call(x)[0] == "get" and src(x.func.value) == work

        def res_put(x, res=res):
            return queue_call(x) is not None and queue_call(x)[0] == "put" and src(x.func.value) == res

        def functor(fn, call, fn_field=fn_field, sn=sn):
            return dotted(fn) == (sn, fn_field)

        tag_pass_through(prog, rep, "C05.R1", run_, work_get, res_put, functor)
        # loop shape: sentinel ends the loop, anything else is processed
        loops = [n for n in walk_own(run_.node) if isinstance(n, ast.While)]
        ok = len(loops) == 1
        if ok:
            lp = loops[0]
            brk = [n for n in ast.walk(lp) if isinstance(n, ast.Break)]
            ok = len(brk) == 1 and isinstance(getattr(brk[0], "_parent", None), ast.If) \
                and "is None" in src(brk[0]._parent.test)
            if not ok and not brk and isinstance(lp.test, ast.Compare) and len(lp.test.ops) == 1 and isinstance(lp.test.ops[0], ast.IsNot) \
                    and isinstance(lp.test.comparators[0], ast.Constant) and lp.test.comparators[0].value is None \
                    and isinstance(lp.test.left, ast.Name):
                # priming-read form:  item = get();  while item is not None: ...; item = get()
                from ..flow import Flow
                defs = Flow(run_.node).defs_of(lp.test.left)
                ok = bool(defs) and all(isinstance(d_.value, ast.Call) and work_get(d_.value) for d_ in defs) \
                    and isinstance(lp.body[-1], ast.Assign) and isinstance(lp.body[-1].value, ast.Call) and work_get(lp.body[-1].value)
        if not ok and not loops:
            # for item in iter(<work queue>.get, None): the loop ends exactly when the sentinel arrives (no break, no else)
            fl = [n for n in walk_own(run_.node) if isinstance(n, ast.For) and isinstance(n.iter, ast.Call) and src(n.iter.func) == "iter"
                  and len(n.iter.args) == 2 and isinstance(n.iter.args[0], ast.Attribute) and n.iter.args[0].attr == "get"
                  and src(n.iter.args[0].value) == work and const_value(n.iter.args[1], 0) is None]
            ok = len(fl) == 1 and not any(isinstance(x, (ast.Break, ast.Return)) for x in ast.walk(fl[0]))
        rep.check("C05.R1", run_, "loop", ok, "the worker loop ends only on the None sentinel",
                  "the worker loop does not end exactly on the None sentinel",
                  scenario="a worker stops early (work is never processed, the call hangs) or never stops (join hangs)")


def r2_accounting(prog, rep: Report, fm: Cls, mp: Func):
    rep.rule("C05.R2", "accounting: each work put is followed by one sent-counter increment; each chunk emitted by the reorder "
             "buffer increments the finished counter once and is yielded completely in order; mul_p_map appends every received "
             "result as (index, value)", floor=3)
    f = prog.method(fm, "__call__")
    rep.fn(f, mp)
    # FunctorMap: for i, chunk in enumerate(chunking(data)): put((i, chunk)); data_cnt += 1
    probs = []
    send_loops = [n for n in f.node.body if isinstance(n, ast.For) and isinstance(n.iter, ast.Call) and src(n.iter.func) == "enumerate"]
    if len(send_loops) != 1:
        rep.unrec("C05.R2", f, "send", "send loop `for i, chunk in enumerate(chunking(data))` not found")
    else:
        sl = send_loops[0]
        i_name, c_name = (src(x) for x in sl.target.elts) if isinstance(sl.target, ast.Tuple) else ("?", "?")
        puts = [st for st in sl.body if isinstance(st, ast.Expr) and isinstance(st.value, ast.Call) and queue_call(st.value)
                and queue_call(st.value)[0] == "put"]
        unknown = []
        start = kwarg(sl.iter, "start", 1)
        start_v = 0 if start is None else const_value(start, None)
        if len(puts) > 1:
            probs.append(f"the send loop puts {len(puts)} times per chunk")
        elif not puts:
            unknown.append("no put at the top level of the send loop")
        else:
            a = puts[0].value.args[0] if puts[0].value.args else None
            if not (isinstance(a, ast.Tuple) and len(a.elts) == 2):
                unknown.append(f"the send loop puts `{src(a) if a is not None else ''}`, not an (index, chunk) pair")
            elif src(a.elts[1]) != c_name:
                probs.append(f"the send loop does not put exactly ({i_name}, {c_name}) once per chunk")
            elif src(a.elts[0]) == i_name and start_v == 0:
                pass
            elif isinstance(start_v, int) and start_v > 0 and src(a.elts[0]) in (f"{i_name} - {start_v}",):
                pass                                     # enumerate(..., start=k) with the tag i - k: the same 0-based positions
            elif src(a.elts[0]) == i_name:
                probs.append(f"the send loop does not put exactly ({i_name}, {c_name}) once per chunk (positions start at {src(start)})")
            else:
                unknown.append(f"the position put with a chunk is `{src(a.elts[0])}`")
        sent = None
        for k, st in enumerate(sl.body):
            if isinstance(st, ast.AugAssign) and isinstance(st.target, ast.Name) and isinstance(st.op, ast.Add) and const_value(st.value) == 1:
                sent = st.target.id
                if not (puts and sl.body.index(puts[0]) < k):
                    probs.append("the sent counter is incremented before the put")
        if sent is None:
            # for sent, chunk in enumerate(chunks, start=1): the loop variable is the count (0 before the loop for empty input)
            zero_before = any(isinstance(z, ast.Assign) and isinstance(z.targets[0], ast.Name) and z.targets[0].id == i_name
                              and const_value(z.value, None) == 0 and z.lineno < sl.lineno for z in f.node.body)
            if start_v == 1 and zero_before:
                sent = i_name
            elif start_v == 0 and not any(isinstance(st, (ast.AugAssign, ast.Assign)) for st in sl.body):
                probs.append("no `sent += 1` at the top level of the send loop")
            else:
                unknown.append("how the number of sent chunks is counted")
        if unknown and not probs:
            rep.unrec("C05.R2", f, "send", "; ".join(unknown) + ": not read", sl.lineno)
        else:
            rep.check("C05.R2", f, "send", not probs, f"put(({i_name}, {c_name})) then {sent} += 1, once per chunk", "; ".join(probs),
                      scenario="a chunk is sent but not counted: its results are never waited for and are lost", line=sl.lineno)
    # emit loops
    buf_names = {n.targets[0].id for n in f.node.body if isinstance(n, ast.Assign) and isinstance(n.targets[0], ast.Name)
                 and isinstance(n.value, ast.Call) and isinstance(n.value.func, ast.Name)
                 and getattr(prog.lookup_class(f.mod, n.value.func.id), "name", None) == "Buffer"}
    emits = [n for n in ast.walk(f.node) if isinstance(n, ast.For) and isinstance(n.iter, ast.Call) and isinstance(n.iter.func, ast.Name)
             and n.iter.func.id in buf_names]
    fin = None
    sent_name = None
    for sl_ in [n for n in f.node.body if isinstance(n, ast.For)]:
        for st_ in sl_.body:
            if isinstance(st_, ast.AugAssign) and isinstance(st_.target, ast.Name):
                sent_name = st_.target.id
    for w in [n for n in f.node.body if isinstance(n, ast.While)]:
        if isinstance(w.test, ast.Compare) and len(w.test.ops) == 1:
            names = [x.id for x in (w.test.left, w.test.comparators[0]) if isinstance(x, ast.Name)]
            others = [x for x in names if x != sent_name]
            if len(names) == 2 and len(others) == 1:
                fin = others[0]
    if len(emits) < 2 or fin is None:
        rep.unrec("C05.R2", f, "emit", f"expected two `for ch in buffer(i, chunk)` loops and a `while finished < sent`, found {len(emits)}")
    else:
        for k, e in enumerate(emits):
            ps = []
            st = getattr(e, "_parent", None)
            # the receive statement just before: res_i, res_chunk = queue.get(...)
            prev = None
            for blk in ("body", "orelse"):
                lst = getattr(st, blk, None)
                if isinstance(lst, list) and e in lst and lst.index(e) > 0:
                    prev = lst[lst.index(e) - 1]
            if not (isinstance(prev, ast.Assign) and isinstance(prev.targets[0], ast.Tuple) and isinstance(prev.value, ast.Call)
                    and queue_call(prev.value) and [src(x) for x in prev.targets[0].elts] == [src(a) for a in e.iter.args]):
                ps.append("the buffer is not fed the (index, chunk) pair just received, in that role order")
            ch = src(e.target)
            if _incs_of(e.body, fin) != 1:
                ps.append(f"each emitted chunk must increment `{fin}` exactly once")
            if _yield_all_of(e.body, ch) != 1 or len(e.body) != 2:
                ps.append("each emitted chunk must be yielded completely, once, in order")
            rep.check("C05.R2", f, f"emit:{'while-sending' if k == 0 else 'drain'}", not ps,
                      "received pair fed to the buffer; one increment and one complete yield per emitted chunk", "; ".join(ps),
                      scenario="results are yielded twice / partially, or the final wait loop never ends", line=e.lineno)
    # mul_p_map
    res_names = set()
    for r_ in returns_of(mp.node):
        for n_ in ast.walk(r_):
            if isinstance(n_, ast.Call) and src(n_.func) == "sorted" and n_.args and isinstance(n_.args[0], ast.Name):
                res_names.add(n_.args[0].id)
    for c_ in calls_in(mp.node):
        if isinstance(c_.func, ast.Attribute) and c_.func.attr == "sort" and isinstance(c_.func.value, ast.Name):
            res_names.add(c_.func.value.id)
    apps = [c for c in calls_in(mp.node) if isinstance(c.func, ast.Attribute) and c.func.attr == "append"
            and isinstance(c.func.value, ast.Name) and (c.func.value.id in res_names or not res_names)]
    ok = len(apps) >= 2
    for a in apps:
        arg = a.args[0] if a.args else None
        st = getattr(getattr(a, "_parent", None), "_parent", None)
        good = isinstance(arg, ast.Tuple) and len(arg.elts) == 2 and isinstance(arg.elts[0], ast.Subscript) \
            and const_value(arg.elts[0].slice) == 0 and isinstance(arg.elts[1], ast.Subscript) \
            and isinstance(arg.elts[1].value, ast.Subscript) and const_value(arg.elts[1].value.slice) == 1 \
            and const_value(arg.elts[1].slice) == 0 and src(arg.elts[0].value) == src(arg.elts[1].value.value)
        ok = ok and good
    if not ok:
        # the same question on the path summaries (module-level private helpers followed): every append that hands on something
        # taken from a queue must append (item[0], item[1][0]) of one received item
        from ..paths import strip_versions, subterms, summaries
        ps_, un_ = summaries(prog, mp, None)
        good_sites, bad_sites = set(), set()
        for p_ in ps_:
            for e in p_.events:
                if e[0] == "call" and e[1] == "append" and len(e[3]) == 1:
                    arg = strip_versions(e[3][0])
                    gets = [t for t in subterms(arg) if t[0] == "eff" and t[1] == "get"]
                    if not gets:
                        continue
                    g_ = gets[0]
                    want = ("tuple", ("sub", g_, ("c", 0)), ("sub", ("sub", g_, ("c", 1)), ("c", 0)))
                    (good_sites if arg == want else bad_sites).add(e[4])
        if not un_ and good_sites and not bad_sites:
            ok = True
            apps = sorted(good_sites)
    if not ok and not apps:
        # nothing is appended at all: the results are collected in another container (a dict by index, a pre-sized list):
        # another scheme than the (index, value) pairs + final sort this rule and C05.R4 follow
        rep.unrec("C05.R2", mp, "collect", "the received results are not collected by appending (index, value) pairs")
    else:
        rep.check("C05.R2", mp, "collect", ok, f"{len(apps)} receive sites append (act[0], act[1][0])",
                  "a received result is not appended as (index, first element of the value list)",
                  scenario="results are collected without their index or with the wrong component: the final sort cannot restore the order")
    puts = [c for c in calls_in(mp.node) if queue_call(c) and queue_call(c)[0] == "put" and c.args and isinstance(c.args[0], ast.Tuple)]
    send_ok = False
    for n in walk_own(mp.node):
        if isinstance(n, ast.For) and isinstance(n.iter, ast.Call) and src(n.iter.func) == "enumerate" and isinstance(n.target, ast.Tuple):
            i_name, d_name = (src(x) for x in n.target.elts)
            ps = [c for c in puts if any(c is x for x in ast.walk(n))]
            incs = [st for st in n.body if isinstance(st, ast.AugAssign) and isinstance(st.op, ast.Add) and const_value(st.value) == 1]
            # the count may also be taken from the enumerate index of this very loop: cnt = i + 1 (cnt initialised to 0 before it)
            incs += [st for st in n.body if isinstance(st, ast.Assign) and isinstance(st.targets[0], ast.Name)
                     and src(st.value) in (f"{i_name} + 1", f"1 + {i_name}") and len(n.iter.args) == 1
                     and any(isinstance(z, ast.Assign) and isinstance(z.targets[0], ast.Name) and z.targets[0].id == st.targets[0].id
                             and const_value(z.value) == 0 and z.lineno < n.lineno for z in walk_own(mp.node))]
            send_ok = len(ps) == 1 and src(ps[0].args[0]) == f"({i_name}, [{d_name}])" and len(incs) == 1
    rep.check("C05.R2", mp, "send", send_ok, "put((i, [d])) and one counter increment per input element",
              "mul_p_map does not put (i, [d]) once and count once per input element",
              scenario="an element is sent without being counted: its result is never collected")


def r3_owed(prog, rep: Report, fm: Cls, mp: Func):
    rep.rule("C05.R3", "every blocking get is owed: it sits in a loop guarded by `finished < sent`; every non-blocking get is inside "
             "a queue.Empty handler", floor=4)
    for f in (prog.method_view(fm, "__call__") or prog.method(fm, "__call__"), __import__("sa.inline", fromlist=["inline_view"]).inline_view(prog, None, mp)):
        # read with private helpers inlined (sa/inline.py): a drain loop moved into a helper is still this function's get
        rep.fn(f)
        for c in calls_in(f.node):
            qc = queue_call(c)
            if not qc or qc[0] != "get":
                continue
            if qc[1] == "blocking":
                lp = None
                p = getattr(c, "_parent", None)
                counted = None
                while p is not None and not isinstance(p, ast.FunctionDef):
                    if isinstance(p, ast.While):
                        lp = p
                        break
                    if isinstance(p, ast.For) and isinstance(p.iter, ast.Call) and src(p.iter.func) == "range" and len(p.iter.args) == 1 \
                            and isinstance(p.iter.args[0], ast.BinOp) and isinstance(p.iter.args[0].op, ast.Sub) and counted is None \
                            and not any(isinstance(x, (ast.Break, ast.Continue)) for x in ast.walk(p)):
                        # for _ in range(<sent> - <finished>): one blocking get per result still owed
                        counted = ast.copy_location(ast.Compare(left=p.iter.args[0].right, ops=[ast.Lt()], comparators=[p.iter.args[0].left]), p)
                        ast.fix_missing_locations(counted)
                        break
                    p = getattr(p, "_parent", None)
                if counted is not None and _owed_test(counted, f):
                    rep.ok("C05.R3", f, "get:blocking", f"blocking get once per owed result: `for _ in {src(p.iter)}`")
                    continue
                owed = lp is not None and _owed_test(lp.test, f)
                if lp is not None and owed is None and not (isinstance(lp.test, ast.Constant) and lp.test.value is True):
                    rep.unrec("C05.R3", f, "get:blocking", f"blocking get under `while {src(lp.test)}`: the test does not compare with the "
                              "counter of sent chunks; how it bounds the waiting is not read", c.lineno)
                    continue
                owed = bool(owed)
                rep.check("C05.R3", f, f"get:blocking", owed, f"blocking get under `while {src(lp.test) if lp is not None else '?'}`",
                          "a blocking get on the results queue is not guarded by `finished < sent`: it waits for a result nobody owes",
                          scenario="input shorter than expected / empty input: the call blocks forever in get()", line=c.lineno)
            elif qc[1] == "blocking?":
                rep.unrec("C05.R3", f, "get:blocking", f"`{src(c)}`: whether this get blocks is decided by a run-time flag", c.lineno)
            elif qc[1] == "nonblocking":
                from .c02 import _in_empty_handler
                h = _in_empty_handler(c)
                rep.check("C05.R3", f, "get:nonblocking", h is not None, "non-blocking get inside a queue.Empty handler",
                          "queue.Empty of a non-blocking get is not handled", scenario="queue.Empty escapes to the caller",
                          line=c.lineno)


def _owed_test(test, f: Func):
    """`finished < sent` in either orientation (or !=), where `sent` is the counter incremented next to the work puts: True;
    a comparison with the sent counter that also holds when both sides are equal (nothing owed): False; a test that does not mention
    the sent counter: None (how it bounds the waiting is not read)"""
    _FLIP = {ast.Lt: ast.GtE, ast.GtE: ast.Lt, ast.Gt: ast.LtE, ast.LtE: ast.Gt, ast.Eq: ast.NotEq, ast.NotEq: ast.Eq}
    if isinstance(test, ast.UnaryOp) and isinstance(test.op, ast.Not) and isinstance(test.operand, ast.Compare) \
            and len(test.operand.ops) == 1 and type(test.operand.ops[0]) in _FLIP:
        c0 = test.operand                      # two counts: the negation is the flipped comparison
        test = ast.copy_location(ast.Compare(left=c0.left, ops=[_FLIP[type(c0.ops[0])]()], comparators=c0.comparators), test)
    if not (isinstance(test, ast.Compare) and len(test.ops) == 1):
        return None
    sent = set()
    for n in ast.walk(f.node):
        if isinstance(n, ast.For):
            has_put = any(isinstance(c, ast.Call) and queue_call(c) and queue_call(c)[0] == "put" for c in ast.walk(n))
            if has_put:
                for st in n.body:
                    if isinstance(st, ast.AugAssign) and isinstance(st.target, ast.Name):
                        sent.add(st.target.id)
                    # the count taken from the enumerate index of the send loop:  sent = i + 1
                    if isinstance(st, ast.Assign) and isinstance(st.targets[0], ast.Name) and isinstance(n.target, ast.Tuple) \
                            and isinstance(n.iter, ast.Call) and src(n.iter.func) == "enumerate" \
                            and src(st.value) in (f"{src(n.target.elts[0])} + 1", f"1 + {src(n.target.elts[0])}"):
                        sent.add(st.targets[0].id)
                # for sent, chunk in enumerate(chunks, start=1): the loop variable counts the puts
                if isinstance(n.target, ast.Tuple) and isinstance(n.iter, ast.Call) and src(n.iter.func) == "enumerate" \
                        and const_value(kwarg(n.iter, "start", 1), None) == 1 and isinstance(n.target.elts[0], ast.Name):
                    sent.add(n.target.elts[0].id)
    l, r, op = test.left, test.comparators[0], test.ops[0]
    if isinstance(r, ast.Name) and r.id in sent:
        return isinstance(op, (ast.Lt, ast.NotEq))
    if isinstance(l, ast.Name) and l.id in sent:
        return isinstance(op, (ast.Gt, ast.NotEq))
    return None


def r4_sorted(prog, rep: Report, mp: Func):
    rep.rule("C05.R4", "mul_p_map returns the second components of the collected (index, value) pairs sorted by the first component",
             floor=1)
    rep.fn(mp)
    rets = returns_of(mp.node)
    ok, why = False, "no return"
    def _sorted_values(v) -> bool:
        if isinstance(v, ast.ListComp) and len(v.generators) == 1 and not v.generators[0].ifs:
            g = v.generators[0]
            it = g.iter
            if isinstance(it, ast.Call) and src(it.func) == "sorted" and it.args and isinstance(g.target, ast.Tuple) and len(g.target.elts) == 2:
                key = next((k.value for k in it.keywords if k.arg == "key"), None)
                rev = next((k.value for k in it.keywords if k.arg == "reverse"), None)
                key_ok = key is None or (isinstance(key, ast.Lambda) and isinstance(key.body, ast.Subscript)
                                         and const_value(key.body.slice) == 0)
                return key_ok and src(v.elt) == src(g.target.elts[1]) and (rev is None or const_value(rev) is False)
        return False
    def _index_key(key) -> bool:
        return key is None or (isinstance(key, ast.Lambda) and isinstance(key.body, ast.Subscript) and const_value(key.body.slice) == 0) \
            or (isinstance(key, ast.Call) and src(key.func).split(".")[-1] == "itemgetter" and len(key.args) == 1 and const_value(key.args[0]) == 0)
    if len(rets) == 1 and isinstance(rets[0].value, ast.ListComp) and len(rets[0].value.generators) == 1 \
            and isinstance(rets[0].value.generators[0].iter, ast.Name) and rets[0] in mp.node.body:
        # pairs.sort(key=<index>) directly before  return [value for index, value in pairs]
        v0 = rets[0].value
        g0 = v0.generators[0]
        k0 = mp.node.body.index(rets[0])
        prev = mp.node.body[k0 - 1] if k0 > 0 else None
        if isinstance(prev, ast.Expr) and isinstance(prev.value, ast.Call) and isinstance(prev.value.func, ast.Attribute) \
                and prev.value.func.attr == "sort" and src(prev.value.func.value) == g0.iter.id and not prev.value.args:
            key0 = next((k.value for k in prev.value.keywords if k.arg == "key"), None)
            rev0 = next((k.value for k in prev.value.keywords if k.arg == "reverse"), None)
            if _index_key(key0) and (rev0 is None or const_value(rev0) is False) and not g0.ifs and isinstance(g0.target, ast.Tuple) \
                    and len(g0.target.elts) == 2 and src(v0.elt) == src(g0.target.elts[1]):
                rep.ok("C05.R4", mp, "sorted-by-index", "pairs sorted in place by their index, then the values returned in that order")
                return
    if len(rets) > 1:
        others = [r for r in rets if r.value is None or not _sorted_values(r.value)]
        ok = not others
        if others:
            why = (f"{len(rets)} return statements; `{src(others[0])}` at line {others[0].lineno} does not return the values sorted by "
                   "their input index (it hands back the internal (index, value) pairs or nothing)")
    if len(rets) == 1:
        v = rets[0].value
        why = f"`{src(v)}` is not [value for index, value in sorted(pairs, key=index)]"
        if isinstance(v, ast.ListComp) and len(v.generators) == 1 and not v.generators[0].ifs:
            g = v.generators[0]
            it = g.iter
            if isinstance(it, ast.Call) and src(it.func) == "sorted" and it.args and isinstance(g.target, ast.Tuple) and len(g.target.elts) == 2:
                key = next((k.value for k in it.keywords if k.arg == "key"), None)
                rev = next((k.value for k in it.keywords if k.arg == "reverse"), None)
                key_ok = key is None or (isinstance(key, ast.Lambda) and isinstance(key.body, ast.Subscript)
                                         and const_value(key.body.slice) == 0)
                elt_ok = src(v.elt) == src(g.target.elts[1])
                ok = key_ok and elt_ok and (rev is None or const_value(rev) is False)
    if not ok and len(rets) == 1 and not any(isinstance(n_, ast.Call) and (src(n_.func) == "sorted" or (isinstance(n_.func, ast.Attribute)
                                                                                                  and n_.func.attr == "sort"))
                                              for n_ in ast.walk(mp.node)):
        # no sort at all and a single return: the order is restored some other way (values kept by index and read out
        # position by position); whether that is right is not something this rule's shape can tell
        v_ = rets[0].value
        by_position = isinstance(v_, ast.ListComp) and len(v_.generators) == 1 and isinstance(v_.elt, ast.Subscript) \
            and isinstance(v_.generators[0].iter, ast.Call) and src(v_.generators[0].iter.func) == "range" \
            and src(v_.elt.slice) == src(v_.generators[0].target)
        if by_position:
            rep.unrec("C05.R4", mp, "sorted-by-index", f"`{src(v_)}` reads the results out by position instead of sorting (index, value) pairs")
            return
    rep.check("C05.R4", mp, "sorted-by-index", ok, "returns the values sorted by their input index", why,
              scenario="results arrive out of order from several workers: without the sort by index the output order is the arrival order")


def r5_shutdown(prog, rep: Report, fm: Cls, mp: Func):
    rep.rule("C05.R5", "shutdown: one None sentinel per started worker after the last work put, every worker joined; FunctorMap's "
             "buffer and counters are locals of the call", floor=4)
    ex = prog.method(fm, "__exit__")
    rep.fn(ex, mp)
    sn = ex.self_name
    loops = [n for n in ex.node.body if isinstance(n, ast.For)]
    sent = [l for l in loops if any(queue_call(c) and queue_call(c)[0] == "put" and c.args and const_value(c.args[0], 0) is None
                                    for c in ast.walk(l) if isinstance(c, ast.Call))]
    joins = [l for l in loops if any(isinstance(c, ast.Call) and isinstance(c.func, ast.Attribute) and c.func.attr == "join"
                                     for c in ast.walk(l))]
    from ..flow import Flow as _Fl
    from ..util import expand_all as _ea
    _xfl = _Fl(ex.node)
    ok = len(sent) == 1 and src(_ea(sent[0].iter, _xfl)) in (f"range(len({sn}.procs))", f"{sn}.procs") and len(sent[0].body) == 1
    rep.check("C05.R5", ex, "sentinels", ok, "one None per element of self.procs", "__exit__ does not send one None per worker",
              scenario="FunctorMap with 3 workers sends 2 sentinels: join() of the third never returns")
    ok = len(joins) == 1 and src(joins[0].iter) == f"{sn}.procs" and (not sent or ex.node.body.index(sent[0]) < ex.node.body.index(joins[0])) \
        and not any(isinstance(x, (ast.Break, ast.If)) for x in ast.walk(joins[0]))
    rep.check("C05.R5", ex, "joins", ok, "every worker joined after the sentinels", "__exit__ does not join every worker after the sentinels",
              scenario="a worker process outlives the with block")
    # mul_p_map
    body = mp.node.body
    sent_i = join_i = last_put_i = None
    workers = mp.params[2] if len(mp.params) > 2 else None
    sent_ok = False
    for i, st in enumerate(body):
        for c in ast.walk(st):
            if isinstance(c, ast.Call) and queue_call(c) and queue_call(c)[0] == "put" and c.args:
                if const_value(c.args[0], 0) is None:
                    sent_i = i
                    sent_ok = isinstance(st, ast.For) and src(st.iter) in (f"range({workers})", "procs", "range(len(procs))") and len(st.body) == 1
                else:
                    last_put_i = i
            if isinstance(c, ast.Call) and isinstance(c.func, ast.Attribute) and c.func.attr == "join" and isinstance(st, ast.For):
                join_i = i
    rep.check("C05.R5", mp, "sentinels", sent_i is not None and sent_ok and (last_put_i is None or last_put_i < sent_i),
              "one None per worker, after the last work put", "mul_p_map does not send one None per worker after the last work item",
              scenario="a sentinel overtakes work: a worker stops while items are still queued and nobody processes them")
    # the sentinel count is the number of workers *started*: `range(workers)` sentinels need `workers` processes started
    # unconditionally; a start that sits under a test (workers started on demand) starts fewer, and the surplus None stays in the
    # class-level work queue for the next call's workers to swallow
    if sent_i is not None and isinstance(body[sent_i], ast.For) and src(body[sent_i].iter) == f"range({workers})":
        cond_starts = []
        for st in body:
            for c in ast.walk(st):
                if isinstance(c, ast.Call) and isinstance(c.func, ast.Attribute) and c.func.attr == "start" and not c.args:
                    anc = getattr(c, "_parent", None)
                    while anc is not None and anc is not mp.node:
                        if isinstance(anc, (ast.If, ast.While, ast.Try)):
                            cond_starts.append((c, anc))
                            break
                        anc = getattr(anc, "_parent", None)
        rep.check("C05.R5", mp, "sentinels:started", not cond_starts, f"{workers} workers are started unconditionally, {workers} sentinels sent",
                  (f"`{src(cond_starts[0][0])}` runs under `{src(cond_starts[0][1]).splitlines()[0][:60]}`: fewer than `{workers}` workers may be "
                   f"started, but range({workers}) sentinels are sent: the surplus None stays in the shared work queue") if cond_starts else "",
                  scenario="mul_p_map(f, [7], 3) leaves two None in FunRunner.WORK_QUEUE; the workers of the next call take them and "
                           "exit, and that call waits for results forever",
                  line=cond_starts[0][0].lineno if cond_starts else None)
    drain_i = None
    for i, st in enumerate(body):
        if isinstance(st, (ast.While, ast.For)) and any(isinstance(c, ast.Call) and queue_call(c) and queue_call(c) == ("get", "blocking")
                                                        for c in ast.walk(st)):
            drain_i = i               # (a counted `for _ in range(sent - finished)` drains like the `while finished < sent` loop)
    rep.check("C05.R5", mp, "joins", join_i is not None and sent_i is not None and join_i > sent_i,
              "every worker joined after the sentinels", "mul_p_map does not join its workers after sending the sentinels",
              scenario="worker processes are left running after the call returned")
    # all paths: once the workers run, nothing leaves the function before the sentinels were sent and the workers joined
    start_i = next((i for i, st in enumerate(body) if any(isinstance(c, ast.Call) and isinstance(c.func, ast.Attribute)
                                                          and c.func.attr == "start" for c in ast.walk(st))), None)
    early = []
    if start_i is not None and join_i is not None:
        for st in body[start_i + 1:join_i]:
            early += [x for x in ast.walk(st) if isinstance(x, (ast.Return, ast.Raise))]
    rep.check("C05.R5", mp, "no-early-exit", start_i is not None and join_i is not None and not early,
              "no return/raise between starting the workers and joining them",
              f"mul_p_map can leave at line {early[0].lineno if early else '?'} after the workers were started, without sending the "
              "sentinels and joining them",
              scenario="mul_p_map(f, []) leaves its workers alive on the shared class-level queues: they take items and sentinels of "
                       "the next call (results of the old f, or a hang in join())", line=early[0].lineno if early else None)
    if drain_i is None and any(isinstance(c, ast.Call) and queue_call(c) and queue_call(c)[0] == "get" and queue_call(c)[1] == "blocking?"
                               for c in ast.walk(mp.node)):
        rep.unrec("C05.R5", mp, "join-after-drain", "the results are taken by a get whose blocking mode is a run-time flag: the drain loop "
                  "cannot be placed relative to the joins")
    else:
      rep.check("C05.R5", mp, "join-after-drain", join_i is not None and drain_i is not None and join_i > drain_i,
              "workers are joined only after every owed result was collected",
              "the workers are joined before the remaining results were taken from the results queue: a worker that still has "
              "to write a result larger than the pipe buffer never exits, join() never returns and nobody reads the pipe",
              scenario="f(x) = str(x) * 400000: the last results do not fit into the queue's pipe, the worker blocks in its feeder "
                       "thread, join() blocks the parent: deadlock")
    call = prog.method(fm, "__call__")
    stores = [n for n in walk_own(call.node) if isinstance(n, (ast.Assign, ast.AugAssign))
              and any(dotted(t) and dotted(t)[0] == call.self_name for t in (n.targets if isinstance(n, ast.Assign) else [n.target]))]
    def _makes_buffer(e) -> bool:
        """Buffer(), or an object of a helper class of the package whose constructor creates its own Buffer()"""
        if not isinstance(e, ast.Call):
            return False
        nm = src(e.func)
        if nm == "Buffer":
            return True
        k = next((k for k in prog.classes.values() if not k.is_external and k.name == nm.split(".")[-1]), None)
        init = k.methods.get("__init__") if k is not None else None
        return init is not None and any(isinstance(n, ast.Assign) and isinstance(n.value, ast.Call) and src(n.value.func) == "Buffer"
                                        and isinstance(n.targets[0], ast.Attribute) for n in walk_own(init.node))
    buf_local = any(isinstance(n, ast.Assign) and isinstance(n.targets[0], ast.Name) and _makes_buffer(n.value) for n in call.node.body)
    rep.check("C05.R5", call, "call-local", not stores and buf_local, "buffer and counters are locals of the call",
              "FunctorMap.__call__ keeps per-call state on the object (or shares the reorder buffer between calls)",
              scenario="a second call on the same FunctorMap starts with the previous call's buffer cursor and rejects chunk 0")


def r7_input(prog, rep: Report, fm: Cls, mp: Func):
    rep.rule("C05.R7", "input consumed once, by iteration only (C01.R10) in FunctorMap.__call__ and mul_p_map", floor=2)
    call = prog.method(fm, "__call__")
    from .poolfam import chunk_generators
    from .c01 import _data_param
    chunkers = chunk_generators(prog, fm, call)
    gens = {g.name for g in call.nested.values()} | {g.name for g in chunkers}
    probs = param_used_only_for_iteration(call, call.params[1], gens)
    rep.fn(call, mp)
    rep.check("C05.R7", call, "input", not probs, f"`{call.params[1]}` only handed to the chunking generator", "; ".join(probs),
              scenario="a generator input is measured with len() or traversed twice")
    # only the generators that are handed the input (a nested generator that regroups *results* is not a reader of the input)
    fed = {src(c.func).split(".")[-1] for c in calls_in(call.node)
           if any(isinstance(a, ast.Name) and a.id == call.params[1] for a in c.args)}
    for g in chunkers:
        if g.name not in fed:
            continue
        if g.is_generator and _data_param(g):
            ps = param_used_only_for_iteration(g, _data_param(g), set())
            rep.check("C05.R7", g, "input", not ps, f"`{_data_param(g)}` iterated once", "; ".join(ps),
                      scenario="a generator input is measured with len() or traversed twice")
    probs = param_used_only_for_iteration(mp, mp.params[1], set())
    rep.check("C05.R7", mp, "input", not probs, f"`{mp.params[1]}` iterated once", "; ".join(probs),
              scenario="a generator input is measured with len() or traversed twice")
