"""C10 — SpanSet operators follow their membership-based definitions for every relation (DESIGN.md §6)."""
from __future__ import annotations

import ast
from typing import Dict, List, Optional, Tuple

from ..flow import Flow
from ..model import AnalysisError, Cls, Func, Program, walk_own
from ..orderings import NotAFormula, eval_order, eval_prop, weak_orderings
from ..report import Report
from ..resolve import const_value, dotted
from ..util import returns_of, src
from .oneshot import oneshot_rule

SPAN_MOD = "windpyutils.structures.span_set"
ROLES = ["xs", "xe", "ys", "ye"]

RELATION_SPECS = {
    "SpanSetExactEqRelation": ("xs == ys and xe == ye", lambda v: v["xs"] == v["ys"] and v["xe"] == v["ye"], None),
    "SpanSetPartOfEqRelation": ("ys <= xs and xe <= ye", lambda v: v["ys"] <= v["xs"] and v["xe"] <= v["ye"], None),
    "SpanSetIncludesEqRelation": ("xs <= ys and ye <= xe", lambda v: v["xs"] <= v["ys"] and v["ye"] <= v["xe"], None),
    "SpanSetOverlapsEqRelation": ("max(xs, ys) <= min(xe, ye) on well-formed spans",
                                  lambda v: max(v["xs"], v["ys"]) <= min(v["xe"], v["ye"]),
                                  lambda v: v["xs"] <= v["xe"] and v["ys"] <= v["ye"]),
}


def eval_body(stmts, env: Dict[str, int], bools: Dict[str, bool]) -> Optional[bool]:
    """evaluate a loop-free function body (if / return / boolean local assignments) under a rank assignment"""
    for st in stmts:
        if isinstance(st, ast.Expr) and isinstance(st.value, ast.Constant):
            continue
        if isinstance(st, ast.Return):
            return _ev(st.value, env, bools)
        if isinstance(st, ast.If):
            branch = st.body if _ev(st.test, env, bools) else st.orelse
            r = eval_body(branch, env, bools)
            if r is not None:
                return r
            continue
        if isinstance(st, ast.Assign) and len(st.targets) == 1 and isinstance(st.targets[0], ast.Name):
            try:
                bools[st.targets[0].id] = _ev(st.value, env, bools)
            except NotAFormula:
                # numeric local (e.g. lo = max(xs, ys)) : bind as a term
                raise
            continue
        if isinstance(st, ast.Pass):
            continue
        raise NotAFormula(f"statement {type(st).__name__}")
    return None


def _ev(e, env, bools) -> bool:
    if isinstance(e, ast.Name) and e.id in bools:
        return bools[e.id]
    if isinstance(e, ast.BoolOp):
        vals = [_ev(v, env, bools) for v in e.values]
        return all(vals) if isinstance(e.op, ast.And) else any(vals)
    if isinstance(e, ast.UnaryOp) and isinstance(e.op, ast.Not):
        return not _ev(e.operand, env, bools)
    return eval_order(e, env)


def run(prog: Program, rep: Report):
    ss = prog.cls("SpanSet", SPAN_MOD)
    rep.attempt(lambda: r1_relations(prog, rep))
    rep.attempt(lambda: r2_sites(prog, rep, ss))
    rep.attempt(lambda: r3_operators(prog, rep, ss))
    rep.attempt(lambda: r4_comparisons(prog, rep, ss))
    rep.attempt(lambda: r5_arrays(prog, rep, ss))
    rep.attempt(lambda: r8_input_order(prog, rep, ss))
    from .ownership import rule_no_class_state
    rep.attempt(lambda: rule_no_class_state(prog, rep, "C10.R9", [ss]))
    from .memo import public_entry_points, rule_derived_state
    rep.attempt(lambda: rule_derived_state(prog, rep, "C10.R7", ss, {"starts", "ends", "eq_relation"}, public_entry_points(prog, ss)))
    rep.attempt(lambda: oneshot_rule(prog, rep, "C10.R6", [prog.method(ss, "__init__"), prog.method(ss, "isdisjoint")]))


def relation_formula_check(prog, rep: Report, rule: str, cname: str, closed_only: bool = False):
    text, spec, dom = RELATION_SPECS[cname]
    c = prog.cls(cname, SPAN_MOD)
    f = prog.method(c, "__call__")
    rep.fn(f)
    params = f.params[1:]
    if len(params) != 4:
        rep.unrec(rule, f, "formula", f"relation takes {len(params)} operands, expected 4")
        return
    W = weak_orderings(ROLES)
    bad = []
    n = 0
    for w in W:
        if dom is not None and not dom(w):
            continue
        env = {p: w[r] for p, r in zip(params, ROLES)}
        try:
            got = eval_body(f.node.body, env, {})
        except NotAFormula as e:
            rep.unrec(rule, f, "formula", f"relation body is not a loop-free comparison formula: {e}")
            return
        n += 1
        if got != spec(w):
            bad.append({"ordering": w, "relation_returns": got, "definition": spec(w)})
    rep.count("orderings_evaluated", n)
    rets = returns_of(f.node)
    shown = src(rets[0].value) if rets and rets[0].value is not None else "?"
    rep.check(rule, f, "formula", not bad, f"`{shown}` equals `{text}` on all {n} weak orderings of the endpoints",
              f"`{shown}` differs from the definition `{text}` on {len(bad)} of {n} weak orderings, e.g. "
              f"{_fmt_order(bad[0]['ordering']) if bad else ''}: returns {bad[0]['relation_returns'] if bad else ''}",
              witness=bad[:5],
              scenario=("two spans ordered " + _fmt_order(bad[0]["ordering"]) + " are related the wrong way: `in`, "
                        "construction de-duplication and every operator built on them give a wrong answer") if bad else "")


def _fmt_order(w: Dict[str, int]) -> str:
    groups: Dict[int, List[str]] = {}
    for k, v in w.items():
        groups.setdefault(v, []).append(k)
    return " < ".join("=".join(groups[r]) for r in sorted(groups))


def r1_relations(prog, rep: Report):
    rep.rule("C10.R1", "relations: each SpanSet*EqRelation.__call__ body is evaluated on all 75 weak orderings of "
             "(x_start, x_end, y_start, y_end) and compared with its definition (Overlaps on well-formed spans)", floor=4)
    for cname in RELATION_SPECS:
        relation_formula_check(prog, rep, "C10.R1", cname)


# ---------------------------------------------------------------------------------------------- R2
def _eq_calls(f: Func) -> List[ast.Call]:
    out = []
    # a parameter that this very function stores into self.eq_relation (and never re-binds) names the same relation
    same = set()
    for n in walk_own(f.node):
        if isinstance(n, ast.Assign) and len(n.targets) == 1 and dotted(n.targets[0]) == (f.self_name, "eq_relation") \
                and isinstance(n.value, ast.Name) and n.value.id in f.params:
            if not any(isinstance(x, ast.Name) and x.id == n.value.id and isinstance(x.ctx, (ast.Store, ast.Del)) for x in ast.walk(f.node)):
                same.add(n.value.id)
    for n in ast.walk(f.node):
        if isinstance(n, ast.Call) and isinstance(n.func, ast.Name) and n.func.id in same:
            out.append(n)
    for n in walk_own(f.node):
        if isinstance(n, ast.Call) and isinstance(n.func, ast.Attribute) and n.func.attr == "eq_relation" \
                and isinstance(n.func.value, ast.Name) and n.func.value.id == f.self_name:
            out.append(n)
    for n in ast.walk(f.node):  # inside generator expressions too
        if isinstance(n, ast.Call) and isinstance(n.func, ast.Attribute) and n.func.attr == "eq_relation" \
                and isinstance(n.func.value, ast.Name) and n.func.value.id == f.self_name and n not in out:
            out.append(n)
    return out


def _stored_pair(a3, a4, f: Func, flow: Flow) -> Optional[str]:
    """is (a3, a4) = (self.starts[j], self.ends[j]) for one common position j?  returns a description or None"""
    sn = f.self_name

    def arr_at(e) -> Optional[Tuple[str, str]]:
        # self.<arr>[j]  -> (arr, 'j')
        if isinstance(e, ast.Subscript) and dotted(e.value) and dotted(e.value)[0] == sn and len(dotted(e.value)) == 2:
            return dotted(e.value)[1], src(e.slice)
        # loop variable of `for j, v in enumerate(self.<arr>)` / `for v in self.<arr>` / zip
        if isinstance(e, ast.Name):
            for d in flow.defs_of(e):
                if d.kind in ("for", "comp") and isinstance(d.value, ast.expr):
                    it = d.value
                    if isinstance(it, ast.Call) and src(it.func) == "enumerate" and it.args:
                        dd = dotted(it.args[0])
                        if dd and dd[0] == sn and len(dd) == 2 and d.index == (1,):
                            tgt = d.node.target if hasattr(d.node, "target") else None
                            jname = src(tgt.elts[0]) if isinstance(tgt, ast.Tuple) else "?"
                            return dd[1], jname
                    if isinstance(it, ast.Call) and src(it.func) == "zip":
                        for k, a in enumerate(it.args):
                            dd = dotted(a)
                            if dd and dd[0] == sn and len(dd) == 2 and d.index == (k,):
                                return dd[1], "zip"
        return None

    p3, p4 = arr_at(a3), arr_at(a4)
    if p3 and p4 and p3[0] == "starts" and p4[0] == "ends" and p3[1] == p4[1]:
        return f"(self.starts[{p3[1]}], self.ends[{p4[1]}])"
    # (ks, ke) unpacked from one element of a local list of kept (start, end) pairs: `for ks, ke in kept` where `kept` starts empty,
    # only ever receives `kept.append((<start>, <end>))`, and is projected into self.starts / self.ends ([p[0] for p in kept] ...);
    # the projection and the append are checked by the keep-iff-no-match clause
    if isinstance(a3, ast.Name) and isinstance(a4, ast.Name):
        d3, d4 = list(flow.defs_of(a3)), list(flow.defs_of(a4))
        if len(d3) == 1 and len(d4) == 1 and d3[0].kind == "for" and d4[0].kind == "for" and d3[0].node is d4[0].node \
                and d3[0].index == (0,) and d4[0].index == (1,) and isinstance(d3[0].value, ast.Name):
            K = d3[0].value.id
            apps = [n for n in ast.walk(f.node) if isinstance(n, ast.Call) and src(n.func) == f"{K}.append"]
            inits = [n for n in ast.walk(f.node) if isinstance(n, ast.Assign) and len(n.targets) == 1 and src(n.targets[0]) == K]
            other = [n for n in ast.walk(f.node) if isinstance(n, ast.Call) and isinstance(n.func, ast.Attribute)
                     and src(n.func.value) == K and n.func.attr not in ("append",)]
            if apps and inits and not other and all(isinstance(n.value, ast.List) and not n.value.elts for n in inits) \
                    and all(len(n.args) == 1 and isinstance(n.args[0], ast.Tuple) and len(n.args[0].elts) == 2 for n in apps):
                return f"(start, end) of one pair of the local list `{K}`"
    return None


def r2_sites(prog, rep: Report, ss: Cls, rule: str = "C10.R2", floor: int = 3):
    rep.rule(rule, "membership and construction agree: every eq_relation call passes (probe start, probe end, stored "
             "start, stored end) with the stored pair taken at one common index; __contains__ is an existential scan over "
             "all stored spans; the constructor keeps a span iff no span kept so far matches", floor=floor)
    # ---- __contains__
    f = prog.method(ss, "__contains__")
    rep.fn(f)
    flow = Flow(f.node)
    span = f.params[1]
    calls = _eq_calls(f)
    if len(calls) != 1:
        rep.unrec(rule, f, "contains", f"expected one eq_relation call, found {len(calls)}")
    else:
        c = calls[0]
        a = c.args
        probe_ok = len(a) == 4 and _is_component(a[0], span, 0, flow) and _is_component(a[1], span, 1, flow)
        stored = _stored_pair(a[2], a[3], f, flow) if len(a) == 4 else None
        rep.check(rule, f, "contains:roles", probe_ok and stored is not None,
                  f"eq_relation(probe[0], probe[1], {stored})",
                  f"argument roles of `{src(c)}` are not (probe start, probe end, stored start, stored end at one index)",
                  scenario="with an asymmetric relation (PartOf/Includes) `x in S` answers the converse question; or start "
                           "and end of different stored spans are combined", line=c.lineno)
        scan_ = _existential_scan(f, c)
        if scan_ is None:
            rep.unrec(rule, f, "contains:scan", "__contains__ is not written as one of the read forms of an existential scan (return True in "
                      "the match test / any(...) / a found flag set with break)")
        else:
          rep.check(rule, f, "contains:scan", scan_,
                  "returns True on the first match over all stored spans and False after the scan",
                  "__contains__ is not an existential scan (True inside the match test over all stored spans, False after it)",
                  scenario="a span related only to the last stored span is reported absent (scan ends early), or an empty set "
                           "contains everything")
    # ---- constructor (with its private helpers inlined, sa/inline.py)
    f = prog.method_view(ss, "__init__")
    rep.fn(f)
    flow = Flow(f.node)
    calls = _eq_calls(f)
    if len(calls) < 1:
        rep.unrec(rule, f, "init", "no eq_relation call in the constructor")
        return
    for k, c in enumerate(calls):
        a = c.args
        stored = _stored_pair(a[2], a[3], f, flow) if len(a) == 4 else None
        loop = _enclosing_for(c, 2)
        inner = _enclosing_for(c, 1)
        new_pair = None
        if loop is not None and len(a) == 4:
            # a local that merely names a component of the new span (end = ends[i]) stands for that component
            a0 = flow.expand(a[0]) if isinstance(a[0], ast.Name) and not _is_loop_var(loop, a[0].id) else a[0]
            a1 = flow.expand(a[1]) if isinstance(a[1], ast.Name) and not _is_loop_var(loop, a[1].id) else a[1]
            new_pair = _new_span_pair(loop, a0, a1, f)
            a = [a0, a1] + list(a[2:])
        role = f"init:branch{k}"
        if stored is not None and new_pair is not None:
            rep.ok(rule, f, role + ":roles", f"eq_relation({new_pair}, {stored})")
        else:
            # positively wrong: the kept pair stands in the first two positions (the converse relation), or the two kept components
            # come from different positions; anything else is a shape this rule does not follow
            conv = _stored_pair(a[0], a[1], f, flow) if len(a) == 4 else None
            mixed = len(a) == 4 and stored is None and all(isinstance(x, ast.Subscript) and dotted(x.value) and dotted(x.value)[0] == f.self_name
                                                            for x in (a[2], a[3])) and src(a[2].slice) != src(a[3].slice)
            if conv is not None or mixed:
                rep.viol(rule, f, role + ":roles", f"argument roles of `{src(c)}` are not (new start, new end, kept start, kept end at one index)",
                         scenario="construction with PartOf/Includes keeps or drops the wrong spans (converse relation), so "
                                  "len(SpanSet(...)) and every operator result differ from the definition", line=c.lineno)
            else:
                rep.unrec(rule, f, role + ":roles", f"the arguments of `{src(c)[:120]}` could not be traced to (new span, kept span at one index)",
                          c.lineno)
        # keep-iff-no-match: flag False + break inside the match; append both under the flag after the inner loop
        ok, why = _keep_iff_no_match(loop, inner, c, a, f)
        if ok is None:
            rep.unrec(rule, f, role + ":keep-iff-no-match", why, c.lineno)
        else:
            rep.check(rule, f, role + ":keep-iff-no-match", ok, "span appended iff the scan over the kept spans found no match",
                      why, scenario="SpanSet([(1,2),(1,2)]) keeps both spans, or drops a span that matches nothing",
                      line=c.lineno)


def _is_component(e, name: str, i: int, flow: Flow) -> bool:
    if isinstance(e, ast.Subscript) and isinstance(e.value, ast.Name) and e.value.id == name and const_value(e.slice) == i:
        return True
    if isinstance(e, ast.Name):
        ds = flow.defs_of(e)
        return bool(ds) and all(d.kind == "unpack" and isinstance(d.value, ast.Name) and d.value.id == name and d.index == (i,)
                                for d in ds)
    return False


def _existential_scan(f: Func, call: ast.Call) -> bool:
    body = [st for st in f.node.body if not (isinstance(st, ast.Expr) and isinstance(st.value, ast.Constant))]
    # form 1: for ...: if call: return True ; return False
    if len(body) == 2 and isinstance(body[0], ast.For) and isinstance(body[1], ast.Return) \
            and const_value(body[1].value) is False and not body[0].orelse:
        loop = body[0]
        if len(loop.body) == 1 and isinstance(loop.body[0], ast.If) and loop.body[0].test is call \
                and not loop.body[0].orelse and len(loop.body[0].body) == 1 \
                and isinstance(loop.body[0].body[0], ast.Return) and const_value(loop.body[0].body[0].value) is True:
            it = loop.iter
            return "self.starts" in src(it) and "[" not in src(it)
    # form 2: return any(call for ... in zip(self.starts, self.ends))
    if len(body) == 1 and isinstance(body[0], ast.Return):
        v = body[0].value
        if isinstance(v, ast.Call) and src(v.func) == "any" and len(v.args) == 1 and isinstance(v.args[0], ast.GeneratorExp):
            g = v.args[0]
            return g.elt is call and len(g.generators) == 1 and not g.generators[0].ifs and "self.starts" in src(g.generators[0].iter)
    # form 3 (the flag spelling): found = False; for ...: if call: found = True; break;  return found
    if len(body) == 3 and isinstance(body[0], ast.Assign) and len(body[0].targets) == 1 and isinstance(body[0].targets[0], ast.Name) \
            and const_value(body[0].value) is False and isinstance(body[1], ast.For) and not body[1].orelse \
            and isinstance(body[2], ast.Return) and isinstance(body[2].value, ast.Name) and body[2].value.id == body[0].targets[0].id:
        flag, loop = body[0].targets[0].id, body[1]
        if len(loop.body) == 1 and isinstance(loop.body[0], ast.If) and loop.body[0].test is call and not loop.body[0].orelse \
                and len(loop.body[0].body) == 2 and isinstance(loop.body[0].body[0], ast.Assign) \
                and isinstance(loop.body[0].body[0].targets[0], ast.Name) and loop.body[0].body[0].targets[0].id == flag \
                and const_value(loop.body[0].body[0].value) is True and isinstance(loop.body[0].body[1], ast.Break) \
                and sum(1 for n in ast.walk(f.node) if isinstance(n, ast.Name) and n.id == flag) == 3:
            it = loop.iter
            return "self.starts" in src(it) and "[" not in src(it)
    # positively wrong: the scan is ended by a mismatch (`return False` / `break` on the else side inside the loop), or the
    # function answers True after the loop; any other spelling is not read
    loops = [n for n in walk_own(f.node) if isinstance(n, (ast.For, ast.While))]
    for lp in loops:
        for n in ast.walk(lp):
            if isinstance(n, ast.Return) and const_value(n.value, None) is False:
                return False
    last = body[-1] if body else None
    if isinstance(last, ast.Return) and const_value(last.value, None) is True and loops:
        return False
    return None


def _enclosing_for(n, level: int):
    p = getattr(n, "_parent", None)
    found = 0
    while p is not None and not isinstance(p, ast.FunctionDef):
        if isinstance(p, ast.For):
            found += 1
            if found == level:
                return p
        p = getattr(p, "_parent", None)
    return None


def _is_loop_var(loop: ast.For, name: str) -> bool:
    return any(isinstance(x, ast.Name) and x.id == name for x in ast.walk(loop.target))


def _new_span_pair(loop: ast.For, a0, a1, f: Func) -> Optional[str]:
    """the probe arguments are the (start, end) of the span the outer loop is currently adding"""
    t = loop.target
    it = loop.iter
    # for s, e in starts:
    if isinstance(t, ast.Tuple) and len(t.elts) == 2 and all(isinstance(x, ast.Name) for x in t.elts) \
            and isinstance(it, ast.Name) and isinstance(a0, ast.Name) and isinstance(a1, ast.Name):
        if (a0.id, a1.id) == (t.elts[0].id, t.elts[1].id):
            return f"({a0.id}, {a1.id})"
        return None
    # for i, s in enumerate(starts):  probe = (s, ends[i])
    if isinstance(t, ast.Tuple) and len(t.elts) == 2 and isinstance(it, ast.Call) and src(it.func) == "enumerate" \
            and it.args and isinstance(it.args[0], ast.Name):
        i, s = t.elts
        if isinstance(a0, ast.Name) and isinstance(s, ast.Name) and a0.id == s.id and isinstance(a1, ast.Subscript) \
                and isinstance(a1.value, ast.Name) and a1.value.id != it.args[0].id and isinstance(i, ast.Name) \
                and src(a1.slice) == i.id and it.args[0].id == f.params[1] and a1.value.id == f.params[2]:
            return f"({s.id}, {src(a1)})"
    return None


def _keep_iff_no_match(loop, inner, call, args, f: Func) -> Tuple[bool, str]:
    if loop is None or inner is None:
        return None, "the eq_relation call is not inside a scan loop nested in the loop over the new spans"
    # inner loop ranges over all spans kept so far
    rng = src(inner.iter)
    kept_local = None
    if not ("len(self.starts)" in rng or "self.starts" in rng):
        names = {n.id for n in ast.walk(inner.iter) if isinstance(n, ast.Name)} - {"range", "len", "enumerate", "zip"}
        outer = {n.id for n in ast.walk(loop.target) if isinstance(n, ast.Name)}
        if names & (set(f.params[1:]) | outer):
            # positively wrong: the scan walks the *input* (a prefix of it), not what was kept of it
            return False, f"the scan `{rng}` does not range over the spans kept so far"
        # the kept spans may be collected in a local list of pairs that is split into starts / ends after the loop
        if isinstance(inner.iter, ast.Name):
            kept_local = inner.iter.id
        else:
            return None, f"cannot tell what the scan `{rng}` ranges over"
    if isinstance(inner.iter, ast.Call) and src(inner.iter.func) == "range" and len(inner.iter.args) != 1:
        return False, f"the scan `{rng}` skips some of the kept spans"
    # canonical form (normalisation N12 turns the keep-flag idiom into it): the match breaks out of the scan, the appends are the
    # scan's else clause
    iff = getattr(call, "_parent", None)
    if not (isinstance(iff, ast.If) and iff.test is call):
        return None, "the relation result is not the test of the match branch"
    if not (iff.body and isinstance(iff.body[-1], ast.Break)) or iff.orelse:
        return False, "a match does not end the scan with a break (keep-flag idiom / for-else not recognised)"
    if iff not in inner.body:
        return None, "the match test is not a direct statement of the scan loop"
    if any(isinstance(x, (ast.Break, ast.Continue, ast.Return)) for st in inner.body if st is not iff for x in ast.walk(st)):
        return False, "the scan can end or skip for another reason than a match"
    body = loop.body
    if inner not in body:
        return False, "scan loop is not a direct statement of the span loop"
    if not inner.orelse:
        return False, "the kept span is not appended in the no-match (else) clause of the scan"

    if kept_local is not None:
        # form B: K = []; for (s, e) ...: for ks, ke in K: if rel(s, e, ks, ke): break  else: K.append((s, e));
        #         self.starts = [p[0] for p in K]; self.ends = [p[1] for p in K]
        inits = [n for n in ast.walk(f.node) if isinstance(n, ast.Assign) and len(n.targets) == 1 and isinstance(n.targets[0], ast.Name)
                 and n.targets[0].id == kept_local]
        if not inits or not all(isinstance(n.value, ast.List) and not n.value.elts for n in inits):
            return None, f"`{kept_local}` is not a local list that starts empty"
        tgt = inner.target
        if not (isinstance(tgt, ast.Tuple) and len(tgt.elts) == 2 and [src(x) for x in tgt.elts] == [src(args[2]), src(args[3])]):
            return None, f"the scan over `{kept_local}` does not unpack (start, end) into the stored-span arguments of the relation"
        ok_app = [st for st in inner.orelse if isinstance(st, ast.Expr) and isinstance(st.value, ast.Call)
                  and src(st.value.func) == f"{kept_local}.append" and len(st.value.args) == 1 and isinstance(st.value.args[0], ast.Tuple)
                  and [src(x) for x in st.value.args[0].elts] in ([src(args[0]), src(args[1])], [src(call.args[0]), src(call.args[1])])]
        if len(ok_app) != 1 or len(inner.orelse) != 1:
            return False, f"the no-match clause does not append exactly the probed pair to `{kept_local}`"
        proj = {}
        for n in ast.walk(f.node):
            if isinstance(n, ast.Assign) and len(n.targets) == 1 and isinstance(n.value, ast.ListComp) and len(n.value.generators) == 1 \
                    and not n.value.generators[0].ifs and src(n.value.generators[0].iter) == kept_local \
                    and isinstance(n.value.elt, ast.Subscript) and src(n.value.elt.value) == src(n.value.generators[0].target):
                d = dotted(n.targets[0])
                if d and len(d) == 2:
                    proj.setdefault(d[1], set()).add(src(n.value.elt.slice))
        if proj.get("starts") == {"0"} and proj.get("ends") == {"1"}:
            return True, ""
        return None, f"how `{kept_local}` becomes self.starts / self.ends was not recognised ({proj})"

    class _K:
        body = inner.orelse
    keep = [_K]
    apps = {}
    for st in keep[0].body:
        if isinstance(st, ast.Expr) and isinstance(st.value, ast.Call) and isinstance(st.value.func, ast.Attribute) \
                and st.value.func.attr == "append" and len(st.value.args) == 1:
            d = dotted(st.value.func.value)
            if d and len(d) == 2:
                v_ = st.value.args[0]
                if isinstance(v_, ast.Name):
                    from ..flow import Flow as _F
                    fl_ = getattr(f, "_flow_cache", None) or _F(f.node)
                    try:
                        f._flow_cache = fl_
                    except Exception:
                        pass
                    ex_ = fl_.expand(v_)
                    if not isinstance(ex_, ast.Name) or True:
                        apps[d[1] + ":expanded"] = src(ex_)
                apps[d[1]] = src(v_)
    def _same(role, want):
        return apps.get(role) == want or apps.get(role + ":expanded") == want
    if not _same("starts", src(args[0])) or not _same("ends", src(args[1])):
        return False, f"the kept span appended ({apps}) is not the probed (start, end) = ({src(args[0])}, {src(args[1])})"
    return True, ""


# ---------------------------------------------------------------------------------------------- R3
OP_SPECS = {"__and__": ("x in A and x in B", lambda a, b: a and b), "__or__": ("x in A or x in B", lambda a, b: a or b),
            "__sub__": ("x in A and x not in B", lambda a, b: a and not b), "__xor__": ("x in A xor x in B", lambda a, b: a != b)}


def _operand_domain(it, me: str, other: str) -> Optional[List[str]]:
    """the operands whose elements `it` lists, in order: chain(self, other), [*self, *other], list(self) + list(other), self;
    None when the expression is something else"""
    def one(e) -> Optional[List[str]]:
        if isinstance(e, ast.Starred):
            e = e.value
        while isinstance(e, ast.Call) and src(e.func) in ("list", "tuple", "iter") and len(e.args) == 1 and not e.keywords:
            e = e.args[0]
        if isinstance(e, ast.Name) and e.id in (me, other):
            return [e.id]
        return None
    if isinstance(it, ast.Call) and src(it.func) in ("itertools.chain", "chain") and not it.keywords:
        parts = [one(a) if not isinstance(a, ast.Starred) else None for a in it.args]
    elif isinstance(it, ast.Call) and src(it.func) in ("itertools.chain.from_iterable", "chain.from_iterable") and len(it.args) == 1 \
            and isinstance(it.args[0], (ast.Tuple, ast.List)):
        parts = [one(a) if not isinstance(a, ast.Starred) else None for a in it.args[0].elts]
    elif isinstance(it, (ast.List, ast.Tuple)) and it.elts and all(isinstance(a, ast.Starred) for a in it.elts):
        parts = [one(a) for a in it.elts]
    elif isinstance(it, ast.BinOp) and isinstance(it.op, ast.Add):
        l, r = _operand_domain(it.left, me, other), _operand_domain(it.right, me, other)
        return None if l is None or r is None else l + r
    else:
        return one(it)
    if any(p is None for p in parts):
        return None
    return [x for p in parts for x in p]


def r3_operators(prog, rep: Report, ss: Cls):
    rep.rule("C10.R3", "set operators: each of & | - ^ builds type(self)(<filter over chain(self, other)>) without passing a "
             "relation (exact de-duplication); the filter's truth table over the atoms x in self, x in other equals "
             "AND / OR / A and not B / XOR", floor=4)
    for name, (text, spec) in OP_SPECS.items():
        f = prog.method(ss, name)
        rep.fn(f)
        other = f.params[1]
        rets = returns_of(f.node)
        if len(rets) != 1:
            handed = [r for r in rets if isinstance(r.value, ast.Name) and r.value.id in (f.self_name, other)]
            if handed:
                rep.viol("C10.R3", f, "operator:fresh-result", f"`{src(handed[0])}` hands an operand out as the result: it is not passed "
                         "through the exact de-duplication (an operand built with force_no_dup_check keeps its repeated spans) and the "
                         "result carries the operand's relation instead of the exact one",
                         scenario="A = SpanSet([(1,3),(2,4),(1,3)], force_no_dup_check=True); list(A | SpanSet([])) lists (1,3) twice; "
                                  "(2,3) in (PartOf{(1,10)} | {}) is True although (2,3) is not a span of either operand",
                         line=handed[0].lineno)
            else:
                rep.unrec("C10.R3", f, "operator", "expected a single return")
            continue
        flow = Flow(f.node)
        v = flow.expand(rets[0].value)
        if isinstance(v, ast.Call) and isinstance(v.func, ast.Name):
            # result_type = type(self); return result_type(...)
            fx = flow.expand(v.func)
            if fx is not v.func:
                v = ast.copy_location(ast.Call(func=fx, args=v.args, keywords=v.keywords), v)
        if not (isinstance(v, ast.Call) and src(v.func) in ("type(self)", "SpanSet", "self.__class__") and len(v.args) == 1):
            rep.unrec("C10.R3", f, "operator", f"result is not type(self)(<one iterable>): {src(v)}")
            continue
        kw = {k.arg for k in v.keywords}
        gen = flow.expand(v.args[0])
        if isinstance(v.args[0], ast.Name) and not isinstance(gen, (ast.GeneratorExp, ast.ListComp)):
            from ..util import as_comprehension
            built = as_comprehension(prog, ss, f, v.args[0])       # selected = []; for ...: [for ...:] [if ...:] selected.append(x)
            if built is not None:
                gen = built
        if isinstance(gen, (ast.GeneratorExp, ast.ListComp)) and len(gen.generators) == 2 and not gen.generators[0].ifs \
                and isinstance(gen.generators[0].target, ast.Name) and isinstance(gen.generators[1].iter, ast.Name) \
                and gen.generators[1].iter.id == gen.generators[0].target.id \
                and isinstance(gen.generators[0].iter, (ast.Tuple, ast.List)):
            # for operand in (self, other): for x in operand     ==     for x in chain(self, other)
            g0, g1 = gen.generators
            chained = ast.copy_location(ast.Call(func=ast.Name(id="chain", ctx=ast.Load()), args=list(g0.iter.elts), keywords=[]), g0.iter)
            gen = ast.copy_location(type(gen)(elt=gen.elt, generators=[ast.comprehension(target=g1.target, iter=chained, ifs=g1.ifs,
                                                                                         is_async=0)]), gen)
            ast.fix_missing_locations(gen)
        if not isinstance(gen, (ast.GeneratorExp, ast.ListComp)) or len(gen.generators) != 1:
            rep.unrec("C10.R3", f, "operator", "argument is not a single-generator comprehension")
            continue
        g = gen.generators[0]
        it = flow.expand(g.iter) if isinstance(g.iter, ast.Name) else g.iter      # candidates = itertools.chain(self, other)
        dom = _operand_domain(it, f.self_name, other)
        var = g.target.id if isinstance(g.target, ast.Name) else None
        elt_ok = isinstance(gen.elt, ast.Name) and gen.elt.id == var
        if var is None or dom is None or (dom != [f.self_name, other] and set(dom) == {f.self_name, other}):
            rep.unrec("C10.R3", f, "operator:domain", f"the candidates `{src(it)}` are not read as the elements of self followed by the "
                      "elements of other")
            continue
        if dom != [f.self_name, other] or not elt_ok:
            rep.viol("C10.R3", f, "operator:domain",
                     f"the candidates are not the unmodified elements of chain(self, other): `{src(gen)}`",
                     scenario="A|B must contain the spans of both operands; iterating only one operand (or transforming the "
                              "spans) loses or invents result spans")
            continue

        def atom(e, a, b):
            if isinstance(e, ast.Compare) and len(e.ops) == 1 and isinstance(e.ops[0], (ast.In, ast.NotIn)) \
                    and isinstance(e.left, ast.Name) and e.left.id == var and isinstance(e.comparators[0], ast.Name):
                tgt = e.comparators[0].id
                if tgt == f.self_name:
                    val = a
                elif tgt == other:
                    val = b
                else:
                    return None
                return val if isinstance(e.ops[0], ast.In) else not val
            return None

        rows, good = [], True
        try:
            for a in (False, True):
                for b in (False, True):
                    got = all(eval_prop(c, lambda e: atom(e, a, b)) for c in g.ifs) if g.ifs else True
                    rows.append({"x in self": a, "x in other": b, "kept": got, "definition": spec(a, b)})
                    good = good and got == spec(a, b)
        except NotAFormula as e:
            rep.unrec("C10.R3", f, "operator:filter", f"filter is not a formula over the membership atoms: {e}")
            continue
        rep.count("truth_table_rows", len(rows))
        rep.check("C10.R3", f, "operator:filter", good, f"filter `{' and '.join(src(c) for c in g.ifs)}` == {text}",
                  f"filter `{' and '.join(src(c) for c in g.ifs) or 'True'}` is not `{text}`: "
                  f"{[r for r in rows if r['kept'] != r['definition']]}", witness=rows,
                  scenario="for some pair of span sets the operator keeps a span the definition excludes (or drops one it includes)")
        rep.check("C10.R3", f, "operator:exact-dedup", not ({"eq_relation", "force_no_dup_check"} & kw),
                  "result built with the default exact relation and duplicate check",
                  f"result constructed with {sorted(kw)}: spans are not kept 'each once' under exact equality",
                  scenario="A|A lists every span twice, or the result uses the operand's relation and swallows distinct spans")


# ---------------------------------------------------------------------------------------------- R4
def r4_comparisons(prog, rep: Report, ss: Cls):
    rep.rule("C10.R4", "comparisons: __le__ is 'all x in self: x in other'; < == != >= > issubset issuperset are expanded "
             "through the resolved operator calls to formulas over a = A<=B, b = B<=A and compared by truth table; "
             "isdisjoint is 'all x in s: x not in self'", floor=9)
    le = prog.method(ss, "__le__")
    rep.fn(le)
    other = le.params[1]
    rets = returns_of(le.node)
    ok = False
    if len(rets) == 1:
        v = rets[0].value
        if isinstance(v, ast.Call) and src(v.func) == "all" and len(v.args) == 1 and isinstance(v.args[0], (ast.GeneratorExp, ast.ListComp)):
            g = v.args[0]
            gg = g.generators[0]
            ok = len(g.generators) == 1 and not gg.ifs and isinstance(gg.target, ast.Name) and src(gg.iter) == le.self_name \
                and isinstance(g.elt, ast.Compare) and len(g.elt.ops) == 1 and isinstance(g.elt.ops[0], ast.In) \
                and src(g.elt.left) == gg.target.id and src(g.elt.comparators[0]) == other
    rep.check("C10.R4", le, "le", ok, "all(x in other for x in self)", f"__le__ is not `all(x in other for x in self)`: "
              f"{src(rets[0].value) if rets else ''}",
              scenario="A <= B must quantify over every element of A with B's membership; any/other direction gives wrong "
                       "subset answers for mixed relations")
    specs = {"__lt__": ("a and not b", lambda a, b: a and not b), "__eq__": ("a and b", lambda a, b: a and b),
             "__ne__": ("not (a and b)", lambda a, b: not (a and b)), "__ge__": ("b", lambda a, b: b),
             "__gt__": ("b and not a", lambda a, b: b and not a), "issubset": ("a", lambda a, b: a),
             "issuperset": ("b", lambda a, b: b)}
    DUNDER = {ast.LtE: "__le__", ast.Lt: "__lt__", ast.Eq: "__eq__", ast.NotEq: "__ne__", ast.GtE: "__ge__", ast.Gt: "__gt__"}

    free_atoms: Dict[str, bool] = {}
    free_seen: List[str] = []

    def expand(fn: Func, A: str, B: str, a: bool, b: bool, depth: int) -> bool:
        """truth value of method ``fn`` called as fn(A, B) given a = (A<=B), b = (B<=A); A, B in {'A','B'}"""
        if depth > 6:
            raise NotAFormula("operator expansion does not reach __le__")
        if fn.name == "__le__":
            if A == B:
                return True
            return a if (A, B) == ("A", "B") else b
        env = {fn.self_name: A, fn.params[1]: B}

        loc: Dict[str, bool] = {}       # named intermediate truth values (`is_subset = self <= other`)

        def ev(e) -> bool:
            if isinstance(e, ast.Constant) and isinstance(e.value, bool):
                return e.value
            if isinstance(e, ast.Name) and e.id in loc:
                return loc[e.id]
            if isinstance(e, ast.IfExp):
                return ev(e.body) if ev(e.test) else ev(e.orelse)
            if isinstance(e, ast.BoolOp):
                vals = [ev(x) for x in e.values]
                return all(vals) if isinstance(e.op, ast.And) else any(vals)
            if isinstance(e, ast.UnaryOp) and isinstance(e.op, ast.Not):
                return not ev(e.operand)
            if isinstance(e, ast.Compare):
                left = e.left
                res = True
                if len(e.ops) == 1 and isinstance(e.ops[0], (ast.Is, ast.IsNot)) and isinstance(left, ast.Name) \
                        and isinstance(e.comparators[0], ast.Name) and left.id in env and e.comparators[0].id in env:
                    same = env[left.id] == env[e.comparators[0].id]
                    if same:
                        return isinstance(e.ops[0], ast.Is)
                    # distinct operands may still be the same object only when both inclusions hold
                    key = f"{A} is {B}"
                    if not (a and b):
                        return isinstance(e.ops[0], ast.IsNot)
                    return _free(key) == isinstance(e.ops[0], ast.Is)
                if not all(isinstance(x, ast.Name) and x.id in env for x in [left] + list(e.comparators)):
                    # not a membership statement (e.g. a comparison of lengths): a free atom
                    txt = src(e)
                    for nm, role in env.items():
                        txt = txt.replace(nm, role)
                    return _free(txt)
                for op, right in zip(e.ops, e.comparators):
                    if not (isinstance(left, ast.Name) and isinstance(right, ast.Name) and left.id in env and right.id in env):
                        raise NotAFormula(f"operand of {src(e)}")
                    m = DUNDER.get(type(op))
                    if m is None:
                        raise NotAFormula(f"operator in {src(e)}")
                    callee = prog.resolve(ss, m)
                    if callee is None or callee.cls is not ss:
                        raise NotAFormula(f"{m} not defined by SpanSet")
                    res = res and expand(callee, env[left.id], env[right.id], a, b, depth + 1)
                    left = right
                return res
            if isinstance(e, ast.Call) and isinstance(e.func, ast.Attribute) and isinstance(e.func.value, ast.Name) \
                    and e.func.value.id in env and len(e.args) == 1 and isinstance(e.args[0], ast.Name) and e.args[0].id in env:
                callee = prog.resolve(ss, e.func.attr)
                if callee is not None and callee.cls is ss:
                    return expand(callee, env[e.func.value.id], env[e.args[0].id], a, b, depth + 1)
            raise NotAFormula(f"expression {src(e)}")

        def body(stmts):
            for st in stmts:
                if isinstance(st, ast.Expr) and isinstance(st.value, ast.Constant):
                    continue
                if isinstance(st, ast.Return):
                    if st.value is None:
                        raise NotAFormula("bare return")
                    return ev(st.value)
                if isinstance(st, ast.If):
                    r = body(st.body if ev(st.test) else st.orelse)
                    if r is not None:
                        return r
                    continue
                if isinstance(st, ast.Assign) and len(st.targets) == 1 and isinstance(st.targets[0], ast.Name) \
                        and st.targets[0].id not in env:
                    loc[st.targets[0].id] = ev(st.value)
                    continue
                raise NotAFormula(f"statement {type(st).__name__} in {fn.name}")
            return None
        res_ = body(fn.node.body)
        if res_ is None:
            raise NotAFormula(f"{fn.name} can end without returning")
        return res_

    def _free(key: str) -> bool:
        if key not in free_seen:
            free_seen.append(key)
        return free_atoms.get(key, False)

    for name, (text, spec) in specs.items():
        f = prog.resolve(ss, name)
        if f is None or f.cls is not ss:
            rep.unrec("C10.R4", (ss.relpath, f"SpanSet.{name}", ss.node.lineno), name, "not defined by SpanSet")
            continue
        rep.fn(f)
        rows, good = [], True
        try:
            for a in (False, True):
                for b in (False, True):
                    free_seen.clear()
                    free_atoms.clear()
                    got = expand(f, "A", "B", a, b, 0)
                    atoms = list(free_seen)
                    # every assignment of the free atoms (sub-expressions that are not membership statements)
                    import itertools as _it
                    for vals in _it.product((False, True), repeat=len(atoms)):
                        free_atoms.clear()
                        free_atoms.update(dict(zip(atoms, vals)))
                        got = expand(f, "A", "B", a, b, 0)
                        row = {"A<=B": a, "B<=A": b, "returns": got, "definition": spec(a, b)}
                        if atoms:
                            row["with"] = dict(zip(atoms, vals))
                        rows.append(row)
                        good = good and got == spec(a, b)
            free_atoms.clear()
        except NotAFormula as e:
            rep.unrec("C10.R4", f, name, f"cannot expand to a formula over A<=B, B<=A: {e}")
            continue
        rep.count("truth_table_rows", len(rows))
        rep.check("C10.R4", f, name, good, f"{name}(A, B) == {text}",
                  f"{name}(A, B) is not `{text}`: {[r for r in rows if r['returns'] != r['definition']]}", witness=rows,
                  scenario="for span sets with A<=B / B<=A as in the differing row the operator answers wrongly")
    # isdisjoint
    f = prog.method(ss, "isdisjoint")
    rep.fn(f)
    s = f.params[1]
    rets = returns_of(f.node)
    ok = False
    if len(rets) == 1:
        v = rets[0].value
        if isinstance(v, ast.Call) and src(v.func) == "all" and len(v.args) == 1 and isinstance(v.args[0], (ast.GeneratorExp, ast.ListComp)):
            g = v.args[0]
            gg = g.generators[0]
            e = g.elt
            neg = isinstance(e, ast.UnaryOp) and isinstance(e.op, ast.Not)
            if neg:
                e = e.operand
            ok = len(g.generators) == 1 and not gg.ifs and isinstance(gg.target, ast.Name) and src(gg.iter) == s \
                and isinstance(e, ast.Compare) and len(e.ops) == 1 and src(e.left) == gg.target.id \
                and src(e.comparators[0]) == f.self_name \
                and (isinstance(e.ops[0], ast.NotIn) != neg) and isinstance(e.ops[0], (ast.In, ast.NotIn))
        elif isinstance(v, ast.UnaryOp) and isinstance(v.op, ast.Not) and isinstance(v.operand, ast.Call) \
                and src(v.operand.func) == "any":
            g = v.operand.args[0]
            gg = g.generators[0]
            e = g.elt
            ok = isinstance(e, ast.Compare) and isinstance(e.ops[0], ast.In) and src(e.left) == src(gg.target) \
                and src(e.comparators[0]) == f.self_name and src(gg.iter) == s and not gg.ifs
    rep.check("C10.R4", f, "isdisjoint", ok, "all(x not in self for x in s)",
              f"isdisjoint is not `all(x not in self for x in s)`: {src(rets[0].value) if rets else ''}",
              scenario="isdisjoint answers with the other operand's membership or for some element only")


# ---------------------------------------------------------------------------------------------- R5
def r5_arrays(prog, rep: Report, ss: Cls):
    rep.rule("C10.R5", "parallel arrays starts/ends: only the constructor writes them; len is len(starts); iteration "
             "yields (start, end) pairs index-aligned", floor=3)
    writers = []
    from ..util import constructor_only_helpers
    ctor_parts = constructor_only_helpers(ss)      # private methods only the constructor calls are pieces of it
    for name, f in ss.methods.items():
        if name == "__init__" or f.self_name is None or name in ctor_parts:
            continue
        for n in walk_own(f.node):
            tg = n.targets if isinstance(n, ast.Assign) else [n.target] if isinstance(n, (ast.AugAssign,)) else \
                n.targets if isinstance(n, ast.Delete) else []
            for t in tg:
                base = t.value if isinstance(t, ast.Subscript) else t
                d = dotted(base)
                if d and len(d) == 2 and d[0] == f.self_name and d[1] in ("starts", "ends"):
                    writers.append((f, n))
            if isinstance(n, ast.Call) and isinstance(n.func, ast.Attribute) and n.func.attr in \
                    ("append", "extend", "insert", "pop", "remove", "clear", "sort", "reverse"):
                d = dotted(n.func.value)
                if d and len(d) == 2 and d[0] == f.self_name and d[1] in ("starts", "ends"):
                    writers.append((f, n))
    init = prog.method(ss, "__init__")
    rep.fn(init)
    if writers:
        f, n = writers[0]
        rep.viol("C10.R5", f, "immutable", f"`{src(n)}` mutates the span arrays outside the constructor",
                 scenario="an operator or query changes its operand", line=n.lineno)
    else:
        rep.ok("C10.R5", init, "immutable", "starts/ends are written by the constructor only")
    ln = prog.method(ss, "__len__")
    rep.fn(ln)
    ok = any(isinstance(r.value, ast.Call) and src(r.value.func) == "len" and r.value.args
             and dotted(r.value.args[0]) in ((ln.self_name, "starts"), (ln.self_name, "ends")) for r in returns_of(ln.node))
    rep.check("C10.R5", ln, "len", ok, "len(self.starts)", "__len__ is not the number of stored spans",
              scenario="len(S) differs from the number of spans")
    it = prog.method(ss, "__iter__")
    rep.fn(it)
    ok = False
    for n in walk_own(it.node):
        if isinstance(n, ast.For) and isinstance(n.iter, ast.Call) and src(n.iter.func) == "zip" \
                and [src(a) for a in n.iter.args] == [f"{it.self_name}.starts", f"{it.self_name}.ends"] \
                and isinstance(n.target, ast.Tuple) and len(n.target.elts) == 2:
            s, e = (x.id for x in n.target.elts)
            ys = [y for y in ast.walk(n) if isinstance(y, ast.Yield)]
            ok = len(ys) == 1 and isinstance(ys[0].value, ast.Tuple) and [src(x) for x in ys[0].value.elts] == [s, e]
    rets = returns_of(it.node)
    for r in rets:
        if isinstance(r.value, ast.Call) and src(r.value.func) in ("zip", "iter"):
            inner = r.value if src(r.value.func) == "zip" else (r.value.args[0] if r.value.args else None)
            if isinstance(inner, ast.Call) and src(inner.func) == "zip" and \
                    [src(a) for a in inner.args] == [f"{it.self_name}.starts", f"{it.self_name}.ends"]:
                ok = True
    if not ok:
        # the same question on symbolic values: what is yielded (or handed out as the iterator), element by element
        from ..paths import elementwise, strip_versions, summaries
        S_, E_ = ("attr", ("self",), "starts"), ("attr", ("self",), "ends")
        ps_, un_ = summaries(prog, it, ss)
        outs = []
        for p_ in ps_:
            for e_ in p_.events:
                if e_[0] == "yield":
                    outs.append(("item", strip_versions(e_[1])))
            if p_.exit == "return" and p_.value != ("c", None):
                outs.append(("iterable", strip_versions(p_.value)))
        node_yf = [n for n in walk_own(it.node) if isinstance(n, ast.YieldFrom)]
        good = []
        for kind_, t_ in outs:
            if kind_ == "item" and isinstance(t_, tuple) and t_[0] == "tuple" and len(t_) == 3 and t_[1][0] == "elem" and t_[2][0] == "elem" \
                    and t_[1][1] == S_ and t_[2][1] == E_ and t_[1][2] == t_[2][2]:
                good.append(True)
            elif elementwise(t_) == ("tuple", ("at", S_), ("at", E_)):
                good.append(True)            # `yield from zip(starts, ends)` / `return iter(zip(starts, ends))`
            else:
                good.append(False)
        if not un_ and good and all(good):
            ok = True
        elif not un_ and not outs and node_yf:
            ok = None
    if ok is None:
        rep.unrec("C10.R5", it, "iter", "what __iter__ delegates to is not understood")
    else:
      rep.check("C10.R5", it, "iter", ok, "yields (start, end) from zip(starts, ends)",
              "__iter__ does not yield (start, end) pairs index-aligned from starts/ends",
              scenario="iteration swaps start and end or misaligns them: every operator result is built from wrong spans")


# ---------------------------------------------------------------------------------------------- R8
def r8_input_order(prog, rep: Report, ss):
    """which spans survive the constructor's filter depends on the order in which they are offered (for every relation but Exact):
    the scans must see the caller's order"""
    from ..flow import Flow
    rep.rule("C10.R8", "the constructor offers the spans to its de-duplicating scan in the caller's order: what the scan loops iterate "
             "(and subscript in parallel) are the parameters themselves or order-preserving views of them (list/tuple/zip/"
             "enumerate/slices/comprehensions); a set(), sorted() or reversed() on the way changes which of two related spans is "
             "kept", floor=2)
    f = prog.method_view(ss, "__init__")
    rep.fn(f)
    flow = Flow(f.node)
    params = set(f.params[1:])

    def order_loss(e, depth=0) -> Optional[str]:
        if depth > 6:
            return None
        if isinstance(e, ast.Call):
            name = src(e.func)
            if name in ("set", "frozenset", "sorted", "reversed"):
                for a_ in e.args:
                    for x in ast.walk(a_):
                        if isinstance(x, ast.Name) and derives_from_param(x, depth + 1):
                            return src(e)[:60]
        for ch in ast.iter_child_nodes(e):
            if isinstance(ch, ast.expr) or isinstance(ch, ast.comprehension):
                r = order_loss(ch, depth) if isinstance(ch, ast.expr) else (order_loss(ch.iter, depth) or next((order_loss(i, depth) for i in ch.ifs if order_loss(i, depth)), None))
                if r:
                    return r
        if isinstance(e, ast.Name) and e.id not in ("self",):
            for d in flow.defs_of(e):
                if isinstance(d.value, ast.expr) and d.kind in ("assign", "for", "comp") and d.value is not e:
                    r = order_loss(d.value, depth + 1)
                    if r:
                        return r
        return None

    def derives_from_param(x, depth=0) -> bool:
        if x.id in params:
            return True
        if depth > 6:
            return False
        for d in flow.defs_of(x):
            if isinstance(d.value, ast.expr) and any(isinstance(y, ast.Name) and y is not x and derives_from_param(y, depth + 1)
                                                   for y in ast.walk(d.value)):
                return True
        return False
    scans = []
    for n in ast.walk(f.node):
        if isinstance(n, ast.For) and any(isinstance(c, ast.Call) and isinstance(c.func, ast.Attribute) and c.func.attr == "append"
                                          and dotted(c.func.value) and dotted(c.func.value)[0] == f.self_name for c in ast.walk(n)):
            scans.append(n)
    if not scans:
        rep.unrec("C10.R8", f, "input-order", "no scan loop appending to the span arrays found")
        return
    for k, lp in enumerate(scans, 1):
        lost = order_loss(lp.iter)
        if not lost:
            # parallel subscripts inside the loop (ends[i]) must read an order-preserving view, too
            for x in ast.walk(lp):
                if isinstance(x, ast.Subscript) and isinstance(x.value, ast.Name) and x.value.id not in (f.self_name,):
                    lost = lost or order_loss(x.value)
        rep.check("C10.R8", f, f"input-order:{k}", not lost, f"`{src(lp.iter)}` iterates the input in the caller's order",
                  f"the scan at line {lp.lineno} sees the input through `{lost}`, which does not keep the caller's order",
                  scenario="SpanSet([1, 2], [5, 3], eq_relation=PartOf) must keep only (1, 5): offered in hash order the nested span may "
                           "come first and both are kept", line=lp.lineno)
