"""C03 — a pool stays correct across consecutive calls and across worker replacement (DESIGN.md §6)."""
from __future__ import annotations

import ast
from typing import Dict, List, Optional, Set, Tuple

from ..absint import Client, Ctx, Interp
from ..flow import Flow
from ..model import AnalysisError, Cls, Func, Program, walk_own
from ..report import Report
from ..resolve import const_value, dotted
from ..util import calls_in, returns_of, src
from .c01 import r1_raised_before_start, r9_call_local
from .poolfam import PoolFacts, queue_call


def run(prog: Program, rep: Report):
    from .poolfam import pool_facts
    pf = pool_facts(prog, rep, None)
    rep.attempt(lambda: r1_sentinel(prog, rep, pf))
    # R2 = per-call state: the C01 rules instantiated under this property
    rep.attempt(lambda: r1_raised_before_start(prog, rep, pf, "C03.R2a"))
    rep.attempt(lambda: r9_call_local(prog, rep, pf, "C03.R2b"))
    from .c01 import counter_reset_per_call
    rep.attempt(lambda: counter_reset_per_call(prog, rep, pf, "C03.R2c"))
    rep.attempt(lambda: r3_retire(prog, rep, pf))
    rep.attempt(lambda: r4_replace_order(prog, rep, pf))
    rep.attempt(lambda: r5_wrapped(prog, rep, pf))
    # "each call returns exactly its own results (C01) and terminates (C02)": the feeder's publication order and send accounting
    from .c01 import r2_r3_feeder
    from ..report import Report as _R
    reset = r1_raised_before_start(prog, _R(rep.prop, rep.tier), pf, "C03.R6x")
    rep.attempt(lambda: r2_r3_feeder(prog, rep, pf, reset, R2="C03.R6", R3="C03.R7"))


# ---------------------------------------------------------------------------------------------- R1
class _Sentinel(Client):
    """state = the stop token has been consumed on this path"""

    def __init__(self, pf: PoolFacts, token_var: Set[str]):
        self.pf, self.vars = pf, token_var

    def should_inline(self, func, call, ctx):
        # the thread's own private helpers (`_join_retired`, `_start_successor`) are part of the protocol
        return func.cls is self.pf.replacer and func.name.startswith("_") and not func.name.startswith("__")

    def refine(self, test, state, ctx):
        if isinstance(test, ast.Compare) and len(test.ops) == 1 and isinstance(test.left, ast.Name) and test.left.id in self.vars \
                and const_value(test.comparators[0], 0) is None:
            if isinstance(test.ops[0], (ast.Is, ast.Eq)):
                return (True,), (state,)
            if isinstance(test.ops[0], (ast.IsNot, ast.NotEq)):
                return (state,), (True,)
        return (state,), (state,)


def r1_sentinel(prog, rep: Report, pf: PoolFacts):
    rep.rule("C03.R1", "sentinel conservation: a thread whose stop() enqueues a token on a queue must consume that token on every "
             "normal exit of its run() loop (the only exit is the `is None` test on what was taken from that queue)", floor=1)
    th = pf.replacer
    stop = prog.resolve(th, "stop")
    run_ = prog.method(th, "run")
    rep.fn(run_, stop)
    tokens = []
    if stop is not None and stop.cls is th:
        for c in calls_in(stop.node):
            qc = queue_call(c)
            if qc and qc[0] == "put" and c.args and const_value(c.args[0], 0) is None:
                tokens.append(pf.qid(c.func.value, stop, th))
    if not tokens:
        rep.unrec("C03.R1", run_, "token", "stop() of the replace thread posts no token: protocol shape unknown")
        return
    q = tokens[0]
    # variables bound from a get on that queue
    vars_ = set()
    for n in walk_own(run_.node):
        if isinstance(n, ast.Assign) and isinstance(n.value, ast.Call) and queue_call(n.value) and queue_call(n.value)[0] == "get" \
                and pf.qid(n.value.func.value, run_, th) == q and isinstance(n.targets[0], ast.Name):
            vars_.add(n.targets[0].id)
    if not vars_:
        rep.unrec("C03.R1", run_, "token", f"run() never takes an item from self.pool.{q}")
        return
    # the replace queue has one consumer: an item taken anywhere else (a "clean start" drain in a constructor, a peek in the pool)
    # can be the request of a worker that retired at the very end of the previous call
    others = []
    hosts = [pf.pool, pf.fpool, pf.replacer, pf.feeder] + ([pf.cmthread] if pf.cmthread else [])
    seen_q = set()
    for k in hosts:
        for kk in k.repo_mro():
            if kk.is_external:
                continue
            for g in kk.methods.values():
                if g.qual in seen_q or g.self_name is None:
                    continue
                seen_q.add(g.qual)
                if g.qual == prog.resolve(th, "run").qual:
                    continue
                for c in calls_in(g.node):
                    qc = queue_call(c)
                    try:
                        which = pf.qid(c.func.value, g, k) if qc and qc[0] == "get" else None
                    except Exception:
                        which = None
                    if which == q:
                        others.append((g, c))
    rep.check("C03.R1", run_, "single-consumer", not others, f"only run() of the replace thread takes items from {q}",
              (f"{others[0][0].cls.name if others[0][0].cls else ''}.{others[0][0].name} also takes items from self.pool.{q} "
               f"(`{src(others[0][1])[:60]}`): a replacement request that arrived after the previous call's stop token is discarded")
              if others else "",
              scenario="1 worker, quota 2, a call of exactly 2 chunks: the worker's request reaches the queue after stop(); the next "
                       "call drains it, the retired worker is never replaced and the call hangs",
              line=others[0][1].lineno if others else None)
    it = Interp(prog, _Sentinel(pf, vars_))
    ex = it.run(run_, {False}, th)
    finals = ex.normal | ex.ret
    leak = [s for s in finals if not s]
    rep.check("C03.R1", run_, "token", bool(finals) and not leak,
              f"every normal exit of run() has consumed the None token that stop() puts on {q}",
              f"run() has a normal exit that does not consume the None token which stop() puts on self.pool.{q} "
              f"(a loop condition other than the token test ends the loop)",
              scenario="FactoryFunctorPool, quota 1, 2 workers, two consecutive imap(range(6)) calls: the first call's token stays "
                       "in the replace queue, the second call's replace thread reads it first and stops replacing; once both "
                       "workers retired no worker is left and the call hangs")


# ---------------------------------------------------------------------------------------------- R3
class _Retire(Client):
    """state = (exit kind: None|'sentinel', replace queue configured?: None|True|False, announced)"""

    def __init__(self, pf: PoolFacts, run_: Func):
        self.pf, self.run = pf, run_
        self.item_vars: Set[str] = set()
        for n in walk_own(run_.node):
            if isinstance(n, ast.Assign) and isinstance(n.value, ast.Call) and queue_call(n.value) and \
                    queue_call(n.value)[0] == "get" and isinstance(n.targets[0], ast.Name):
                self.item_vars.add(n.targets[0].id)
        self.bad_payload: List[int] = []

    def should_inline(self, func, call, ctx):
        return False

    def refine(self, test, state, ctx):
        kind, conf, ann = state
        if isinstance(test, ast.Compare) and len(test.ops) == 1 and const_value(test.comparators[0], 0) is None:
            l = test.left
            is_ = isinstance(test.ops[0], (ast.Is, ast.Eq))
            if isinstance(l, ast.Name) and l.id in self.item_vars:
                t, f = ("sentinel", conf, ann), (kind, conf, ann)
                return ((t,), (f,)) if is_ else ((f,), (t,))
            if self.pf.qid(l, ctx.func, ctx.scope.cls) == self.pf.replace_q:
                t, f = (kind, False, ann), (kind, True, ann)
                return ((t,), (f,)) if is_ else ((f,), (t,))
        return (state,), (state,)

    def event(self, kind_, node, state, ctx):
        kind, conf, ann = state
        if kind_ == "call" and isinstance(node, ast.Call):
            qc = queue_call(node)
            if qc and qc[0] == "put" and self.pf.qid(node.func.value, ctx.func, ctx.scope.cls) == self.pf.replace_q:
                if not (node.args and dotted(node.args[0]) == (ctx.func.self_name, "wid")):
                    self.bad_payload.append(node.lineno)
                return ((kind, conf, True),)
        return (state,)


def r3_retire(prog, rep: Report, pf: PoolFacts):
    rep.rule("C03.R3", "retire announces, sentinel is silent: in the worker's run() the quota-exhaustion exit posts the worker's "
             "own wid on the replace queue iff one is configured; the sentinel exit posts nothing", floor=2)
    run_ = prog.method(pf.worker, "run")
    rep.fn(run_)
    client = _Retire(pf, run_)
    from ..absint import FlagTracking
    it = Interp(prog, FlagTracking(client))            # a `stopped = True; break` flag reads like the break it replaces
    ex = FlagTracking.unwrap(it.run(run_, FlagTracking.wrap({(None, None, False)}), pf.worker))
    finals = ex.normal | ex.ret
    if not finals:
        rep.unrec("C03.R3", run_, "retire", "run() has no normal exit")
        return
    sent = [s for s in finals if s[0] == "sentinel"]
    quota = [s for s in finals if s[0] is None]
    rep.check("C03.R3", run_, "sentinel-silent", bool(sent) and not any(s[2] for s in sent),
              "a worker stopped by the sentinel announces nothing",
              "a worker stopped by the None sentinel posts on the replace queue" if sent else "no sentinel exit found",
              scenario="leaving the pool posts a wid per worker: the next call's replace thread replaces workers that were asked to stop")
    ok = bool(quota) and all(s[2] for s in quota if s[1] is True) and not any(s[2] for s in quota if s[1] is False) \
        and any(s[1] is True for s in quota) and not client.bad_payload
    rep.check("C03.R3", run_, "retire-announces", ok, "a worker whose quota is used up posts its own wid iff a replace queue is configured",
              ("the retiring worker does not post its own wid" if client.bad_payload else
               "a worker whose quota is used up does not announce itself on the configured replace queue (or announces without one)"),
              scenario="max_chunks_per_worker=1, 2 workers, 6 chunks: retired workers are never replaced, the remaining chunks "
                       "are never processed and imap hangs")


# ---------------------------------------------------------------------------------------------- R4
STAGES = ["received", "joined", "created", "inited", "stored", "started"]


class _Replace(Client):
    """state = index into STAGES reached for the current replacement (None outside a replacement)"""

    def __init__(self, pf: PoolFacts, run_: Func, token_vars):
        self.pf, self.run, self.vars = pf, run_, token_vars
        self.problems: List[Tuple[int, str]] = []

    def should_inline(self, func, call, ctx):
        # the thread's own private helpers (`_join_retired`, `_start_successor`) are part of the protocol
        if func.name == self.pf.init_process_name or not func.name.startswith("_") or func.name.startswith("__"):
            return False
        # ... and so are private helpers of the pool that the thread calls (`self.pool._join_process(p, ...)`)
        return func.cls is self.pf.replacer or (func.cls is not None and func.cls in self.pf.fpool.repo_mro())

    def refine(self, test, state, ctx):
        if isinstance(test, ast.Compare) and len(test.ops) == 1 and isinstance(test.left, ast.Name) and test.left.id in self.vars \
                and const_value(test.comparators[0], 0) is None:
            if isinstance(test.ops[0], (ast.Is, ast.Eq)):
                return ("token",), (0,)
            return (0,), ("token",)
        return (state,), (state,)

    def _advance(self, state, stage, node, what):
        want = STAGES.index(stage)
        if state == "token" or state is None:
            return state
        if state != want - 1:
            self.problems.append((node.lineno, f"{what} happens at stage '{STAGES[state]}' (expected after '{STAGES[want - 1]}')"))
        return want

    def event(self, kind, node, state, ctx):
        if kind == "call" and isinstance(node, ast.Call) and isinstance(node.func, ast.Attribute):
            name = node.func.attr
            if name == "join":
                return (self._advance(state, "joined", node, "join of the retired worker"),)
            if name == "create":
                return (self._advance(state, "created", node, "creation of the successor"),)
            if name == self.pf.init_process_name:
                return (self._advance(state, "inited", node, "initialisation of the successor"),)
            if name == "start":
                return (self._advance(state, "started", node, "start of the successor"),)
        if kind == "store" and isinstance(node, ast.Subscript):
            d = dotted(node.value)
            if d and d[-1] == "procs":
                return (self._advance(state, "stored", node, "storing the successor in procs"),)
        if kind == "loophead" and node in [n for n in self.run.node.body if isinstance(n, ast.While)]:
            if state not in (None, "token", len(STAGES) - 1):
                self.problems.append((getattr(node, "lineno", 0), f"the loop takes the next request while the replacement is only at "
                                                                 f"stage '{STAGES[state]}'"))
            return (None,)
        return (state,)


def r4_replace_order(prog, rep: Report, pf: PoolFacts):
    rep.rule("C03.R4", "replace protocol order: wid received, old process joined, factory.create(), _init_process(new), stored in "
             "procs[<index of the retired wid>], start(); the factory pool's _init_process calls the base and sets the replace "
             "queue", floor=3)
    th = pf.replacer
    run_ = prog.method(th, "run")
    rep.fn(run_)
    vars_ = set()
    for n in walk_own(run_.node):
        if isinstance(n, ast.Assign) and isinstance(n.value, ast.Call) and queue_call(n.value) and queue_call(n.value)[0] == "get" \
                and isinstance(n.targets[0], ast.Name):
            vars_.add(n.targets[0].id)
    client = _Replace(pf, run_, vars_)
    it = Interp(prog, client)
    it.run(run_, {None}, th)
    probs = sorted(set(client.problems))
    rep.check("C03.R4", run_, "order", not probs, "join, create, _init_process, store, start in this order on every path",
              "; ".join(m for _, m in probs),
              scenario="start() before _init_process(): the child process is forked without its queues (work_queue is None) and "
                       "dies; a successor that is not stored in procs is never sent a stop sentinel / joined by __exit__",
              line=probs[0][0] if probs else None)
    # the stored index is the index found for the received wid: read off the path summaries (the thread's private helpers
    # followed): the successor is stored at the position of a walk over procs at which `<element>.wid == <received wid>` held
    from ..paths import strip_versions, subterms, summaries

    def inline(func, call, ctx):
        return func.cls is pf.replacer and func.name.startswith("_") and not func.name.startswith("__")

    def _is_received_var(t) -> bool:
        """a local that is re-bound inside the loop (so the engine names it by its loop-head value) and whose every assignment
        is a get on a queue: `rid = q.get(); while rid is not None: ...; rid = q.get()`"""
        if isinstance(t, tuple) and t and t[0] == "elem" and isinstance(t[1], tuple) and t[1][:2] == ("call", "iter") and t[1][2] \
                and isinstance(t[1][2][0], tuple) and t[1][2][0][0] == "attr" and t[1][2][0][2] == "get":
            return True                      # for rid in iter(<queue>.get, <stop token>)
        if not (isinstance(t, tuple) and t and t[0] == "lv"):
            return False
        name = t[1]
        defs = [n for n in ast.walk(run_.node) if isinstance(n, ast.Assign) and any(isinstance(x, ast.Name) and x.id == name for x in n.targets)]
        others = [n for n in ast.walk(run_.node) if isinstance(n, ast.Name) and n.id == name and isinstance(n.ctx, ast.Store)]
        return bool(defs) and len(defs) == len(others) and all(isinstance(n.value, ast.Call) and queue_call(n.value)
                                                               and queue_call(n.value)[0] == "get" for n in defs)
    ps, un = summaries(prog, run_, th, inline=inline)
    if un:
        rep.unrec("C03.R4", run_, "index", "; ".join(un))
    else:
        stores = 0
        bad = unknown = None
        for p_ in ps:
            for e in p_.events:
                if e[0] != "setitem":
                    continue
                base = strip_versions(e[1])
                if not (isinstance(base, tuple) and base[0] == "attr" and base[2] == "procs"):
                    continue
                stores += 1
                idx = strip_versions(e[2])
                loop_id = idx[1] if isinstance(idx, tuple) and idx[0] == "idx" else None
                if loop_id is None:
                    unknown = unknown or "the successor is stored at an index that is not a position of a walk over procs"
                    continue
                matched = False
                for d, o in p_.decisions:
                    t, neg = strip_versions(d), False
                    while isinstance(t, tuple) and t and t[0] == "not":
                        t, neg = t[1], not neg
                    if isinstance(t, tuple) and t[0] == "cmp" and t[1] in ("Eq", "NotEq"):
                        holds = (o != neg) == (t[1] == "Eq")
                        sides = [t[2], t[3]]
                        wid_side = [x for x in sides if isinstance(x, tuple) and x[0] == "attr" and x[2] == "wid"
                                    and isinstance(x[1], tuple) and x[1][0] == "elem" and x[1][2] == loop_id
                                    and isinstance(x[1][1], tuple) and x[1][1][0] == "attr" and x[1][1][2] == "procs"]
                        other = [x for x in sides if x not in wid_side]
                        if wid_side and other and holds and (any(st_[0] == "eff" and st_[1] == "get" for st_ in subterms(other[0]))
                                                             or _is_received_var(other[0])):
                            matched = True
                if not matched:
                    bad = bad or "the successor is stored at a position of procs at which the worker's wid was not found equal to the received wid"
        if bad:
            rep.viol("C03.R4", run_, "index", "the successor is not stored at the index of the process whose wid equals the received wid: " + bad,
                     scenario="the successor overwrites a live worker's slot: that worker is never stopped/joined and the retired one stays listed")
        elif unknown or not stores:
            rep.unrec("C03.R4", run_, "index", unknown or "no store into procs found")
        else:
            rep.ok("C03.R4", run_, "index", "the successor replaces the entry whose wid equals the received wid")
    fi = pf.fpool.methods.get(pf.init_process_name)
    if fi is None:
        rep.unrec("C03.R4", (pf.fpool.relpath, pf.fpool.short, pf.fpool.node.lineno), "init-process", "FactoryFunctorPool does not extend the worker initialisation")
    else:
        rep.fn(fi)
        calls_base = any(isinstance(c.func, ast.Attribute) and c.func.attr == pf.init_process_name and isinstance(c.func.value, ast.Call)
                         and src(c.func.value.func) == "super" for c in calls_in(fi.node))
        sets_q = any(isinstance(n, ast.Assign) and dotted(n.targets[0]) and dotted(n.targets[0])[-1] in pf.alias
                     and pf.alias[dotted(n.targets[0])[-1]] == pf.replace_q for n in walk_own(fi.node))
        rep.check("C03.R4", fi, "init-process", calls_base and sets_q, "calls the base initialisation and hands out the replace queue",
                  "FactoryFunctorPool._init_process does not both call the base initialisation and set the worker's replace queue",
                  scenario="replacement workers get no replace queue: they retire silently and are not replaced a second time")


# ---------------------------------------------------------------------------------------------- R5
def r5_wrapped(prog, rep: Report, pf: PoolFacts):
    rep.rule("C03.R5", "both consumers wrapped: each FactoryFunctorPool consumer delegates with `yield from super().<same "
             "name>(data, chunk_size)` inside `with self.<ReplaceThread>(...)`", floor=2)
    for base in pf.consumers:
        f = pf.fpool.methods.get(base.name)
        if f is None:
            rep.viol("C03.R5", (pf.fpool.relpath, f"{pf.fpool.short}.{base.name}", pf.fpool.node.lineno), "wrapped",
                     f"FactoryFunctorPool does not override {base.name}: no replace thread runs during the call",
                     scenario="workers with a quota retire and are never replaced during this kind of call: it hangs")
            continue
        from ..inline import inline_view
        f = inline_view(prog, pf.fpool, f)            # a shared private generator helper that holds the `with` is read in place
        rep.fn(f)
        vflow = Flow(f.node)
        ok = False
        why = "no `with self.<ReplaceThread>(...)` around the delegation"
        from .poolfam import helper_thread_scopes
        for c, scope_body, n in helper_thread_scopes(f, vflow):       # with <thread>(...): ...   /   start(); try: ... finally: stop()
            if True:
                if isinstance(c.func, ast.Attribute) and c.func.attr == pf.replacer.name and c.args and src(c.args[0]) == f.self_name:
                    yf = [y for s in scope_body for y in ast.walk(s) if isinstance(y, ast.YieldFrom)]
                    if len(yf) == 1 and isinstance(yf[0].value, ast.Name):
                        # results = super().imap(data, chunk_size) (a generator object: nothing runs before it is iterated);
                        # with replacer: yield from results
                        bound = vflow.expand(yf[0].value)
                        if isinstance(bound, ast.Call):
                            yf[0].value = bound
                    if len(yf) == 1 and isinstance(yf[0].value, ast.Call) and isinstance(yf[0].value.func, ast.Name):
                        # plain_call = super().imap; yield from plain_call(data, chunk_size)
                        bound = vflow.expand(yf[0].value.func)
                        if isinstance(bound, ast.Attribute):
                            yf[0].value.func = bound
                    if len(yf) == 1 and isinstance(yf[0].value, ast.Call) and isinstance(yf[0].value.func, ast.Attribute) \
                            and yf[0].value.func.attr == base.name and isinstance(yf[0].value.func.value, ast.Call) \
                            and src(yf[0].value.func.value.func) == "super":
                        args = [src(a) for a in yf[0].value.args] + [f"{k.arg}={src(k.value)}" for k in yf[0].value.keywords]
                        want = f.params[1:]
                        ok = [a.split("=")[-1] for a in args] == want
                        why = f"delegates with arguments {args}, parameters are {want}"
                    else:
                        why = f"the with body does not `yield from super().{base.name}(...)`"
        rep.check("C03.R5", f, "wrapped", ok, f"with {pf.replacer.name}: yield from super().{base.name}({', '.join(f.params[1:])})", why,
                  scenario="imap_unordered delegates to imap (or drops chunk_size): results come back ordered differently / "
                           "chunked differently than requested, or no replacement happens during the call")
