"""Facts and reusable rule pieces for the multiprocessing pools (C01-C05)."""
from __future__ import annotations

import ast
from typing import Dict, List, Optional, Set, Tuple

from ..absint import Client, Ctx, Interp
from ..flow import Flow
from ..model import AnalysisError, Cls, Func, Program, walk_own
from ..report import Report
from ..resolve import Scope, const_value, dotted, kwarg
from ..util import assigned_value, calls_in, returns_of, src

OWN_MOD = "windpyutils.parallel.own_proc_pools"


def queue_call(call: ast.Call) -> Optional[Tuple[str, str]]:
    """('get'|'put'|'qsize', 'blocking'|'nonblocking'|'bounded') for a queue method call, else None"""
    if not isinstance(call.func, ast.Attribute):
        return None
    m = call.func.attr
    if m in ("get_nowait", "put_nowait"):
        return m[:3], "nonblocking"
    if m in ("qsize", "empty", "full"):
        return "qsize", "nonblocking"
    if m not in ("get", "put"):
        return None
    pos = 0 if m == "get" else 1
    block = kwarg(call, "block", pos)
    timeout = kwarg(call, "timeout", pos + 1)
    if block is not None and const_value(block, None) is False:
        return m, "nonblocking"
    if block is not None and not isinstance(block, ast.Constant) and timeout is None:
        return m, "blocking?"          # get(<flag>): blocking or not is decided by a value this classification does not follow
    if timeout is not None:
        def may_be_none(e) -> bool:
            if isinstance(e, ast.Constant):
                return e.value is None
            if isinstance(e, ast.IfExp):
                return may_be_none(e.body) or may_be_none(e.orelse)
            if isinstance(e, ast.BoolOp):
                return any(may_be_none(v) for v in e.values)
            return False
        if may_be_none(timeout):
            return m, "blocking"  # a timeout that can evaluate to None waits without bound
        if isinstance(timeout, ast.Constant) or isinstance(timeout, (ast.BinOp, ast.UnaryOp)):
            return m, "bounded"
        return m, "bounded?"  # a name/attribute: bounded unless it holds None
    return m, "blocking"


class EagerFeeder(AnalysisError):
    """the feeder thread (whose constructor resets per-call state of the pool) is built outside a generator body"""

    def __init__(self, func, line, fields, feeder):
        super().__init__(f"{func.name} constructs {feeder} eagerly (not inside a generator body)")
        self.func, self.line, self.fields, self.feeder = func, line, fields, feeder


def pool_facts(prog, rep, rule: Optional[str] = None):
    """PoolFacts, with the eager-feeder arrangement reported as a violation under ``rule`` (when given) before the analysis stops"""
    TEXT = ("per-call state is reset when the call's generator starts: the feeder thread, whose constructor resets the "
            "pool's per-call fields, is constructed inside the generator body of imap / imap_unordered (lazily), not by a "
            "plain method at call time")
    try:
        pf = PoolFacts(prog)
        if rule:
            rep.rule(rule, TEXT, floor=2)
            for f in pf.consumers:
                rep.fn(f)
                rep.ok(rule, f, f"lazy-reset:{f.name}", f"{f.name} is a generator function and enters `with self.{pf.feeder.name}(...)` in its body")
        return pf
    except EagerFeeder as e:
        if rule:
            rep.rule(rule, "per-call state is reset when the call's generator starts: the feeder thread, whose constructor resets the "
                     "pool's per-call fields, is constructed inside the generator body of imap / imap_unordered (lazily), not by a "
                     "plain method at call time", floor=0)
            rep.fn(e.func)
            rep.viol(rule, e.func, "lazy-reset", f"{e.func.name} is not a generator function and constructs {e.feeder}(...) itself: the "
                     f"reset of {', '.join('self.' + x for x in e.fields)} happens when {e.func.name}() is called, not when the returned "
                     "generator is first advanced",
                     scenario="g1 = pool.imap(f, a); g2 = pool.imap(f, b); list(g1); list(g2): the second generator starts with the "
                              "flag cleared and the counter left by the first, so it never sees `finished == sent` (hangs) or stops early",
                     line=e.line)
        raise


class PoolFacts:
    def __init__(self, prog: Program):
        P = self.P = prog
        self.pool = P.cls("FunctorPool", OWN_MOD)
        self.fpool = P.cls("FactoryFunctorPool", OWN_MOD)
        self.worker = P.cls("BaseFunctorWorker", OWN_MOD)
        self.cmthread = P.maybe_cls("CMThread", OWN_MOD)
        # queue aliases worker field -> pool field, from every _init_process along the factory pool's MRO
        self.alias: Dict[str, str] = {}
        self.init_process_name = None
        for k in self.fpool.repo_mro():
            cands = []
            for g in k.methods.values():
                if g.self_name is None or len(g.params) != 2:
                    continue
                hits = 0
                for n in walk_own(g.node):
                    if isinstance(n, ast.Assign) and len(n.targets) == 1:
                        td, vd = dotted(n.targets[0]), dotted(n.value)
                        if td and vd and len(td) == 2 and td[0] == g.params[1] and len(vd) == 2 and vd[0] == g.self_name:
                            hits += 1
                if hits:
                    cands.append(g)
            if cands and self.init_process_name is None:
                self.init_process_name = cands[0].name
        for k in self.fpool.repo_mro():
            f = k.methods.get(self.init_process_name) if self.init_process_name else None
            if f is None or len(f.params) < 2:
                continue
            p = f.params[1]
            for n in walk_own(f.node):
                if isinstance(n, ast.Assign) and len(n.targets) == 1:
                    td, vd = dotted(n.targets[0]), dotted(n.value)
                    if td and vd and len(td) == 2 and td[0] == p and len(vd) == 2 and vd[0] == f.self_name:
                        self.alias[td[1]] = vd[1]
        if len(self.alias) < 3:
            raise AnalysisError(f"_init_process: queue aliases not discoverable ({self.alias})")
        # feeder: nested Thread subclass of the pool whose run() puts on a pool queue
        self.feeder = self.replacer = None
        for host, attr in ((self.pool, "feeder"), (self.fpool, "replacer")):
            for nc in host.nested.values():
                run = P.resolve(nc, "run")
                if run is not None and run.cls is nc:
                    setattr(self, attr, nc)
        if self.feeder is None or self.replacer is None:
            raise AnalysisError("feeder / replace thread classes not found as nested classes of the pools")
        # reference from the threads back to the pool
        self.poolref = {}
        for th in (self.feeder, self.replacer):
            init = P.resolve(th, "__init__")
            ref = None
            if init is not None:
                for n in walk_own(init.node):
                    if isinstance(n, ast.Assign) and isinstance(n.value, ast.Name) and n.value.id in init.params[1:2]:
                        d = dotted(n.targets[0])
                        if d and len(d) == 2 and d[0] == init.self_name:
                            ref = d[1]
            if ref is None:
                raise AnalysisError(f"{th.short}: no field referencing the pool (first constructor parameter)")
            self.poolref[th.qual] = ref
        # consumers: generator methods of the pool that enter `with self.<feeder>(...)`
        self.consumers: List[Func] = []
        self.consumer_with: Dict[str, ast.With] = {}
        self.consumer_loop: Dict[str, ast.While] = {}
        for f in self.pool.methods.values():
            if not f.is_generator:
                continue
            for n in walk_own(f.node):
                if isinstance(n, ast.With) and len(n.items) == 1 and isinstance(n.items[0].context_expr, ast.Call):
                    c = n.items[0].context_expr
                    if isinstance(c.func, ast.Attribute) and c.func.attr == self.feeder.name and isinstance(c.func.value, ast.Name) \
                            and c.func.value.id == f.self_name:
                        loops = [w for w in n.body if isinstance(w, ast.While)]
                        if len(loops) == 1:
                            self.consumers.append(f)
                            self.consumer_with[f.qual] = n
                            self.consumer_loop[f.qual] = loops[0]
        if len(self.consumers) < 2:
            # positively recognised: the feeder is constructed by a plain (non-generator) method although its constructor resets the
            # pool's per-call state: the reset then happens when imap() is *called*, not when its generator is first advanced
            init = P.resolve(self.feeder, "__init__")
            ref = self.poolref[self.feeder.qual]
            resets = []
            if init is not None:
                for n in walk_own(init.node):
                    tg = n.targets if isinstance(n, ast.Assign) else [n.target] if isinstance(n, ast.AugAssign) else []
                    for t in tg:
                        d = dotted(t)
                        if d and len(d) == 3 and d[0] == init.self_name and d[1] == ref:
                            resets.append(d[2])
                        if d and len(d) == 2 and init.params[1:2] and d[0] == init.params[1]:
                            resets.append(d[1])
            for f in self.pool.methods.values():
                if f.is_generator or f.self_name is None:
                    continue
                for c in ast.walk(f.node):
                    if isinstance(c, ast.Call) and isinstance(c.func, ast.Attribute) and c.func.attr == self.feeder.name \
                            and isinstance(c.func.value, ast.Name) and c.func.value.id == f.self_name and resets:
                        raise EagerFeeder(f, c.lineno, sorted(set(resets)), self.feeder.name)
            raise AnalysisError(f"only {len(self.consumers)} consumer(s) of the feeder thread found (floor 2)")
        self.consumers.sort(key=lambda f: f.node.lineno)
        # polled fields
        self.feeder_run = P.method(self.feeder, "run")
        ref = self.poolref[self.feeder.qual]
        written: Dict[str, List[ast.stmt]] = {}
        for k in self.feeder.repo_mro():
            for f in k.methods.values():
                if f.self_name is None:
                    continue
                for n in walk_own(f.node):
                    tg = n.targets if isinstance(n, ast.Assign) else [n.target] if isinstance(n, ast.AugAssign) else []
                    for t in tg:
                        d = dotted(t)
                        if d and len(d) == 3 and d[0] == f.self_name and d[1] == ref:
                            written.setdefault(d[2], []).append(n)
        polled = []
        for f in self.consumers:
            test = self.consumer_loop[f.qual].test
            for a in ast.walk(test):
                d = dotted(a) if isinstance(a, ast.Attribute) else None
                if d and len(d) == 2 and d[0] == f.self_name and d[1] in written and d[1] not in polled:
                    polled.append(d[1])
        self.flag = self.counter = None
        for fld in polled:
            if all(isinstance(n, ast.Assign) and isinstance(const_value(n.value, None), bool) for n in written[fld]):
                self.flag = fld
        for fld in polled:
            if fld != self.flag and self.counter is None:
                self.counter = fld
        if self.flag is None or self.counter is None:
            raise AnalysisError(f"polled protocol fields not discoverable (polled={polled})")
        # queues by role
        self.work_q = self.results_q = self.results_lock = self.replace_q = None
        wrun = P.method(self.worker, "run")
        wrun = P.method_view(self.worker, "run") or wrun          # private helpers inlined (`_send_result`, `_process_chunk`)
        for c in calls_in(wrun.node):
            qc = queue_call(c)
            d = dotted(c.func.value) if isinstance(c.func, ast.Attribute) else None
            if qc and d and len(d) == 2 and d[0] == wrun.self_name and d[1] in self.alias:
                if qc[0] == "get":
                    self.work_q = self.alias[d[1]]
                elif qc[0] == "put" and c.args and dotted(c.args[0]) == (wrun.self_name, "wid"):
                    self.replace_q = self.alias[d[1]]
                elif qc[0] == "put":
                    self.results_q = self.alias[d[1]]
        for n in walk_own(wrun.node):
            if isinstance(n, ast.With):
                d = dotted(n.items[0].context_expr)
                if d and len(d) == 2 and d[1] in self.alias:
                    self.results_lock = self.alias[d[1]]
        if None in (self.work_q, self.results_q, self.results_lock, self.replace_q):
            # the round may be spread over private helpers the view could not inline (a work loop that returns a flag ...): the
            # roles are what the worker class does with each queue, wherever it does it
            for k in self.worker.repo_mro():
                if k.is_external:
                    continue
                for g in k.methods.values():
                    if g.self_name is None:
                        continue
                    for c in calls_in(g.node):
                        qc = queue_call(c)
                        d = dotted(c.func.value) if isinstance(c.func, ast.Attribute) else None
                        if qc and d and len(d) == 2 and d[0] == g.self_name and d[1] in self.alias:
                            if qc[0] == "get" and self.work_q is None:
                                self.work_q = self.alias[d[1]]
                            elif qc[0] == "put" and c.args and dotted(c.args[0]) == (g.self_name, "wid"):
                                self.replace_q = self.replace_q or self.alias[d[1]]
                            elif qc[0] == "put" and self.results_q is None and not (c.args and dotted(c.args[0]) == (g.self_name, "wid")):
                                self.results_q = self.alias[d[1]]
                    for n in walk_own(g.node):
                        if isinstance(n, ast.With) and self.results_lock is None:
                            d = dotted(n.items[0].context_expr)
                            if d and len(d) == 2 and d[0] == g.self_name and d[1] in self.alias:
                                self.results_lock = self.alias[d[1]]
        if None in (self.work_q, self.results_q, self.results_lock, self.replace_q):
            raise AnalysisError(f"queue roles not discoverable from the worker's run(): work={self.work_q} "
                                f"results={self.results_q} lock={self.results_lock} replace={self.replace_q}")
        self.get_results = None
        for f in self.pool.methods.values():
            if any(queue_call(c) and queue_call(c)[0] == "get" and self.qid(c.func.value, f, self.pool) == self.results_q
                   for c in calls_in(f.node) if isinstance(c.func, ast.Attribute)):
                self.get_results = f
        if self.get_results is None:
            raise AnalysisError("no pool method gets from the results queue")

    # ------------------------------------------------------------------ identity of pool-level objects
    def pool_field(self, e: ast.expr, func: Func, cls: Optional[Cls]) -> Optional[str]:
        """pool attribute designated by ``e`` from code of the pool, of a thread (self.<poolref>.X) or of the worker"""
        d = dotted(e)
        if not d:
            return None
        sn = func.self_name
        if sn is None and func.outer is not None:
            sn = func.outer.self_name
            cls = func.outer.cls if cls is None else cls
        if d[0] != sn or cls is None:
            return None
        mro = cls.mro or [cls]
        if self.pool in mro:
            return d[1] if len(d) == 2 else None
        for th in (self.feeder, self.replacer):
            if th in mro:
                ref = self.poolref[th.qual]
                if len(d) == 3 and d[1] == ref:
                    return d[2]
                return None
        if self.worker in mro:
            if len(d) == 2 and d[1] in self.alias:
                return self.alias[d[1]]
        return None

    def qid(self, e: ast.expr, func: Func, cls: Optional[Cls]) -> Optional[str]:
        return self.pool_field(e, func, cls)


# ---------------------------------------------------------------------------------------------- shared idiom rules
class _Chunking(Client):
    """accumulate-and-yield typestate.  state = (accumulator: 'E' empty fresh | 'N' non-empty | 'Y' yielded,
    element appended in this iteration?)"""

    def __init__(self, acc: str, elem_loop: ast.For):
        self.acc, self.loop = acc, elem_loop
        self.problems: List[Tuple[int, str]] = []
        self.yields = 0
        # a tuple of lists (one per input sequence) is always truthy itself: only its components tell whether it is empty
        self._tuple_acc = any(isinstance(n, ast.Subscript) and isinstance(n.value, ast.Name) and n.value.id == acc
                              for n in ast.walk(elem_loop))

    def should_inline(self, func, call, ctx):
        return False

    def _is_acc(self, e) -> bool:
        if isinstance(e, ast.Name):
            return e.id == self.acc
        if isinstance(e, ast.Subscript):
            return self._is_acc(e.value)
        return False

    def refine(self, test, state, ctx):
        a, app = state
        if isinstance(test, ast.UnaryOp) and isinstance(test.op, ast.Not):
            t_, f_ = self.refine(test.operand, state, ctx)
            return f_, t_
        # truthiness of the accumulator (`if batch:`; for the tuple-of-lists variant `if batch[0]:`): non-empty
        if self._is_acc(test) and not (isinstance(test, ast.Name) and self._tuple_acc):
            return {"E": ((), (state,)), "N": ((state,), ()), "Y": ((state,), (state,))}[a]
        if isinstance(test, ast.Compare) and len(test.ops) == 1 and isinstance(test.left, ast.Call) \
                and src(test.left.func) == "len" and test.left.args and self._is_acc(test.left.args[0]) \
                and const_value(test.comparators[0], None) == 0:
            op = test.ops[0]
            nonempty = {"E": ((), (state,)), "N": ((state,), ()), "Y": ((state,), (state,))}[a]
            if isinstance(op, (ast.Gt, ast.NotEq)):
                return nonempty
            if isinstance(op, (ast.Eq, ast.LtE)):
                return nonempty[1], nonempty[0]
        # len(acc) == <size>: an empty accumulator is never full (sizes are >= 1: chunk_size >= 1 is in the property's
        # quantifier, BatcherIter validates batch_size > 0)
        if isinstance(test, ast.Compare) and len(test.ops) == 1 and isinstance(test.ops[0], (ast.Eq, ast.GtE)) \
                and isinstance(test.left, ast.Call) and src(test.left.func) == "len" and test.left.args \
                and self._is_acc(test.left.args[0]) and a == "E" and const_value(test.comparators[0], None) is None:
            return (), (state,)
        return (state,), (state,)

    def event(self, kind, node, state, ctx):
        a, app = state
        if kind == "call" and isinstance(node, ast.Call) and isinstance(node.func, ast.Attribute) and self._is_acc(node.func.value):
            if node.func.attr == "append":
                if a == "Y":
                    self.problems.append((node.lineno, "an element is appended to a batch that was already yielded: the consumer's "
                                                       "batch changes under its hands (the accumulator is not replaced by a fresh list)"))
                # multi-sequence variant appends once per sequence in an inner loop: count the first
                return (("N", True),)
            if node.func.attr in ("clear", "pop", "remove"):
                if a == "Y":
                    self.problems.append((node.lineno, f"`{src(node)}` empties the yielded batch in place instead of binding a fresh list"))
                    return (("E", app),)
                if a == "N":
                    self.problems.append((node.lineno, f"`{src(node)}` drops accumulated elements that were never yielded"))
                return (("E", app),)
        if kind == "store" and isinstance(node, ast.Name) and node.id == self.acc:
            val = assigned_value(node)
            fresh = isinstance(val, (ast.List, ast.ListComp)) or (isinstance(val, ast.Call) and src(val.func) in ("list", "tuple"))
            if isinstance(val, ast.List) and val.elts:
                fresh = False
            if not fresh:
                self.problems.append((node.lineno, f"accumulator rebound to `{src(val) if val is not None else '?'}`, not to a fresh empty container"))
            if a == "N":
                self.problems.append((node.lineno, "accumulated elements are discarded (accumulator replaced before it was yielded)"))
            return (("E", app),)
        if kind == "yield":
            self.yields += 1
            v = node.value
            # a tagged batch (`yield number, batch`) hands the accumulator out just the same
            if isinstance(v, ast.Tuple) and sum(1 for e_ in v.elts if isinstance(e_, ast.Name) and e_.id == self.acc) == 1 \
                    and not any(isinstance(n_, ast.Name) and n_.id == self.acc for e_ in v.elts if not isinstance(e_, ast.Name) for n_ in ast.walk(e_)):
                v = next(e_ for e_ in v.elts if isinstance(e_, ast.Name) and e_.id == self.acc)
            if not (isinstance(v, ast.Name) and v.id == self.acc):
                self.problems.append((node.lineno, f"yields `{src(v)}` instead of the accumulator"))
                return (state,)
            if a == "E":
                self.problems.append((node.lineno, "an empty batch may be yielded"))
            if a == "Y":
                self.problems.append((node.lineno, "the same batch object is yielded twice"))
            return (("Y", app),)
        if kind == "loophead" and node is self.loop:
            return ((a, False),)
        return (state,)


def _strip_size_one_fast_path(stmts):
    """`if <size> == 1: for x in <data>: yield [x]  return` in front of the general accumulate-and-yield code is the general code
    specialised to chunks of one element (one fresh one-element list per element, lazily, in order, nothing left over): it is
    dropped when <size> is what the general loop compares the accumulator's length with and <data> is what that loop iterates"""
    doc = [s for s in stmts if isinstance(s, ast.Expr) and isinstance(s.value, ast.Constant)]
    rest = [s for s in stmts if s not in doc]
    if not rest or not isinstance(rest[0], ast.If):
        return stmts
    g = rest[0]
    t = g.test
    if not (isinstance(t, ast.Compare) and len(t.ops) == 1 and isinstance(t.ops[0], ast.Eq) and const_value(t.comparators[0], None) == 1):
        return stmts
    body = list(g.body)
    if g.orelse:
        # the two-armed form (what N38 makes of the guard clause): if <size> == 1: <fast loop>  else: <general code>, nothing after it
        if len(rest) != 1 or not (len(body) == 1 and isinstance(body[0], ast.For)):
            return stmts
        body = body + [ast.Return(value=None)]
        rest = [g] + list(g.orelse)
    if not (len(body) == 2 and isinstance(body[0], ast.For) and isinstance(body[1], ast.Return) and body[1].value is None):
        return stmts
    lp = body[0]
    if lp.orelse or len(lp.body) != 1 or not isinstance(lp.target, ast.Name):
        return stmts
    y = lp.body[0]
    if not (isinstance(y, ast.Expr) and isinstance(y.value, ast.Yield) and isinstance(y.value.value, ast.List)
            and len(y.value.value.elts) == 1 and isinstance(y.value.value.elts[0], ast.Name) and y.value.value.elts[0].id == lp.target.id):
        return stmts
    general = [s for s in rest[1:] if isinstance(s, ast.For)]
    if len(general) != 1 or src(general[0].iter) != src(lp.iter):
        return stmts
    size = src(t.left)
    if not any(isinstance(c, ast.Compare) and size in (src(c.left), *[src(x) for x in c.comparators]) for c in ast.walk(general[0])):
        return stmts
    return doc + rest[1:]


def chunking_idiom(prog, rep: Report, rule: str, f: Func, role: str, cls: Optional[Cls] = None, body=None,
                   data_expr: Optional[str] = None):
    """check one accumulate-and-yield instance: generator function ``f`` (or the given statement list of it)"""
    rep.fn(f)
    stmts = body if body is not None else f.node.body
    stmts = _strip_size_one_fast_path(list(stmts))
    loops = [s for s in stmts if isinstance(s, ast.For)]
    accs = [s for s in stmts if isinstance(s, ast.Assign) and len(s.targets) == 1 and isinstance(s.targets[0], ast.Name)
            and isinstance(s.value, (ast.List, ast.Call, ast.ListComp))]
    if len(loops) == 1:
        # an accumulator that is object state (self.<field>, or a local alias of it) outlives the generator call
        alias = {s.targets[0].id: s.value for s in walk_own(f.node) if isinstance(s, ast.Assign) and len(s.targets) == 1
                 and isinstance(s.targets[0], ast.Name) and isinstance(s.value, ast.Attribute)
                 and isinstance(s.value.value, ast.Name) and s.value.value.id == f.self_name}
        for n in ast.walk(loops[0]):
            if isinstance(n, ast.Call) and isinstance(n.func, ast.Attribute) and n.func.attr == "append":
                b = n.func.value
                while isinstance(b, ast.Subscript):
                    b = b.value
                state = alias.get(b.id) if isinstance(b, ast.Name) else b if (isinstance(b, ast.Attribute) and isinstance(b.value, ast.Name)
                                                                               and b.value.id == f.self_name) else None
                if state is not None and not any(a.targets[0].id == getattr(b, "id", None) for a in accs):
                    rep.viol(rule, f, role, f"the batch under construction is object state (`{src(state)}`), not a container created by this "
                             f"call of {f.name}: a second pass over the same object starts with the leftovers of the previous one",
                             scenario="it = BatcherIter([1], 1); list(it); list(it) -> [[1, 1]] (or one oversized batch); batches kept "
                                      "from an abandoned pass are extended by the next", line=n.lineno)
                    return
    if len(loops) != 1 or not accs:
        rep.unrec(rule, f, role, "accumulator initialisation and a single element loop not found")
        return
    loop = loops[0]
    # the accumulator is the name appended to inside the loop
    acc = None
    for n in ast.walk(loop):
        if isinstance(n, ast.Call) and isinstance(n.func, ast.Attribute) and n.func.attr == "append":
            b = n.func.value
            while isinstance(b, ast.Subscript):
                b = b.value
            if isinstance(b, ast.Name) and any(a.targets[0].id == b.id for a in accs):
                acc = b.id
    if acc is None:
        rep.unrec(rule, f, role, "no append to an accumulator inside the element loop")
        return
    client = _Chunking(acc, loop)
    it = Interp(prog, client)
    sc = Scope(prog, f, cls)
    it.stack.append((f, None))
    it.yield_handlers.append(None)
    ex = it.block(stmts, {("E", False)}, sc)
    rep.count("abstract_states", len(it.states_seen))
    probs = list(client.problems)
    for s in ex.normal | ex.ret:
        if s[0] == "N":
            probs.append((loop.lineno, "a non-empty remainder can be left un-yielded at the end of the input"))
    # every element appended: the first statement(s) of the loop body append the loop variable unconditionally
    first = loop.body[0]
    uncond = False
    if isinstance(first, ast.Expr) and isinstance(first.value, ast.Call) and isinstance(first.value.func, ast.Attribute) \
            and first.value.func.attr == "append" and first.value.args and src(first.value.args[0]) == src(loop.target):
        uncond = True
    if isinstance(first, ast.For):  # multi-sequence variant: for i, s in enumerate(x): batch[i].append(s)
        inner = first
        if len(inner.body) == 1 and isinstance(inner.body[0], ast.Expr) and isinstance(inner.body[0].value, ast.Call) \
                and isinstance(inner.body[0].value.func, ast.Attribute) and inner.body[0].value.func.attr == "append" \
                and src(inner.iter) == f"enumerate({src(loop.target)})":
            i, s = (src(x) for x in inner.target.elts) if isinstance(inner.target, ast.Tuple) else ("?", "?")
            uncond = src(inner.body[0].value.func.value) == f"{acc}[{i}]" and src(inner.body[0].value.args[0]) == s
    if not uncond:
        probs.append((loop.lineno, "the loop does not append every input element unconditionally as its first action"))
    if any(isinstance(n, (ast.Break, ast.Continue, ast.Return)) for n in ast.walk(loop)):
        probs.append((loop.lineno, "the element loop contains break/continue/return: elements can be skipped"))
    # full-batch test compares len(acc) with the configured size by ==  (>= also terminates batches correctly)
    tests = [n for n in loop.body if isinstance(n, ast.If)]
    sized = False
    for t in tests:
        c = t.test
        if isinstance(c, ast.Compare) and len(c.ops) == 1 and isinstance(c.ops[0], (ast.Eq, ast.GtE)) \
                and isinstance(c.left, ast.Call) and src(c.left.func) == "len" and "size" in src(c.comparators[0]).lower():
            sized = True
    if not sized:
        probs.append((loop.lineno, "no `len(acc) == <size>` test closes a full batch"))
    if data_expr is not None and src(loop.iter) != data_expr and not src(loop.iter).startswith("zip("):
        probs.append((loop.lineno, f"the loop iterates `{src(loop.iter)}`, not the input `{data_expr}`"))
    if it.unrecognised:
        rep.unrec(rule, f, role, "; ".join(it.unrecognised))
        return
    uniq = sorted(set(probs))
    rep.check(rule, f, role, not uniq, f"accumulator `{acc}`: every element appended once, full batch yielded then replaced by a "
              f"fresh container, non-empty remainder yielded ({client.yields} yield events)",
              "; ".join(m for _, m in uniq),
              scenario="input of 5 elements, batch size 2: the batches must be [a,b] [c,d] [e]; a dropped remainder loses 'e', "
                       "an in-place clear empties the batch the consumer (or the work queue) still holds",
              line=uniq[0][0] if uniq else None)


def tag_pass_through(prog, rep: Report, rule: str, run: Func, work_get_pred, results_put_pred, functor_pred, role="tag"):
    """C01.R4 template: result = (tag of the work item unmodified, order-preserving unfiltered map of the functor)"""
    rep.fn(run)
    flow = Flow(run.node)
    puts = [c for c in calls_in(run.node) if results_put_pred(c)]
    if not puts:
        rep.unrec(rule, run, role, "no put on the results queue found")
        return
    for c in puts:
        if not c.args:
            rep.unrec(rule, run, role, f"`{src(c)}` has no payload")
            continue
        res = flow.expand(c.args[0])
        ok, why = _check_result_tuple(res, flow, work_get_pred, functor_pred)
        rep.check(rule, run, f"{role}:{'blocking' if (queue_call(c) or ('', ''))[1] == 'blocking' else 'nonblocking'}-put", ok,
                  f"puts (tag, [f(x) for x in items]) with the tag of the work item: {src(res)}", why,
                  scenario="a result chunk carries another chunk's index (or a filtered/reordered list): imap yields values at "
                           "the wrong position or drops them", line=c.lineno)


def _check_result_tuple(res, flow: Flow, work_get_pred, functor_pred) -> Tuple[bool, str]:
    if not (isinstance(res, ast.Tuple) and len(res.elts) == 2):
        return False, f"result `{src(res)}` is not an (index, values) pair"
    tag, vals = res.elts

    def from_work_item(name: ast.expr, idx: int) -> bool:
        if not isinstance(name, ast.Name):
            return False
        ds = flow.defs_of(name)
        if not ds:
            return False
        for d in ds:
            if d.kind != "unpack" or d.index != (idx,):
                return False
            item = d.value
            # the unpacked item may be a local with several definitions, all of them reads of the work queue
            # (a priming read before the loop and the re-read at its end)
            def sources_of(x, depth=0):
                """the expressions a name stands for, through plain copies (parameter bindings of an inlined helper) and through
                `for x in iter(<queue>.get, None)` (one get per round)"""
                if not isinstance(x, ast.Name) or depth > 4:
                    return [x]
                out = []
                for dd in flow.defs_of(x):
                    v_ = dd.value
                    if dd.kind == "for" and isinstance(v_, ast.Call) and src(v_.func) == "iter" and len(v_.args) == 2 \
                            and isinstance(v_.args[0], ast.Attribute) and v_.args[0].attr == "get" and const_value(v_.args[1], 0) is None:
                        out.append(ast.copy_location(ast.Call(func=v_.args[0], args=[], keywords=[]), v_))
                    elif dd.kind == "assign" and isinstance(v_, ast.Name):
                        out += sources_of(v_, depth + 1)
                    else:
                        out.append(v_)
                return out or [x]
            for it_ in sources_of(item) if isinstance(item, ast.Name) else [item]:
                if not (isinstance(it_, ast.Call) and work_get_pred(it_)):
                    return False
        return True

    if not from_work_item(tag, 0):
        return False, f"the first component `{src(tag)}` is not the unmodified first component of the item taken from the work queue"
    v = flow.expand(vals) if isinstance(vals, ast.Name) else vals      # processed = [f(x) for x in items]; res = (i, processed)
    if isinstance(v, ast.Call) and src(v.func) == "list" and len(v.args) == 1 and isinstance(v.args[0], ast.Call) \
            and src(v.args[0].func) == "map" and len(v.args[0].args) == 2:
        fn, seq = v.args[0].args
        if functor_pred(fn, None) and from_work_item(seq, 1):
            return True, ""
        return False, f"`{src(v)}` does not map the functor over the item's data"
    if isinstance(v, ast.ListComp):
        if len(v.generators) != 1 or v.generators[0].ifs:
            return False, f"`{src(v)}` filters or nests: the result list is not a 1:1 image of the chunk"
        g = v.generators[0]
        if not from_work_item(g.iter, 1):
            return False, f"`{src(v)}` does not iterate the data component of the work item"
        if not (isinstance(v.elt, ast.Call) and len(v.elt.args) == 1 and src(v.elt.args[0]) == src(g.target)
                and functor_pred(v.elt.func, v.elt)):
            return False, f"`{src(v.elt)}` is not the functor applied to the element"
        return True, ""
    return False, f"second component `{src(v)}` is not an order-preserving unfiltered map of the functor"


def chunk_generators(prog, cls, host: Func) -> List[Func]:
    """the generators ``host`` draws its chunks from: generators nested in it, and generator methods / static methods of its class
    (or private generator functions of its module) that it calls"""
    out = [g for g in host.nested.values() if g.is_generator]
    seen = {g.qual for g in out}
    for c in calls_in(host.node):
        tgt = None
        if isinstance(c.func, ast.Attribute) and isinstance(c.func.value, ast.Name) and cls is not None \
                and c.func.value.id in ((host.self_name,) if host.self_name else ()) + (cls.name,):
            tgt = prog.resolve(cls, c.func.attr)
        elif isinstance(c.func, ast.Name):
            tgt = prog.functions.get(f"{host.mod.name}.{c.func.id}")
        if tgt is not None and tgt.is_generator and tgt.qual not in seen and not (tgt.cls is not None and tgt.cls.is_external):
            seen.add(tgt.qual)
            out.append(tgt)
    return out



def stop_order_delivery(prog, pf, f: Func):
    """how the pool's __exit__ hands out its stop orders: ('plain', loop) = one blocking put(None) per element of self.procs;
    ('bounded', loop) = a count-down from len(self.procs) whose puts carry a timeout and whose queue.Full handler gives up only when
    every worker has finished; ('other', why) otherwise"""
    sn = f.self_name
    for st in f.node.body:
        if isinstance(st, ast.For):
            puts = [c for c in ast.walk(st) if isinstance(c, ast.Call) and queue_call(c) and queue_call(c)[0] == "put"
                    and pf.qid(c.func.value, f, pf.pool) == pf.work_q]
            if puts:
                it_s = src(st.iter)
                per_proc = it_s in (f"range(len({sn}.procs))", f"{sn}.procs")
                single = len(st.body) == 1 and len(puts) == 1 and const_value(puts[0].args[0], 0) is None
                if per_proc and single and queue_call(puts[0])[1] == "blocking":
                    return "plain", st
                return "other", f"`for ... in {it_s}` does not put exactly one None per element of self.procs"
        if isinstance(st, ast.While):
            puts = [c for c in ast.walk(st) if isinstance(c, ast.Call) and queue_call(c) and queue_call(c)[0] == "put"
                    and pf.qid(c.func.value, f, pf.pool) == pf.work_q]
            if not puts:
                continue
            # n = len(self.procs) before the loop; while n > 0
            t = st.test
            names_ = [x.id for x in ast.walk(t) if isinstance(x, ast.Name)]
            from .cachefam import _eval_small
            if len(set(names_)) != 1 or [_eval_small(t, {names_[0]: k_}) for k_ in (0, 1, 2, 7)] != [False, True, True, True]:
                return "other", f"the stop-order loop `while {src(t)}` is not a count-down (it should hold exactly while the counter is positive)"
            n = names_[0]
            inits = [a for a in f.node.body if isinstance(a, ast.Assign) and len(a.targets) == 1 and isinstance(a.targets[0], ast.Name)
                     and a.targets[0].id == n and f.node.body.index(a) < f.node.body.index(st)]
            if not (len(inits) == 1 and src(inits[0].value) == f"len({sn}.procs)"):
                return "other", f"`{n}` does not start at len(self.procs)"
            if len(st.body) != 1 or not isinstance(st.body[0], ast.Try) or st.orelse:
                return "other", "the stop-order loop is not a single try statement"
            tr = st.body[0]
            ok_body = len(tr.body) == 2 and isinstance(tr.body[0], ast.Expr) and tr.body[0].value in puts \
                and const_value(puts[0].args[0], 0) is None and queue_call(puts[0])[1] in ("bounded", "nonblocking") \
                and isinstance(tr.body[1], ast.AugAssign) and isinstance(tr.body[1].op, ast.Sub) and src(tr.body[1].target) == n \
                and const_value(tr.body[1].value) == 1 and len(puts) == 1 and not tr.orelse and not tr.finalbody
            if not ok_body:
                return "other", "the try body is not `put(None, timeout=...)` followed by the decrement"
            if len(tr.handlers) != 1 or "Full" not in src(tr.handlers[0].type or ast.Name(id="", ctx=ast.Load())):
                return "other", "the retry is not a single `except queue.Full` handler"
            hb = tr.handlers[0].body
            # the handler leaves the loop only when every worker has finished
            leaves = [x for x in ast.walk(tr.handlers[0]) if isinstance(x, (ast.Break, ast.Return, ast.Raise))]
            for lv in leaves:
                par = getattr(lv, "_parent", None)
                if not (isinstance(par, ast.If) and lv in par.body and _all_finished_test(par.test, sn)):
                    return "other", "the queue.Full handler can give up while a worker may still be running"
            if any(isinstance(x, ast.AugAssign) and src(x.target) == n for h_ in hb for x in ast.walk(h_)):
                return "other", "the handler counts an order that was not delivered"
            return "bounded", st
    return "other", "no loop putting stop orders on the work queue found"


def _all_finished_test(t, sn: str) -> bool:
    """all(p.exitcode is not None for p in self.procs)  /  not any(p.exitcode is None ...)  /  not any(p.is_alive() ...)"""
    neg = False
    while isinstance(t, ast.UnaryOp) and isinstance(t.op, ast.Not):
        t, neg = t.operand, not neg
    if not (isinstance(t, ast.Call) and isinstance(t.func, ast.Name) and t.func.id in ("all", "any") and len(t.args) == 1
            and isinstance(t.args[0], (ast.GeneratorExp, ast.ListComp)) and len(t.args[0].generators) == 1):
        return False
    g = t.args[0]
    gen = g.generators[0]
    if src(gen.iter) != f"{sn}.procs" or gen.ifs or not isinstance(gen.target, ast.Name):
        return False
    p = gen.target.id
    e = g.elt
    finished = None            # does the element expression say "p has finished"?
    if isinstance(e, ast.Compare) and len(e.ops) == 1 and src(e.left) == f"{p}.exitcode" and const_value(e.comparators[0], 0) is None:
        finished = isinstance(e.ops[0], ast.IsNot) if isinstance(e.ops[0], (ast.Is, ast.IsNot)) else None
    elif isinstance(e, ast.Call) and src(e.func) == f"{p}.is_alive" and not e.args:
        finished = False
    elif isinstance(e, ast.UnaryOp) and isinstance(e.op, ast.Not) and isinstance(e.operand, ast.Call) and src(e.operand.func) == f"{p}.is_alive":
        finished = True
    if finished is None:
        return False
    if t.func.id == "all":
        return finished and not neg
    return (not finished) and neg          # not any(<still running>)


def helper_thread_scopes(f: Func, flow=None):
    """the regions of ``f`` during which a context-manager thread runs:  (constructor call, body statements, node)  for
         with <Thread>(...) [as t]: BODY
         t = <Thread>(...); t.start(); try: BODY finally: t.stop()          (what CMThread.__enter__ / __exit__ do, written out)
    The second form is accepted only when start() directly precedes the try in the same block and the finally calls stop() on the
    same name (stop() sets the stop event and joins, exactly like leaving the with block)."""
    from ..flow import Flow as _Flow
    flow = flow or _Flow(f.node)
    out = []
    for n in walk_own(f.node):
        if isinstance(n, ast.With) and len(n.items) == 1:
            ctx_e = n.items[0].context_expr
            if isinstance(ctx_e, ast.Name):
                ctx_e = flow.expand(ctx_e)
            if isinstance(ctx_e, ast.Call):
                out.append((ctx_e, n.body, n))
        if isinstance(n, ast.Try) and n.finalbody and not n.handlers:
            stops = [st for st in n.finalbody if isinstance(st, ast.Expr) and isinstance(st.value, ast.Call)
                     and isinstance(st.value.func, ast.Attribute) and st.value.func.attr in ("stop", "__exit__")
                     and isinstance(st.value.func.value, ast.Name)]
            if len(stops) != 1 or len(n.finalbody) != 1:
                continue
            t = stops[0].value.func.value.id
            par = getattr(n, "_parent", None)
            blk = None
            for fld in ("body", "orelse", "finalbody"):
                b_ = getattr(par, fld, None)
                if isinstance(b_, list) and n in b_:
                    blk = b_
            if blk is None or blk.index(n) == 0:
                continue
            prev = blk[blk.index(n) - 1]
            started = isinstance(prev, ast.Expr) and isinstance(prev.value, ast.Call) and isinstance(prev.value.func, ast.Attribute) \
                and prev.value.func.attr in ("start", "__enter__") and isinstance(prev.value.func.value, ast.Name) \
                and prev.value.func.value.id == t
            ctor = flow.expand(ast.copy_location(ast.Name(id=t, ctx=ast.Load()), prev)) if started else None
            binds = [a for a in walk_own(f.node) if isinstance(a, ast.Assign) and len(a.targets) == 1 and isinstance(a.targets[0], ast.Name)
                     and a.targets[0].id == t]
            if started and len(binds) == 1 and isinstance(binds[0].value, ast.Call):
                out.append((binds[0].value, n.body, n))
    return out
