"""C04 — worker lifecycle: begin first once, end last once, quota kept, none left running (DESIGN.md §6)."""
from __future__ import annotations

import ast
from typing import Dict, List, Optional, Set, Tuple

from ..absint import Client, Ctx, Interp
from ..model import AnalysisError, Cls, Func, Program, walk_own
from ..orderings import NotAFormula, eval_order, weak_orderings
from ..report import Report
from ..resolve import const_value, dotted
from ..util import before, calls_in, is_manager_expr, manager_fields, returns_of, src
from .poolfam import PoolFacts, queue_call


def run(prog: Program, rep: Report):
    from .poolfam import pool_facts
    pf = pool_facts(prog, rep, None)
    wrun = prog.method(pf.worker, "run")
    rep.attempt(lambda: r1_r2_begin_end(prog, rep, pf, wrun))
    rep.attempt(lambda: r3_ready(prog, rep, pf, wrun))
    rep.attempt(lambda: r4_quota(prog, rep, pf, wrun))
    rep.attempt(lambda: r5_exit(prog, rep, pf))
    rep.attempt(lambda: r6_replaced_joined(prog, rep, pf))


def _self_calls(f: Func, name: str) -> List[ast.Call]:
    return [c for c in calls_in(f.node) if isinstance(c.func, ast.Attribute) and c.func.attr == name
            and isinstance(c.func.value, ast.Name) and c.func.value.id == f.self_name and not c.args]


def _ancestors(n):
    p = getattr(n, "_parent", None)
    while p is not None:
        yield p
        p = getattr(p, "_parent", None)


def _in_block(node, block) -> bool:
    return any(n is node for s in block for n in ast.walk(s))


def r1_r2_begin_end(prog, rep: Report, pf: PoolFacts, wrun: Func):
    rep.rule("C04.R1", "end() has exactly one call site in run(), in the finally of a try whose body contains the begin() call and "
             "every work-queue get: it runs exactly once after the last item on normal, functor-raises and begin-raises paths",
             floor=1)
    rep.rule("C04.R2", "begin() has exactly one call site, outside every loop, before every work-queue get", floor=1)
    rep.fn(wrun)
    ends = _self_calls(wrun, "end")
    begins = _self_calls(wrun, "begin")
    gets = [c for c in calls_in(wrun.node) if queue_call(c) and queue_call(c)[0] == "get"
            and pf.qid(c.func.value, wrun, pf.worker) == pf.work_q]
    if not gets:
        rep.unrec("C04.R1", wrun, "end", "no get on the work queue in run()")
        return
    # R1
    ok, why = True, ""
    if len(ends) != 1:
        ok, why = False, f"end() has {len(ends)} call sites in run()"
    else:
        e = ends[0]
        tr = None
        for a in _ancestors(e):
            if isinstance(a, ast.Try) and _in_block(e, a.finalbody):
                tr = a
                break
            if isinstance(a, (ast.For, ast.While)):
                ok, why = False, "end() is called inside a loop"
        if tr is None and ok:
            ok, why = False, "end() is not in a `finally` block: it is skipped when begin() or the functor raises"
        elif ok:
            if not begins or not all(_in_block(b, tr.body) for b in begins):
                ok, why = False, "begin() is not inside the try whose finally calls end(): end() does not run when begin() raises"
            elif not all(_in_block(g, tr.body) for g in gets):
                ok, why = False, "a work-queue get lies outside the try whose finally calls end(): items are processed after end()"
            else:
                # nothing of the work follows the try statement
                cond = [a for a in _ancestors(e) if isinstance(a, ast.If) and _in_block(e, a.body + a.orelse)
                        and any(a is x for x in ast.walk(ast.Module(body=tr.finalbody, type_ignores=[])))]
                if cond:
                    ok, why = False, "end() is called conditionally inside the finally block"
    rep.check("C04.R1", wrun, "end", ok, "single end() in the finally of the try that contains begin() and the work loop", why,
              scenario="the functor raises at some item (or begin() raises): end() never runs and the worker's resources leak; or "
                       "end() runs twice / before the last item")
    # R2
    ok, why = True, ""
    if len(begins) != 1:
        ok, why = False, f"begin() has {len(begins)} call sites in run()"
    else:
        b = begins[0]
        if any(isinstance(a, (ast.For, ast.While)) for a in _ancestors(b) if a is not wrun.node):
            ok, why = False, "begin() is called inside a loop: it runs once per item"
        elif any(isinstance(a, ast.If) for a in _ancestors(b)):
            ok, why = False, "begin() is called conditionally"
        elif any(before(wrun.node, g, b) for g in gets):
            ok, why = False, "a work-queue get precedes begin()"
    rep.check("C04.R2", wrun, "begin", ok, "single begin() outside loops, before every work-queue get", why,
              scenario="the first chunk is processed before begin() completed (or begin() runs again for every chunk)")


class _Ready(Client):
    """state = (begin completed, ready event set, work taken)"""

    def __init__(self, pf: PoolFacts, ev: str):
        self.pf, self.ev = pf, ev
        self.problems: List[Tuple[int, str]] = []
        self.sets = 0

    def should_inline(self, func, call, ctx):
        return False

    def event(self, kind, node, state, ctx):
        begun, ready, got = state
        if kind == "call" and isinstance(node, ast.Call) and isinstance(node.func, ast.Attribute):
            f = ctx.func
            recv = node.func.value
            name = node.func.attr
            if isinstance(recv, ast.Name) and recv.id == f.self_name and name == "begin":
                return ((True, ready, got),)
            if dotted(recv) == (f.self_name, self.ev):
                if name == "set":
                    self.sets += 1
                    if not begun:
                        self.problems.append((node.lineno, "the ready event is set on a path where begin() has not completed"))
                    if got:
                        self.problems.append((node.lineno, "the ready event is set only after work was taken"))
                    return ((begun, True, got),)
                if name == "clear":
                    if ready:
                        self.problems.append((node.lineno, "the ready event is cleared after it was set: until_all_ready() can block forever"))
                    return ((begun, False, got),)
            qc = queue_call(node)
            if qc and qc[0] == "get" and self.pf.qid(recv, f, ctx.scope.cls) == self.pf.work_q:
                if not begun:
                    self.problems.append((node.lineno, "work is taken from the queue before begin() completed"))
                return ((begun, ready, True),)
        return (state,)


def r3_ready(prog, rep: Report, pf: PoolFacts, wrun: Func):
    rep.rule("C04.R3", "the ready event is set only on paths through a completed begin(), before the first get, and never cleared "
             "after being set; until_all_ready waits on that event of every element of self.procs", floor=2)
    uar = prog.method(pf.pool, "until_all_ready")
    rep.fn(wrun, uar)
    # event field: what until_all_ready waits on
    ev = None
    loop_ok = False
    for n in walk_own(uar.node):
        if isinstance(n, ast.For) and dotted(n.iter) == (uar.self_name, "procs") and isinstance(n.target, ast.Name):
            for c in ast.walk(n):
                if isinstance(c, ast.Call) and isinstance(c.func, ast.Attribute) and c.func.attr == "wait" and not c.args:
                    d = dotted(c.func.value)
                    if d and len(d) == 2 and d[0] == n.target.id:
                        ev = d[1]
                        loop_ok = not any(isinstance(x, (ast.Break, ast.Return, ast.If)) for x in ast.walk(n))
    sem = _waits_all_by_paths(prog, pf, uar)
    if sem is not None and (ev is None or not loop_ok or True):
        kind, ev2, why = sem
        if kind == "ok" and (ev is None or not loop_ok or not _plain_top_level(uar)):
            ev = ev2
            rep.ok("C04.R3", uar, "waits-all", f"every normal return has, for each element of self.procs, waited on .{ev} without bound, "
                   f"seen the bounded wait succeed, or seen .{ev}.is_set() (path summaries)")
            _ready_after_begin(prog, rep, pf, wrun, ev)
            return
        if kind == "viol" and ev is None:
            rep.viol("C04.R3", uar, "waits-all", why, scenario="until_all_ready() returns while a worker is still inside begin()")
            return
    if ev is None:
        waits = [c for c in calls_in(uar.node) if isinstance(c.func, ast.Attribute) and c.func.attr == "wait" and not c.args and not c.keywords]
        if waits and any(isinstance(n_, ast.Attribute) and n_.attr == "procs" for n_ in ast.walk(uar.node)):
            # it waits without timeout on something reached from self.procs, but not in the `for p in self.procs` form
            rep.unrec("C04.R3", uar, "waits-all", f"`{src(waits[0])}`: the walk over self.procs is not the plain `for p in self.procs` loop")
        else:
            rep.viol("C04.R3", uar, "waits-all", "until_all_ready does not wait (without timeout) on an event of every element of self.procs",
                     scenario="until_all_ready() returns while a worker is still inside begin()")
        return
    # every path through until_all_ready runs the wait loop: it is a top-level statement (possibly inside `with` blocks) and no
    # statement before it can leave the function
    def top_level(body):
        for k, st in enumerate(body):
            if isinstance(st, ast.For) and dotted(st.iter) == (uar.self_name, "procs"):
                return [], True
            if isinstance(st, ast.With):
                early, found = top_level(st.body)
                if found:
                    return early, True
            early = [x for x in ast.walk(st) if isinstance(x, (ast.Return, ast.Raise))]
            if early:
                return early, False
        return [], False
    early, on_all_paths = top_level(uar.node.body)
    if loop_ok and not on_all_paths:
        rep.viol("C04.R3", uar, "waits-all", "a path through until_all_ready leaves before (or without) the wait loop over self.procs"
                 + (f": `{src(early[0])}` at line {early[0].lineno}" if early else ""),
                 scenario="a second call after a worker was replaced returns while the successor is still inside begin()",
                 line=early[0].lineno if early else uar.node.lineno)
        loop_ok = None
    if loop_ok is not None:
        rep.check("C04.R3", uar, "waits-all", loop_ok, f"waits on .{ev} of every element of self.procs, on every path",
              "the wait loop can skip workers (break/return/condition inside)",
              scenario="until_all_ready() returns while a worker is still inside begin()")
    _ready_after_begin(prog, rep, pf, wrun, ev)


def _plain_top_level(uar: Func) -> bool:
    """the wait loop is a top-level statement with nothing that can leave the function before it (the form the syntactic reading
    of `waits-all` decides by itself)"""
    for st in uar.node.body:
        if isinstance(st, ast.For):
            return not any(isinstance(x, (ast.Break, ast.Return, ast.If)) for x in ast.walk(st))
        if isinstance(st, ast.With):
            continue
        if any(isinstance(x, (ast.Return, ast.Raise)) for x in ast.walk(st)):
            return False
    return False


def _waits_all_by_paths(prog, pf: PoolFacts, uar: Func):
    """('ok' | 'viol' | 'unrec', event field, why) from the path summaries of until_all_ready (E11): on every normally returning path,
    every iteration over self.procs is justified by an unbounded wait on the element's event, a bounded wait whose result was seen
    true, or `is_set()` seen true; a `return` inside the loop, or a path without the loop, is not"""
    from ..paths import strip_versions, subterms, summaries
    try:
        paths, un = summaries(prog, uar, pf.pool)
    except Exception:
        return None
    if un:
        return None
    normal = [p for p in paths if p.exit == "return"]
    if not normal:
        return None

    def is_procs(t) -> bool:
        t = strip_versions(t)
        return isinstance(t, tuple) and t[:1] == ("attr",) and t[1] == ("self",) and t[2] == "procs"
    for n in ast.walk(uar.node):
        if isinstance(n, ast.For) and dotted(n.iter) == (uar.self_name, "procs"):
            if any(isinstance(x, (ast.Return, ast.Break)) for x in ast.walk(n)):
                return ("viol", None, "the loop over self.procs can be left (return / break) before every worker was waited for")
    evs = set()
    if not any(e[0] == "loop" and is_procs(e[2]) for p in normal for e in p.events):
        return None              # self.procs is not walked by a `for` loop at all (a position counter, a helper ...): not read here
    for p in normal:
        if not any(e[0] == "loop" and is_procs(e[2]) for e in p.events):
            return ("viol", None, "a path through until_all_ready returns without the wait loop over self.procs")
        for i, e in enumerate(p.events):
            if not (e[0] == "iter" and isinstance(e[2], tuple) and e[2][:1] == ("elem",) and is_procs(e[2][1])):
                continue
            el = strip_versions(e[2])
            just = None
            for x in p.events[i + 1:]:
                if x[0] == "call" and x[1] == "wait":
                    r = strip_versions(x[2]) if x[2] is not None else None
                    if isinstance(r, tuple) and r[:1] == ("attr",) and strip_versions(r[1]) == el:
                        if not x[3]:
                            just = r[2]
                        else:
                            # bounded: the path must have seen the result true
                            for t, outcome in p.decisions:
                                neg = False
                                while isinstance(t, tuple) and t[:1] == ("not",):
                                    t, neg = t[1], not neg
                                if any(isinstance(st, tuple) and len(st) > 2 and st[1] == "wait" for st in subterms(t)) and (outcome != neg):
                                    just = r[2]
            for t, outcome in p.decisions:
                neg = False
                while isinstance(t, tuple) and t[:1] == ("not",):
                    t, neg = t[1], not neg
                for st in subterms(t):
                    if len(st) > 2 and st[1] == "is_set" and (outcome != neg):
                        r = strip_versions(st[2])
                        if isinstance(r, tuple) and r[:1] == ("attr",) and strip_versions(r[1]) == el:
                            just = just or r[2]
            if just is None:
                return ("viol", None, "an iteration over self.procs goes on without having waited for that worker's event")
            evs.add(just)
    if len(evs) != 1:
        return None
    return ("ok", next(iter(evs)), "")


def _ready_after_begin(prog, rep: Report, pf: PoolFacts, wrun: Func, ev: str):
    client = _Ready(pf, ev)
    it = Interp(prog, client)
    it.run(wrun, {(False, False, False)}, pf.worker)
    probs = sorted(set(client.problems))
    if client.sets == 0:
        probs.append((wrun.node.lineno, f"run() never sets self.{ev}: until_all_ready() blocks forever"))
    rep.check("C04.R3", wrun, "ready-after-begin", not probs, f"self.{ev} set after begin() completed, before the first get; never cleared afterwards",
              "; ".join(m for _, m in probs),
              scenario="until_all_ready() returns before begin() of some worker has completed (or never returns)",
              line=probs[0][0] if probs else None)


class _Quota(Client):
    """state = (result put since loop head, quota decremented since loop head)"""

    def __init__(self, pf: PoolFacts, quota_field: str, loop):
        self.pf, self.q, self.loop = pf, quota_field, loop
        self.problems: List[Tuple[int, str]] = []

    def should_inline(self, func, call, ctx):
        # the worker's own private helpers (`_process_chunk`, `_send_result`) are part of the round
        return func.cls is not None and func.cls in self.pf.worker.repo_mro() and func.name.startswith("_") and not func.name.startswith("__")

    def refine(self, test, state, ctx):
        # `self.<quota> != math.inf` / `== math.inf` / `math.isinf(self.<quota>)`: on the branch where the quota is infinite the
        # decrement is a no-op (inf - 1 == inf), so that branch counts as having decremented
        put, dec = state
        neg = False
        t = test
        while isinstance(t, ast.UnaryOp) and isinstance(t.op, ast.Not):
            t, neg = t.operand, not neg
        is_inf = None
        if isinstance(t, ast.Compare) and len(t.ops) == 1 and isinstance(t.ops[0], (ast.Eq, ast.NotEq, ast.Is, ast.IsNot)):
            a, b = t.left, t.comparators[0]
            for x, y in ((a, b), (b, a)):
                if dotted(x) == (ctx.func.self_name, self.q) and src(y) in ("math.inf", "inf", "float('inf')", 'float("inf")'):
                    is_inf = isinstance(t.ops[0], (ast.Eq, ast.Is))
        elif isinstance(t, ast.Call) and src(t.func) in ("math.isinf", "isinf") and t.args and dotted(t.args[0]) == (ctx.func.self_name, self.q):
            is_inf = True
        if is_inf is None:
            return (state,), (state,)
        inf_state, fin_state = (put, True), state
        if is_inf != neg:
            return (inf_state,), (fin_state,)
        return (fin_state,), (inf_state,)

    def event(self, kind, node, state, ctx):
        put, dec = state
        if kind == "loophead" and node is self.loop:
            if put and not dec:
                self.problems.append((self.loop.lineno, "the loop re-tests the quota after a result was put without decrementing it"))
            if dec and not put:
                self.problems.append((self.loop.lineno, "the quota is decremented on a path that processed no chunk"))
            return ((False, False),)
        if kind == "call" and isinstance(node, ast.Call):
            qc = queue_call(node)
            if qc and qc[0] == "put" and self.pf.qid(node.func.value, ctx.func, ctx.scope.cls) == self.pf.results_q:
                return ((True, dec),)
        if kind == "aug" and dotted(node.target) == (ctx.func.self_name, self.q):
            if not (isinstance(node.op, ast.Sub) and const_value(node.value) == 1):
                self.problems.append((node.lineno, f"quota updated by `{src(node)}` instead of -= 1"))
            if dec:
                self.problems.append((node.lineno, "the quota is decremented twice for one chunk"))
            return ((put, True),)
        return (state,)


def r4_quota(prog, rep: Report, pf: PoolFacts, wrun: Func):
    rep.rule("C04.R4", "quota: the work loop is guarded by `quota > 0` (ordering abstraction over quota and 0) and on every path that "
             "puts a result the quota is decremented exactly once before the guard is re-tested", floor=2)
    rep.fn(wrun)
    loops = [n for n in walk_own(wrun.node) if isinstance(n, ast.While)
             and any(queue_call(c) and queue_call(c)[0] == "get" for c in ast.walk(n) if isinstance(c, ast.Call))]
    if len(loops) != 1:
        rep.unrec("C04.R4", wrun, "guard", f"expected one work loop, found {len(loops)}")
        return
    loop = loops[0]
    q = None
    for n in ast.walk(loop.test):
        d = dotted(n) if isinstance(n, ast.Attribute) else None
        if d and len(d) == 2 and d[0] == wrun.self_name:
            q = d[1]
    if q is None:
        rep.viol("C04.R4", wrun, "guard", f"the work loop `while {src(loop.test)}` is not guarded by the worker's quota",
                 scenario="a worker with max_chunks_per_worker=k processes more than k chunks", line=loop.lineno)
        return

    def term(x):
        if dotted(x) == (wrun.self_name, q):
            return env["quota"]
        if const_value(x, None) == 0:
            return env["zero"]
        if const_value(x, None) == 1:
            return env["one"]
        return None
    try:
        bad = []
        W = [w for w in weak_orderings(["quota", "zero", "one"]) if w["zero"] < w["one"]
             and not (w["zero"] < w["quota"] < w["one"])]  # integer-valued quota (inf is above every integer)
        for env in W:
            if eval_order(loop.test, env, term) != (env["quota"] > env["zero"]):
                bad.append(env)
        rep.count("orderings_evaluated", len(W))
        rep.check("C04.R4", wrun, "guard", not bad, f"`{src(loop.test)}` continues exactly while quota > 0",
                  f"`{src(loop.test)}` is not `quota > 0` (differs for {bad[:2]}): a worker with quota k takes k+1 chunks (or k-1)",
                  scenario="max_chunks_per_worker=1: the worker processes a second chunk before retiring (test_replace tolerates "
                           "10..12 created workers, so the suite stays green)", line=loop.lineno)
    except NotAFormula as e:
        rep.unrec("C04.R4", wrun, "guard", f"loop guard is not a comparison of the quota: {e}")
    client = _Quota(pf, q, loop)
    it = Interp(prog, client)
    it.run(wrun, {(False, False)}, pf.worker)
    probs = sorted(set(client.problems))
    rep.check("C04.R4", wrun, "decrement", not probs, "one decrement per processed chunk, before the guard is re-tested",
              "; ".join(m for _, m in probs),
              scenario="the quota never reaches 0 (worker never retires) or drops twice per chunk (worker retires after k/2 chunks)",
              line=probs[0][0] if probs else None)


def r5_exit(prog, rep: Report, pf: PoolFacts):
    rep.rule("C04.R5", "pool __exit__: one None per element of self.procs is put on the work queue, every element of self.procs is "
             "joined when its exitcode is None, and the manager is shut down only after the join loop", floor=3)
    f = prog.method(pf.pool, "__exit__")
    mgr_fields = manager_fields(prog, pf.pool)
    rep.fn(f)
    sn = f.self_name
    body = f.node.body
    sent_i = join_i = mgr_i = None
    sent_ok = join_ok = False
    complex_for = None
    for i, st in enumerate(body):
        if isinstance(st, ast.For):
            puts = [c for c in ast.walk(st) if isinstance(c, ast.Call) and queue_call(c) and queue_call(c)[0] == "put"
                    and pf.qid(c.func.value, f, pf.pool) == pf.work_q]
            if puts and sent_i is None:
                sent_i = i
                it_s = src(st.iter)
                per_proc = it_s in (f"range(len({sn}.procs))", f"{sn}.procs")
                single = len(st.body) == 1 and len(puts) == 1 and const_value(puts[0].args[0], 0) is None
                sent_ok = per_proc and single
                if not (len(st.body) == 1 and len(puts) == 1 and isinstance(st.body[0], ast.Expr) and st.body[0].value is puts[0]):
                    complex_for = f"`for {src(st.target)} in {it_s}` puts the stop orders through more than one plain put per round"
            joins = [c for c in ast.walk(st) if isinstance(c, ast.Call) and isinstance(c.func, ast.Attribute) and c.func.attr == "join"]
            if joins and join_i is None:
                join_i = i
                over = src(st.iter) == f"{sn}.procs" and isinstance(st.target, ast.Name)
                j = joins[0]
                on_p = over and src(j.func.value) == st.target.id
                guard = [a for a in _ancestors(j) if isinstance(a, ast.If) and a in st.body]
                g_ok = not guard or ("exitcode" in src(guard[0].test) and "None" in src(guard[0].test))
                no_skip = not any(isinstance(x, (ast.Break, ast.Return, ast.Continue)) for x in ast.walk(st))
                join_ok = on_p and g_ok and no_skip
        for c in ast.walk(st):
            if isinstance(c, ast.Call) and isinstance(c.func, ast.Attribute) and c.func.attr in ("__exit__", "shutdown") \
                    and is_manager_expr(c.func.value, sn, mgr_fields):
                mgr_i = i if mgr_i is None else mgr_i
    from .poolfam import stop_order_delivery
    kind_, what_ = stop_order_delivery(prog, pf, f)
    if kind_ == "bounded":
        # the count-down form: len(self.procs) orders, each put bounded, given up only when every worker has finished
        sent_i = body.index(what_)
        sent_ok = True
    if kind_ == "other" and any(isinstance(st_, ast.While) and any(isinstance(c_, ast.Call) and queue_call(c_) and queue_call(c_)[0] == "put"
                                                                    for c_ in ast.walk(st_)) for st_ in body):
        rep.unrec("C04.R5", f, "sentinels", f"the stop orders are put by a loop this rule does not read: {what_}")
    elif kind_ != "bounded" and complex_for is not None:
        rep.unrec("C04.R5", f, "sentinels", f"the stop orders are put by a loop this rule does not read: {complex_for}")
    else:
      rep.check("C04.R5", f, "sentinels", sent_i is not None and sent_ok, "one None per element of self.procs on the work queue"
                + (" (count-down with bounded puts, given up only when no worker is left)" if kind_ == "bounded" else ""),
                "__exit__ does not put exactly one None per element of self.procs on the work queue",
                scenario="a pool of 3 workers gets 2 sentinels: one worker blocks in get() forever and join() never returns")
    rep.check("C04.R5", f, "joins", join_i is not None and join_ok and (sent_i is None or sent_i < join_i),
              "every element of self.procs is joined (when exitcode is None) after the sentinels were sent",
              "__exit__ does not join every element of self.procs after sending the sentinels",
              scenario="a (replacement) worker is still running after the with block was left")
    rep.check("C04.R5", f, "manager-last", mgr_i is not None and join_i is not None and mgr_i > join_i,
              "the manager is shut down after the join loop",
              "the manager (which owns the queues) is shut down before the workers were joined",
              scenario="workers blocked on a queue of a dead manager raise/hang instead of receiving their sentinel")


def r6_replaced_joined(prog, rep: Report, pf: PoolFacts):
    from .c03 import _Replace
    rep.rule("C04.R6", "replaced workers are not left running: the replace thread joins the retired worker before it drops it "
             "from self.procs (the pool's __exit__ only joins what is in self.procs)", floor=1)
    th = pf.replacer
    run_ = prog.method(th, "run")
    rep.fn(run_)
    vars_ = set()
    for n in walk_own(run_.node):
        if isinstance(n, ast.Assign) and isinstance(n.value, ast.Call) and queue_call(n.value) and queue_call(n.value)[0] == "get" \
                and isinstance(n.targets[0], ast.Name):
            vars_.add(n.targets[0].id)
    client = _Replace(pf, run_, vars_)
    it = Interp(prog, client)
    it.run(run_, {None}, th)
    joins = [m for _, m in sorted(set(client.problems)) if "join" in m or "'received'" in m]
    # (the thread's private helpers count as part of the loop: the order client follows them)
    bodies = [run_.node] + [m.node for m in th.methods.values() if m.name.startswith("_") and not m.name.startswith("__")]
    # private helpers of the pool that the loop calls (`self.pool._join_process(p, ...)`) belong to the loop as well
    called = {c.func.attr for b_ in list(bodies) for c in calls_in(b_) if isinstance(c.func, ast.Attribute)}
    for k_ in pf.fpool.repo_mro():
        if not k_.is_external:
            bodies += [m.node for m in k_.methods.values() if m.name in called and m.name.startswith("_") and not m.name.startswith("__")]
    has_join = any(isinstance(c.func, ast.Attribute) and c.func.attr == "join" for b_ in bodies for c in calls_in(b_))
    rep.check("C04.R6", run_, "retired-joined", has_join and not joins,
              "the retired worker is joined before its slot in self.procs is overwritten",
              "the retired worker is dropped from self.procs without being joined: " + ("; ".join(joins) or "no join() in the replace loop"),
              scenario="quota 1 and a worker whose end() takes 3 s: after the with block that worker is still running (nobody "
                       "joined it: __exit__ only knows its successor)")
    # the replace thread itself is waited for without bound: the pool's __exit__ runs after the consumer's `with <replace thread>`
    # was left; if stop() gives up after a timeout, the thread can still start a successor that nobody joins
    stop = prog.resolve(th, "stop")
    chain = []
    seen = set()
    k = stop
    while k is not None and k.qual not in seen and not getattr(k.cls, "is_external", False):
        seen.add(k.qual)
        chain.append(k)
        nxt = None
        for c in calls_in(k.node):
            if isinstance(c.func, ast.Attribute) and c.func.attr == "stop" and isinstance(c.func.value, ast.Call) \
                    and src(c.func.value.func) == "super":
                nxt = prog.resolve(th, "stop", after=k.cls)
        k = nxt
    joins_ = [(g, c) for g in chain for c in calls_in(g.node) if isinstance(c.func, ast.Attribute) and c.func.attr == "join"
              and isinstance(c.func.value, ast.Name) and c.func.value.id == g.self_name]
    if not chain:
        rep.unrec("C04.R6", run_, "thread-joined", "stop() of the replace thread not found")
    elif not joins_:
        rep.unrec("C04.R6", chain[0], "thread-joined", "stop() of the replace thread does not join the thread itself")
    else:
        bounded = []
        for g, c in joins_:
            t = c.args[0] if c.args else next((kw.value for kw in c.keywords if kw.arg == "timeout"), None)
            if isinstance(t, ast.Name) and t.id in g.params:
                a_ = g.node.args
                pos_ = a_.posonlyargs + a_.args
                dfl = dict(zip([x.arg for x in pos_[len(pos_) - len(a_.defaults):]], a_.defaults))
                d0 = dfl.get(t.id)
                if isinstance(d0, ast.Constant) and d0.value is None:
                    continue                  # join(timeout) with timeout=None by default: unbounded unless a caller asks otherwise
            if t is not None and not (isinstance(t, ast.Constant) and t.value is None):
                bounded.append((g, c, t))
        rep.fn(chain[0])
        rep.check("C04.R6", chain[0], "thread-joined", not bounded, "stop() waits for the replace thread without a timeout",
                  (f"`{src(bounded[0][1])}` in {bounded[0][0].cls.name}.stop gives up after a timeout: the replace thread may still be "
                   "replacing a worker when the pool context is left, and the successor it starts is joined by nobody") if bounded else "",
                  scenario="quota used up by the last chunk, slow end() of the retired worker: __exit__ joins what is in procs, then "
                           "the replace thread starts a new worker that is left running",
                  line=bounded[0][1].lineno if bounded else None)
